"""C13 — self tail calls run in constant stack."""
import re
from common import *
import vm_corr, vm_checks, progs

PROP_MODULE = "NeverModel.Props.C13"
REQUIRED = ["Never.C13.tail_call_restores_entry",
            # the tail-call marker front/tailrec.c: translator tie (gen/tailtab.py -> Gen/TailTab.lean) and the model's theorems
            "Never.Src.Tail.C13.tail_table_agrees", "Never.Src.Tail.C13.retag_rule_agrees", "Never.Src.Tail.C13.tail_table_sound_partial",
            "Never.Src.Tail.C13.tail_table_complete", "Never.Src.Tail.C13.tail_table_catch_and_nested", "Never.Src.Tail.C13.case_labels_covered",
            "Never.Src.Tail.C13.cTab_eq_refTab", "Never.Src.Tail.C13.opens_table_consistent", "Never.Src.Tail.C13.marker_sound", "Never.Src.Tail.C13.marker_sound_c_partial",
            "Never.Src.Tail.C13.marker_sound_self", "Never.Src.Tail.C13.marker_sound_self_c", "Never.Src.Tail.C13.pinned_scope_marks_match_binding_counterexample", "Never.Src.Tail.C13.marker_complete", "Never.Src.Tail.C13.marker_complete_c", "Never.Src.Tail.C13.marker_skips_catch",
            "Never.Src.Tail.C13.marker_skips_catch_c", "Never.Src.Tail.C13.tail_position_value", "Never.Src.Tail.C13.tail_call_owes_handlers", "Never.Src.Tail.C13.tail_call_replaces_frame",
            "Never.Src.Tail.C13.operand_not_tail_counterexample", "Never.Src.Tail.C13.scrutinee_not_tail_counterexample"]

def peak(r):
    for l in r["lines"]:
        m = re.search(r"peak_sp=(-?\d+)", l)
        if l.startswith("end ") and m:
            return int(m.group(1))
    return None

def count_tail_calls(dump_path):
    """marked calls in the dumped code: CALL not preceded (since the last CALL/RET) by its MARK = `SLIDE q m; CALL`"""
    n = 0
    try:
        prev = None
        for l in open(dump_path):
            w = l.split()
            if w and w[0] == "i":
                if prev is not None and prev[0] == OPC["SLIDE"] and int(w[2]) == OPC["CALL"] and prev[2] > 0:
                    n += 1
                prev = (int(w[2]), int(w[3]), int(w[4]))
    except IOError:
        pass
    return n

def marker_search():
    """after a broken proof / tie of the marker's table: look for a program on which the implementation and the reference
    evaluator disagree, among the position-class programs (tailpos.py) and the tail corpus"""
    try:
        import tailpos
        return tailpos.search()
    except Exception as e:
        return None

OPC = {}
def load_opcodes():
    src = open(os.path.join(LEAN, "NeverModel", "Gen", "Opcodes.lean")).read()
    names = re.findall(r"^  \| (\w+)$", src, re.M)
    for i, n in enumerate(names):
        OPC[n] = i

def check(tier, seed):
    rep = Report("C13", tier, seed, "proof")
    run([sys.executable, os.path.join(VERIF, "gen", "opcodes.py")])
    proof_stage(rep, PROP_MODULE, required=REQUIRED, search=marker_search)
    tie = [n for n in rep.cov.get("translator_notes", []) if n.startswith("tailtab:")]
    if tie:
        # a shape of front/tailrec.c the translator does not recognise: the table was NOT regenerated, the theorems above are about the last good one
        found = marker_search()
        rep.violation("tailtab_tie_broken", "translator gen/tailtab.py: broken tie (front/tailrec.c has a shape that is not recognised; Gen/TailTab.lean NOT regenerated)\n%s%s"
                      % ("\n".join(tie), ("\n--- failing input found on the implementation ---\n" + found) if found else ""), bool(found))
    load_opcodes()
    h = vm_corr.VmHarness()
    stats, rows = {}, []
    rounds = 1 if tier == "quick" else 5
    Ns = [(300, 3000)] if tier == "quick" else [(300, 3000), (2000, 20000), (10000, 100000)]
    fam = [p for p in progs.generate(seed, rounds) if p[2].get("tail")]
    viol = 0
    for (name, src, meta) in fam:
        for (n1, n2) in Ns:
            res = []
            for n in (n1, n2):
                # lockstep only on the smaller run (traces of 10^5..10^6 iterations are long); peak sp from the hook on both
                r = h.run(src=src, args=[str(n)], gc=0, mem=5000, stack=200, trace=(n == n1), maxlines=300000, timeout=300)
                io = vm_corr.impl_outcome(r)
                if n == n1:
                    ml, me = h.model(r)
                    st, det = vm_corr.compare(r, ml, me)
                    ntail = count_tail_calls(r["dump"])
                else:
                    st, det = "untraced", ""
                res.append((n, r, io, st, det))
                stats[st] = stats.get(st, 0) + 1
            (na, ra, ioa, sta, deta), (nb, rb, iob, stb, detb) = res
            pa, pb = peak(ra), peak(rb)
            rows.append(dict(program=name, N=[na, nb], peak_sp=[pa, pb], tail_calls_emitted=ntail, outcome=[ioa["kind"], iob["kind"]]))
            bad = None
            if "timeout" in (ioa["kind"], iob["kind"]) or sta in ("impl-timeout", "model-timeout"):
                stats["timeouts"] = stats.get("timeouts", 0) + 1      # the clock, not the code: counted, not judged
                for (_, r, _, _, _) in res:
                    h.cleanup(r)
                continue
            if not ioa["kind"].startswith("return 0") or not iob["kind"].startswith("return 0"):
                bad = "a tail-recursive program does not complete: %s / %s (%s)" % (ioa["kind"], iob["kind"], (ra["err"] + rb["err"])[-300:])
            elif pa != pb:
                bad = "peak stack depth depends on the iteration count: peak_sp(%d)=%s, peak_sp(%d)=%s" % (na, pa, nb, pb)
            elif ntail == 0:
                bad = "no marked call (SLIDE; CALL without MARK) emitted for a self tail call"
            if bad and viol < 3:
                viol += 1
                rep.violation("c13_%s_%d" % (name, na), "# %s\n# run: h_vm -e <program> %d   and   %d  (stack 200, heap 5000)\n%s" % (bad, na, nb, src), True)
            elif sta not in ("ok",) and viol < 3:
                viol += 1
                rep.violation("c13_div_%s_%d" % (name, na), "# M-VM <-> VM correspondence broken on a tail-recursive program (%s)\n# %s\n%s" % (sta, deta.replace("\n", "\n# "), src), False)
            for (_, r, _, _, _) in res:
                h.cleanup(r)
    h.close()
    # which calls are marked: generator's position classes vs the model of tailrec.c (nmdrv tail) vs the dumped code; results vs the
    # reference evaluator; all-tail programs in constant stack
    import tailpos
    tp = tailpos.run(rep, tier, seed)
    rep.cov["tail_positions"] = {k: v for k, v in tp.items() if k != "found"}
    rep.cov.update(trusted_base=["Lean 4.33 kernel", "axioms: propext, Classical.choice, Quot.sound", "h_vm.c peak-sp hook + comparator", "gcc/ASan"],
                   evaluations=2 * len(rows) + tp["programs"], distinct_nontrivial=len(rows) + tp["functions"],
                   rule="each tail-recursive shape (?:, block, match arm, record match arm, if-let, no-parameter with local, allocating) is run at N and 10N iterations, N far above the 200-slot stack; peak sp (per-instruction hook) must be equal; the N run is replayed in lockstep on the Lean VM",
                   samples=rows[:4], rows=rows, statuses=stats)
    rep.assumptions = ["front/tailrec.c is modelled by Model/TailRec.lean (markedAt over the table regenerated from the C text by gen/tailtab.py); the self test (symbol-table lookup) is mirrored by names: parameters, block items and the names record guards bind shadow (the lexical scope along tail paths)",
                       "the excused table entry: the function expression of a call receives the tail flag (marker_sound_c_partial); no typed program can exploit it",
                       "whether a retagged call may replace the frame of a function WITH catch clauses is not part of the model: known finding tail-call-under-own-catch-clauses",
                       "result = equivalent loop is covered through the lockstep replay, C02's evaluator on the position-class programs, and tail_position_value on the evaluator"]
    return rep.finish()

def replay(path):
    print(open(path).read()); return 0
