"""C07 — emitted code is well-formed on every path, executed or not."""
import subprocess
from concurrent.futures import ThreadPoolExecutor
from common import *
import vm_corr, vm_checks, progs

PROP_MODULE = "NeverModel.Props.C07"
REQUIRED = ["Never.C07.verified_table_wellformed", "Never.C07.verified_every_fault_has_handler", "Never.C07.verified_nonempty", "Never.C07.simple_effect_sound_arith", "Never.C07.simple_effect_sound", "Never.C07.verified_flow", "Never.C07.verified_step_keeps_height", "Never.C07.verified_branch_keeps_height",
            "Never.C07.verified_frame_heights", "Never.C07.verified_mark_step", "Never.C07.verified_slide_step", "Never.C07.verified_clear_stack_step",
            "Never.C07.verified_data_step", "Never.C07.verified_local_in_frame", "Never.C07.frame_slot_is_read",
            "Never.C07.verified_step_in_activation", "Never.C07.verified_run_in_activation", "Never.C07.verified_run_fn_in_activation",
            "Never.C07.stack_size_invariant", "Never.C07.effect_table_write_footprint", "Never.C07.verified_step_keeps_frame_records",
            "Never.C07.verified_step_keeps_callers_frames", "Never.C07.verified_mk_init_array_extents", "Never.C07.callee_arity_suffices",
            "Never.C07.mark_pushes_record", "Never.C07.verified_ret_step", "Never.C07.verified_marked_call_returns",
            "Never.C07.verify_sound_partial", "Never.C07.verify_sound_from_start_partial", "Never.C07.verify_sound_step_partial"]

def verify_dump(path):
    """-> (verdict line, {address: (height, nparams)} for the addresses inside function bodies)"""
    p = subprocess.run([NMDRV, "verify", "--heights", path], stdout=subprocess.PIPE, stderr=subprocess.PIPE, text=True, timeout=300)
    lines = p.stdout.strip().split("\n")
    hs = {}
    for l in lines[1:]:
        if l.startswith("H "):
            for w in l.split()[1:]:
                a, h, np = w.split(":")
                hs[int(a)] = (int(h), int(np))
    return (lines[0] if lines else ""), hs

def height_check(trace_path, hs, limit=60000):
    """the verifier's table against the running VM: before every executed instruction inside a function body
    sp = pp + nparams + h(ip) (pp = frame pointer of the running function).  -> (steps checked, first mismatch or None)"""
    n = 0
    try:
        with open(trace_path) as f:
            for l in f:
                if not l.startswith("t "):
                    continue
                w = l.split()
                ip, op, sp, fp = int(w[1]), int(w[2]), int(w[3]), int(w[5])   # w[5] = pp: the frame of the running function (fp moves at MARK, pp at CALL)
                e = hs.get(ip)
                if e is None:
                    continue
                n += 1
                if sp - fp - e[1] != e[0]:
                    return n, "ip=%d opcode=%d: sp=%d fp=%d nparams=%d -> height %d at run time, the verifier derived %d" % (ip, op, sp, fp, e[1], sp - fp - e[1], e[0])
                if n >= limit:
                    break
    except OSError:
        pass
    return n, None

REPLAY = dict(tier="quick", seed=1)
def replay_side(j):
    """which runs are replayed on M-VM for the side-condition check: all in the thorough tier; in the quick tier the family programs
    and half of the samples (which half depends on the seed), to stay inside the time budget"""
    if REPLAY["tier"] != "quick" or not j["name"].startswith("sample"):
        return True
    import zlib
    return (zlib.crc32(j["name"].encode()) + REPLAY["seed"]) % 2 == 0

def check(tier, seed):
    rep = Report("C07", tier, seed, "translation_validation")
    REPLAY.update(tier=tier, seed=int(seed) if str(seed).isdigit() else 1)
    os.environ["NMDRV_STEPOK"] = "1"   # `nmdrv vm` follows the live frame records and checks `stepOkB` on every replayed step
    run([sys.executable, os.path.join(VERIF, "gen", "opcodes.py")])
    proof_stage(rep, PROP_MODULE, required=REQUIRED)
    h = vm_corr.VmHarness()
    jobs = vm_checks.sample_jobs() + vm_checks.family_jobs(seed, 1 if tier == "quick" else 8, [("3",)])
    # C06's corpus of well-typed programs exercises many emitter paths too
    tc = os.path.join(VERIF, "corpus", "tc")
    if os.path.isdir(tc):
        for f in sorted(os.listdir(tc)):
            if f.endswith(".nev") and not f.startswith("known_"):
                jobs.append(dict(name="tc_" + f, file=os.path.join(tc, f)))
    stats = {"ok": 0, "FAIL": 0, "not-compiled": 0}
    agg = dict(instrs=0, functions=0, calls=0, tail=0, jumps=0, handlers=0, unreached=0)
    samples, fails = [], 0
    def one(j):
        r = h.run(trace=True, maxlines=60000, timeout=60, **{k: v for k, v in j.items() if k not in ("name", "meta")})
        out, hs = verify_dump(r["dump"]) if os.path.exists(r["dump"]) else ("nodump", {})
        hn, hbad = height_check(r["trace"], hs) if out.startswith("ok") else (0, None)
        err = r["err"]
        kind = vm_corr.impl_outcome(r)["kind"]
        # side conditions of `verify_sound_partial` (StepOk: arity of the function value at CALL, free cell at INT; plus the proved
        # conditions re-validated: frame words of live records, MK_INIT_ARRAY extents), checked by the model on every replayed step
        side = None
        if out.startswith("ok") and replay_side(j) and kind.startswith(("return", "exit")):
            try:
                ml, _ = h.model(r, timeout=120)
                side = next((l for l in ml if l.startswith("stepok ")), None)
                # a CALL into an FFI stub is outside M-VM (the model stops with `crash ffi` at the stub): that one step is not judged
                if side and any(l.startswith("stop crash ffi") for l in ml) and " fails=1 " in side and "op=Never.Opc.CALL" in side:
                    side = "stepok-ffi " + side
            except subprocess.TimeoutExpired:
                side = None
        h.cleanup(r)
        return j, out, err, kind, hn, hbad, side
    with ThreadPoolExecutor(max_workers=14) as ex:
        res = list(ex.map(one, jobs))
    hsteps, hbads = 0, 0
    side_steps, side_fail_progs, side_progs, side_ffi = 0, 0, 0, 0
    for j, out, err, kind, hn, hbad, side in res:
        hsteps += hn
        if side and side.startswith("stepok-ffi "):
            side_ffi += 1
        if side and side.startswith("stepok checked="):
            w = dict(kv.split("=") for kv in side.split()[1:4])
            side_progs += 1
            side_steps += int(w["checked"])
            if int(w["fails"]) > 0:
                side_fail_progs += 1
                if side_fail_progs <= 3:
                    src = j.get("src") or open(j["file"]).read()
                    rep.violation("c07_side_%s" % j["name"],
                        "# a side condition of C07's soundness theorem (Props/C07 verify_sound_partial: StepOk) fails on this run of a verified module:\n# %s\n# (a CALL found a function value of another arity than its call site passes / the allocator handed an INT a cell in use / — proved conditions re-validated: a word of a live frame record was overwritten / MK_INIT_ARRAY extents are not the recorded constants)\n%s" % (side, src), True)
        if out == "nodump" or out == "":
            stats["not-compiled"] += 1
            if kind.startswith(("sanitizer", "signal", "assert", "crash")):
                # the compiler itself died on this program: no module, hence no well-formed module
                stats["compiler-crash"] = stats.get("compiler-crash", 0) + 1
                if stats["compiler-crash"] <= 3:
                    src = j.get("src") or open(j["file"]).read()
                    rep.violation("c07_compiler_crash_%s" % j["name"], "# the compiler crashed (%s) while compiling this program; no module was emitted\n# %s\n%s" % (kind, err[-600:].replace("\n", "\n# "), src), True)
            continue
        if out.startswith("ok"):
            stats["ok"] += 1
            for kv in out.split()[1:]:
                k, v = kv.split("=")
                if k in agg: agg[k] += int(v)
            if len(samples) < 3:
                samples.append(dict(program=j["name"], verdict=out))
            if hbad:
                hbads += 1
                if hbads <= 3:
                    src = j.get("src") or open(j["file"]).read()
                    rep.violation("c07_height_%s" % j["name"],
                        "# the verified module does not run at the heights the verifier derived (its stack-effect table, or the VM handler, is wrong):\n# %s\n%s" % (hbad, src), True)
        else:
            stats["FAIL"] += 1
            fails += 1
            if fails <= 3:
                src = j.get("src") or open(j["file"]).read()
                rep.violation("c07_%s" % j["name"], "# the code emitted for this accepted program is ill-formed (static check over all addresses, executed or not):\n# %s\n# replay: h_vm -e/-f <program> -D dump; nmdrv verify dump\n%s" % (out, src), True)
    h.close()
    rep.cov.update(side_condition_steps_checked=side_steps, side_condition_programs=side_progs, side_condition_failing_programs=side_fail_progs, side_condition_skipped_ffi_call=side_ffi,
                   height_steps_cross_checked=hsteps, height_mismatch_programs=hbads, programs=stats["ok"] + stats["FAIL"], disagreements_checked=stats["FAIL"],
                   samples=samples, statuses=stats, totals=agg,
                   trusted_base=["Lean definition of `verify` (Model/Verify.lean) + its compiled driver", "the two typing side conditions of verify_sound_partial (StepOk: arity of the function value at a CALL = callArgs of the site; the allocator hands an INT a free cell) are CHECKED on the replayed runs (stepOkB), not proved; stepOkB also re-validates the proved ones (frame words of live records, MK_INIT_ARRAY extents)", "module dump of h_vm.c (public structs) and the NEVER_VERIF function-table hook",
                                 "M-VM stack effects tied by lockstep traces (C01)"],
                   explanation="every module the real compiler emits for the samples, the seeded families and the C06 corpus is checked by the Lean verifier: jump targets follow a LABEL in the same function, function values point at function entries, string/build-in references exist, no placeholder, stack heights are a function of the address (joins agree), every instruction finds its operands, frame-relative addressing stays inside the function's own frame, every function returns with exactly its result, tail calls slide exactly (n+L, n+1), exception table and handler entries canonical")
    rep.assumptions = ["translation validation per emitted module: nothing is claimed about programs that were not compiled in this run",
                       "which slot of the frame an ID_LOCAL should name is a semantic matter (C02), only frame bounds are checked here"]
    return rep.finish()

def replay(path):
    print(open(path).read()); return 0
