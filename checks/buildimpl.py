#!/usr/bin/env python3
"""Build the implementation (I) from /repo's CURRENT working tree into a scratch
directory outside /repo and /verif.  Content-addressed: the key is a hash over every
source file that goes into the build plus the flags, so an edited tree is always
rebuilt; an unchanged tree re-uses the objects (cache is optional, pruned to 3)."""
import hashlib, os, shutil, subprocess, sys, glob, time
from concurrent.futures import ThreadPoolExecutor

REPO = os.environ.get("NEVER_REPO", "/repo")
CACHE = os.environ.get("NEVER_VERIF_CACHE", "/var/tmp/never-verif-cache")

MODES = {
    # asserts ON (no -DNDEBUG), hooks ON, wrap-around defined, sanitizers
    "asan": ["-O1", "-g", "-DNEVER_VERIF", "-fwrapv", "-fno-omit-frame-pointer",
             "-fsanitize=address,undefined", "-fno-sanitize=float-cast-overflow,float-divide-by-zero",
             "-fno-sanitize-recover=undefined"],
    # same without sanitizers (fast runs, fork-heavy harnesses)
    "plain": ["-O1", "-g", "-DNEVER_VERIF", "-fwrapv"],
    # as shipped: guard off, NDEBUG like the pinned RelWithDebInfo build
    "release": ["-O2", "-g", "-DNDEBUG"],
}

def source_files():
    fs = []
    for d in ("front", "back", "include"):
        for f in sorted(os.listdir(os.path.join(REPO, d))):
            if f in ("parser.c", "parser.h", "scanner.c", "parser.output"):
                continue
            if f.endswith((".c", ".h", ".y", ".l")):
                fs.append(os.path.join(d, f))
    for f in ("main.c", "getopt.c", "getopt.h"):
        fs.append(f)
    return fs

def tree_hash(mode):
    h = hashlib.sha256()
    h.update(("mode=" + mode + " ".join(MODES[mode])).encode())
    for f in source_files():
        h.update(f.encode()); h.update(b"\0")
        with open(os.path.join(REPO, f), "rb") as fh:
            h.update(fh.read())
        h.update(b"\0")
    return h.hexdigest()[:20]

def prune(keep):
    if not os.path.isdir(CACHE):
        return
    ents = [os.path.join(CACHE, e) for e in os.listdir(CACHE)]
    ents = [e for e in ents if os.path.isdir(e) and os.path.basename(e) != keep]
    ents.sort(key=lambda e: os.path.getmtime(e), reverse=True)
    for e in ents[4:]:
        shutil.rmtree(e, ignore_errors=True)

def build(mode="asan", quiet=True):
    """returns dict(dir, lib, cflags, ldflags, src) ; raises RuntimeError with the
    compiler output when the tree does not build."""
    key = mode + "-" + tree_hash(mode)
    out = os.path.join(CACHE, key)
    info = dict(dir=out, lib=os.path.join(out, "libnev.a"), src=os.path.join(out, "src"),
                cflags=MODES[mode] + ["-I" + os.path.join(out, "src", d) for d in ("include", "front", "back", ".")],
                ldflags=["-lm", "-ldl", "-lffi"], mode=mode, key=key,
                never=os.path.join(out, "never"))
    if os.path.exists(os.path.join(out, "OK")):
        os.utime(out, None)
        return info
    tmp = out + ".tmp%d" % os.getpid()
    shutil.rmtree(tmp, ignore_errors=True)
    os.makedirs(os.path.join(tmp, "src"))
    for f in source_files():
        dst = os.path.join(tmp, "src", f)
        os.makedirs(os.path.dirname(dst), exist_ok=True)
        shutil.copy2(os.path.join(REPO, f), dst)
    src = os.path.join(tmp, "src")
    def run(cmd, cwd=src):
        r = subprocess.run(cmd, cwd=cwd, stdout=subprocess.PIPE, stderr=subprocess.STDOUT, text=True)
        if r.returncode != 0:
            raise RuntimeError("build step failed: %s\n%s" % (" ".join(cmd), r.stdout[-4000:]))
        return r.stdout
    try:
        run(["bison", "-d", "-o", "front/parser.c", "front/parser.y"])
        run(["flex", "-o", "front/scanner.c", "front/scanner.l"])
        cfiles = sorted(glob.glob(os.path.join(src, "front", "*.c")) + glob.glob(os.path.join(src, "back", "*.c")))
        inc = ["-I" + os.path.join(src, d) for d in ("include", "front", "back", ".")]
        os.makedirs(os.path.join(tmp, "obj"))
        def cc(c):
            o = os.path.join(tmp, "obj", os.path.relpath(c, src).replace("/", "_")[:-2] + ".o")
            run(["gcc", "-c", "-w"] + MODES[mode] + inc + [c, "-o", o])
            return o
        with ThreadPoolExecutor(max_workers=16) as ex:
            objs = list(ex.map(cc, cfiles))
        run(["ar", "rcs", os.path.join(tmp, "libnev.a")] + objs)
        run(["gcc", "-w"] + MODES[mode] + inc + ["main.c", "getopt.c", os.path.join(tmp, "libnev.a"),
             "-o", os.path.join(tmp, "never"), "-lm", "-ldl", "-lffi"])
        shutil.rmtree(os.path.join(tmp, "obj"))
        open(os.path.join(tmp, "OK"), "w").write(key)
        os.makedirs(CACHE, exist_ok=True)
        if os.path.exists(out):
            shutil.rmtree(tmp)
        else:
            os.rename(tmp, out)
            # paths inside info refer to `out`; debug info refers to tmp paths (harmless)
    except Exception:
        shutil.rmtree(tmp, ignore_errors=True)
        raise
    prune(key)
    return info

def link_harness(info, csrc, exe, extra=()):
    """compile a harness C file against the built library"""
    cmd = ["gcc", "-w"] + MODES[info["mode"]] + ["-I" + os.path.join(info["src"], d) for d in ("include", "front", "back", ".")] \
          + list(extra) + [csrc, info["lib"], "-o", exe] + info["ldflags"]
    r = subprocess.run(cmd, stdout=subprocess.PIPE, stderr=subprocess.STDOUT, text=True)
    if r.returncode != 0:
        raise RuntimeError("harness build failed: %s\n%s" % (" ".join(cmd), r.stdout[-4000:]))
    return exe

if __name__ == "__main__":
    t = time.time()
    i = build(sys.argv[1] if len(sys.argv) > 1 else "asan")
    print(i["dir"], "%.1fs" % (time.time() - t))
