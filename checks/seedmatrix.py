#!/usr/bin/env python3
"""seedmatrix.py <repo-worktree> [ids...] : for each seeded change apply it to the given worktree of /repo, run the
quick check of its property (and of the properties listed in EXTRA), record which checks report a VIOLATION.
Run it from a COPY of /verif with NEVER_REPO pointing at the worktree (Gen files are rewritten by the checks)."""
import json, os, subprocess, sys, time
V = os.path.dirname(os.path.dirname(os.path.abspath(__file__)))
wt = sys.argv[1]
ids = sys.argv[2:] or sorted(os.listdir(os.path.join(V, "seeded")))
EXTRA = {"C02": ["C08", "C07", "C01"], "C07": ["C02", "C01"], "C08": ["C02", "C01", "C04"], "C13": ["C07"], "C04": ["C09"], "C14": ["C01"], "C01": ["C12", "C06", "C07"],
         "C03": ["C01"], "C10": ["C11"], "C11": ["C10"], "C09": ["C04"], "C15": ["C16"], "C16": ["C09"]}
env = dict(os.environ, NEVER_REPO=wt)
out = {}
for sid in ids:
    d = os.path.join(V, "seeded", sid)
    if not os.path.exists(os.path.join(d, "patch.diff")):
        continue
    subprocess.run(["git", "-C", wt, "checkout", "--", "."], check=True)
    r = subprocess.run(["git", "-C", wt, "apply", os.path.join(d, "patch.diff")])
    if r.returncode != 0:
        out[sid] = {"error": "patch does not apply"}; print(sid, "PATCH FAILS", flush=True); continue
    prop = sid.split("-")[0]
    res = {}
    for pid in [prop] + [p for p in EXTRA.get(prop, []) if os.path.exists(os.path.join(V, "checks", p.lower() + ".py"))]:
        t = time.time()
        try:
            p = subprocess.run([sys.executable, os.path.join(V, "checks", "check.py"), pid, "--tier", "quick"], stdout=subprocess.PIPE, stderr=subprocess.STDOUT, text=True, env=env, cwd=V, timeout=2400)
            lines = [l for l in p.stdout.split("\n") if l.startswith("VIOLATION")]
            res[pid] = dict(rc=p.returncode, violations=len(lines), found_input=len([l for l in lines if "no-failing-input-found" not in l]), wall=round(time.time() - t, 1),
                            first=(lines[0][:160] if lines else ""))
        except subprocess.TimeoutExpired:
            res[pid] = dict(rc=-1, violations=0, found_input=0, wall=2400, first="timeout")
        print(sid, pid, res[pid], flush=True)
    out[sid] = res
    json.dump(out, open(os.path.join(V, "seedmatrix.json"), "w"), indent=1)
subprocess.run(["git", "-C", wt, "checkout", "--", "."])
