"""C06 — ill-typed programs are rejected with a diagnostic.
Proof: Props/C06.lean (rejects_* over every program context, on the executable model
Model/Check.lean of the typing rules).  Tie: correspondence with front/typecheck.c through
nev_compile_str (c06_corr.py, harness/h_tc.c, nmdrv tc)."""
from common import *
import c06_corr

PROP_MODULE = "NeverModel.Props.C06"
REQUIRED = ["Never.C06.context_error_propagates", "Never.C06.context_never_accepts",
            "Never.C06.rejects_assign_let_or_param", "Never.C06.rejects_call_arity",
            "Never.C06.rejects_call_kind",
            "Never.C06.rejects_undefined_name", "Never.C06.rejects_undefined_attribute",
            "Never.C06.rejects_operator_incompatible", "Never.C06.rejects_nonbool_condition",
            "Never.C06.rejects_result_kind", "Never.C06.rejects_match_missing_partial",
            "Never.C06.rejects_match_missing_counterexample", "Never.C06.rejects_unknown_exception",
            "Never.C06.check_sound_partial",
            # D11
            "Never.C06.rejects_branch_mismatch", "Never.C06.rejects_branch_tuples", "Never.C06.rejects_branch_ranges",
            "Never.C06.rejects_branch_arrays", "Never.C06.rejects_branch_slices", "Never.C06.rejects_branch_functions",
            "Never.C06.rejects_match_arms_mismatch", "Never.C06.param_cmp_long_double_false_rejection_counterexample",
            "Never.C06.rejects_tuple_arity", "Never.C06.rejects_tuple_member_kind", "Never.C06.rejects_tuple_index",
            "Never.C06.rejects_array_shape", "Never.C06.rejects_forin_iterator_assign",
            "Never.C06.rejects_forin_range_iterator_assign", "Never.C06.rejects_pipe_arity",
            "Never.C06.rejects_pipe_into_nullary", "Never.C06.rejects_pipe_tuple_arity",
            "Never.C06.rejects_missing_enumerator",
            "Never.C06.const_lost_through_slice_assign_accepted_counterexample",
            "Never.C06.const_lost_through_slice_forin_accepted_counterexample",
            "Never.C06.const_tuple_members_to_var_params_accepted_counterexample",
            "Never.C06.catch_clause_const_for_var_result_accepted_counterexample",
            "Never.C06.rejects_empty_main_unit", "Never.C06.rejects_nameless_function",
            "Never.C06.rejects_nameless_function_item", "Never.C06.rejects_iflet_branches",
            "Never.C06.rejects_iflet_other_enum", "Never.C06.range_bound_name_assign_accepted_counterexample",
            "Never.C06.slice_bound_name_assign_accepted_counterexample",
            "Never.C06.rejects_ctor_arity", "Never.C06.rejects_ctor_kind", "Never.C06.rejects_ctor_of_plain_enumerator",
            "Never.C06.rejects_guard_bind_count", "Never.C06.rejects_iflet_bind_count",
            "Never.C06.rejects_guard_unknown_enumerator", "Never.C06.rejects_guard_other_enum"]


def check(tier, seed):
    rep = Report("C06", tier, seed, "proof")
    t0 = time.time()

    def search():
        # a broken proof: run the property's own oracle (mutants on the real compiler) for a failing input
        r2 = Report("C06", "quick", seed, "proof")
        r2.violation = lambda *a, **k: None
        st = c06_corr.run_correspondence(r2, "quick", seed)
        return None if not st.get("accepted_mutants") else "accepted mutants: %d (see the correspondence stage)" % st["accepted_mutants"]

    proof_stage(rep, PROP_MODULE, required=REQUIRED, search=search)
    t1 = time.time()
    st = c06_corr.run_correspondence(rep, tier, seed)
    samples = st.pop("samples", [])
    rep.cov.update(
        trusted_base=["Lean 4.33 kernel", "axioms: propext, Classical.choice, Quot.sound",
                      "hand model Model/Check.lean of typecheck.c (tied only on the inputs the correspondence explores)",
                      "generator/printer/mutators c06_gen.py (the mutator's expectation is the S-level oracle)",
                      "s-expression reader Driver/TcDrv.lean (groups consecutive functions)", "h_tc.c, gcc/ASan, bison/flex"],
        evaluations=st["programs"] + st["mutants"] + st.get("samples_run", 0) + st.get("corpus", 0),
        distinct_nontrivial=st["mutants_agree"],
        rule="per seed: 1 generated well-typed core program P + one mutant per applicable catalogue rule "
             "(22 rules — since D11 also: tuple / range / array branches, tuple arity and index, ragged array literal, for-in iterator "
             "assignment, pipe arity (scalar and tuple), match after an else-match, long/double element types — + 4 known-defect rules), each placed at a statement position chosen with weight on deep contexts "
             "(nested function, closure, comprehension, match arm, catch clause); compared: accept/reject, line and kind of the "
             "first `error:`; first the 29 sample*.nev.err negative samples (exact diagnostics) and corpus/tc",
        samples=samples, c06=st, proof_s=round(t1 - t0, 1))
    rep.assumptions = [
        "the theorems are about the model of the CORE language (Model/Check.lean header lists what is outside)",
        "rejects_match_missing is _partial (non-empty guard list): the excluded point `match e { }` is a genuine defect of the "
        "tree, replayed from corpus/tc (known finding); rejects_call_kind / rejects_result_kind are full strength since the "
        "repair of param_cmp (186dfd9)",
        "reachability hypothesis P.holeEnv = ok: nothing visited BEFORE the offending node is itself in error (single fault)",
        "later compiler passes (constant reduction, emitter) are not modelled; generated programs avoid their known failures"]
    return rep.finish()


def replay(path):
    """re-run one replay file: the Never source in it goes through the real compiler"""
    txt = open(path).read()
    print(txt)
    src = "\n".join(l for l in txt.split("\n") if not l.startswith("# ") or l.startswith("# expect")) + "\n"
    impl = c06_corr.Impl()
    try:
        r = impl.run([src])[0]
    finally:
        impl.close()
    print("--- real compiler now: rc=%s crash=%s" % (r["rc"], r["crash"]))
    for m in r["msgs"]:
        print("    %s:%d: %s" % (m[1], m[0], m[2]))
    return 0
