#!/bin/bash
# confirm_seed.sh <seed-out-dir> : independent confirmation of a seeded change in a scratch worktree
# prints one line: <name> base_tests=<n> base_demo=<rc> patch_applies=<0|1> patched_tests=<n> patched_demo=<rc>
d=$1; name=$(basename $d); wt=/tmp/confirm-$name
git -C /repo worktree remove --force $wt >/dev/null 2>&1; rm -rf $wt
git -C /repo worktree add -q --detach $wt HEAD || exit 2
cd $wt
bt() { cmake -G Ninja -B _build -DCMAKE_BUILD_TYPE=RelWithDebInfo >/dev/null 2>&1 && cmake --build _build >/dev/null 2>&1 || { echo BUILDFAIL; return; }; ctest --test-dir _build -j4 2>/dev/null | grep -o "[0-9]*% tests passed, [0-9]* tests failed out of [0-9]*" | tr ' ' '_'; }
b1=$(bt)
if [ -f $d/demo.sh ]; then (cd $d && timeout 600 bash ./demo.sh $wt) >/dev/null 2>&1; d1=$?; else d1=nodemo; fi
git apply $d/patch.diff 2>/dev/null; ap=$?
b2=$(bt)
if [ -f $d/demo.sh ]; then (cd $d && timeout 600 bash ./demo.sh $wt) >/dev/null 2>&1; d2=$?; else d2=nodemo; fi
cd /; git -C /repo worktree remove --force $wt >/dev/null 2>&1; rm -rf $wt
echo "$name base_tests=$b1 base_demo=$d1 patch_applies=$ap patched_tests=$b2 patched_demo=$d2"
