"""Seeded TYPE-DIRECTED generator of programs of the modelled core (AST of nevast.py), plus the
alpha-renaming of bound names used for the C08 twins.

Termination by construction: loops run on reserved counters with literal bounds; a function
calls only functions bound before it, itself with a decreasing first argument under a guard,
and function-typed names bound before its definition; function-typed variables are never
assigned.  Static validity (the typechecker's const/var/temp rule, no duplicate names in a
block) is respected by construction; a program the real compiler rejects is a generator bug and
is counted in the evidence."""
from nevast import f32_bits, f64_bits

INT, LONG, FLOAT, DOUBLE, BOOL, CHAR, STRING = ("int",), ("long",), ("float",), ("double",), ("bool",), ("char",), ("string",)
ARR = ("arr", 1, INT)
ARR2 = ("arr", 2, INT)
FARR = ("arr", 1, FLOAT)
RNG = ("range", 1)
RNG2 = ("range", 2)
SLC = ("slice", 1, INT)
SLC2 = ("slice", 2, INT)
REC = ("named", "R")
ENUM = ("named", "E")
OPT = ("named", "O")

def P(name, ty, mut=None, dims=None):
    return dict(name=name, ty=ty, dims=dims or [], mut=mut)

F_II = ("func", [P("p", INT)], INT)
F_I = ("func", [], INT)
F_III = ("func", [P("p", INT), P("q", INT)], INT)

NAMES = ["a", "b", "c", "x", "y", "z", "k", "m", "t", "u", "v", "w"]
FNAMES = ["f", "g", "h", "aux", "go", "step"]

DEFAULT_KNOBS = dict(nesting=3, closures=0.5, shadowing=0.6, faults=0.25, recursion=0.5, loops=0.5, prints=0.5,
                     records=0.5, arrays=0.6, strings=0.4, floats=0.4, enums=0.4, catches=0.5, main_args=0.5, ranges=0.6)

class Scope:
    """one symbol-table block: names must be unique within it"""
    def __init__(self, parent=None, func_boundary=False):
        self.parent, self.vars, self.func_boundary = parent, [], func_boundary
        self.tainted = set()   # names used inside functions defined in (or below) this block: a LATER
                               # binding of such a name here would hit the pinned tree's freevar defect
    def add(self, name, ty, ck, **kw):
        e = dict(name=name, ty=ty, ck=ck); e.update(kw)
        self.vars.append(e); return e
    def own(self, name):
        return any(v["name"] == name for v in self.vars)
    def visible(self):
        seen, out, s = set(), [], self
        while s is not None:
            for v in reversed(s.vars):
                if v["name"] not in seen:
                    seen.add(v["name"]); out.append(v)
            s = s.parent
        return out

class Gen:
    def __init__(self, rng, knobs=None):
        self.r = rng
        self.k = dict(DEFAULT_KNOBS)
        if knobs:
            self.k.update(knobs)
        self.next_id = 0
        self.counter = 0
        self.stats = {}
        self.used = set()
        self.nonconst_cond = 0
        self.conds = 0
        self.cur_func = None      # dict(name, n_param) of the function being generated (controlled recursion)
        self.budget = 0

    def use(self, what):
        self.used.add(what)

    def fresh_id(self):
        i = self.next_id; self.next_id += 1; return i

    def ch(self, p):
        return self.r.chance(p)

    # ------------------------------------------------------------ names
    def pick_name(self, scope, pool=NAMES, avoid=()):
        """a name not yet bound in THIS block; shadowing of outer names is welcome"""
        vis = [v["name"] for v in scope.visible()]
        cands = [n for n in pool if not scope.own(n) and n not in scope.tainted and n not in avoid]
        if self.ch(self.k["shadowing"]):
            sh = [n for n in cands if n in vis and not self.reserved(scope, n)]
            if sh:
                return self.r.choice(sh)
        fresh = [n for n in cands if n not in vis]
        if fresh:
            return self.r.choice(fresh)
        if cands:
            ok = [n for n in cands if not self.reserved(scope, n)]
            if ok:
                return self.r.choice(ok)
        self.counter += 1
        return "%s%d" % (self.r.choice(pool), self.counter)

    def reserved(self, scope, name):
        """loop counters and the enclosing functions' names must stay visible: do not shadow them"""
        for v in scope.visible():
            if v["name"] == name:
                return v.get("reserved", False)
        return False

    def counter_name(self):
        self.counter += 1
        return "i%d" % self.counter

    # ------------------------------------------------------------ literals
    def lit(self, ty):
        r = self.r
        k = ty[0]
        if k == "int":
            if self.ch(0.06):
                return ["int", r.choice([2147483647, 2147483646, 65536, 46341, 1000000])]
            return ["int", r.range(0, 9)] if self.ch(0.8) else ["int", r.range(10, 200)]
        if k == "long":
            if self.ch(0.1):
                return ["long", r.choice([2147483648, 4294967296, 9223372036854775807])]
            return ["long", r.range(0, 50)]
        if k == "float":
            v = r.range(0, 40) / 4.0
            return ["float", f32_bits(v), "%.2f" % v]
        if k == "double":
            v = r.range(0, 80) / 8.0
            return ["double", f64_bits(v), "%.3f" % v]
        if k == "bool":
            return ["bool", self.ch(0.5)]
        if k == "char":
            return ["char", r.choice([65, 66, 97, 98, 122, 48, 57, 32, 43])]
        if k == "string":
            return ["str", bytes(r.choice([65, 66, 67, 97, 98, 99, 32, 48, 49, 33]) for _ in range(r.range(0, 4)))]
        raise ValueError(ty)

    # ------------------------------------------------------------ expressions
    # every generator returns (expr, ck) with ck in 'T' (temporary) 'C' (const) 'V' (variable)
    def vars_of(self, scope, ty, ck=None):
        out = []
        for v in scope.visible():
            if v["ty"] == ty and (ck is None or v["ck"] in ck) and not v.get("hidden"):
                out.append(v)
        return out

    def funcs_of(self, scope, ret):
        return [v for v in scope.visible() if v["ty"][0] == "func" and v["ty"][2] == ret and not v.get("hidden")]

    def expr(self, ty, scope, d):
        self.budget -= 1
        k = ty[0]
        if d <= 0 or self.budget <= 0:
            return self.leaf(ty, scope)
        if k == "int":
            return self.e_int(scope, d)
        if k == "bool":
            return self.e_bool(scope, d)
        if k == "float":
            return self.e_float(scope, d)
        if k == "long":
            return self.e_long(scope, d)
        if k == "double":
            return self.e_double(scope, d)
        if k == "char":
            return self.e_char(scope, d)
        if k == "string":
            return self.e_string(scope, d)
        if k == "arr":
            return self.e_arr(ty, scope, d)
        if k == "range":
            return self.e_rng(ty, scope, d)
        if k == "slice":
            return self.e_slc(ty, scope, d)
        if k == "named":
            return self.e_named(ty, scope, d)
        if k == "func":
            return self.e_func(ty, scope, d)
        raise ValueError(ty)

    def leaf(self, ty, scope):
        vs = self.vars_of(scope, ty)
        if vs and self.ch(self.k.get("capture", 0.6)):
            v = self.r.choice(vs)
            return ["var", v["name"]], v["ck"]
        k = ty[0]
        if k == "range":
            return ["range", [self.small_lit() for _ in range(2 * ty[1])]], "T"
        if k == "slice":
            if ty == SLC2:
                return ["slice", ["arrlit", [2, 3], INT, [self.lit(INT) for _ in range(6)]],
                        [["int", self.r.range(0, 1)], ["int", self.r.range(0, 1)], ["int", self.r.range(0, 2)], ["int", self.r.range(0, 2)]]], "T"
            n = self.r.range(2, 5)
            return ["slice", ["arrlit", [n], INT, [self.lit(INT) for _ in range(n)]],
                    [["int", self.r.range(0, n - 1)], ["int", self.r.range(0, n - 1)]]], "T"
        if k == "arr":
            if ty == ARR2:
                return ["arrlit", [2, 2], INT, [self.lit(INT) for _ in range(4)]], "T"
            n = self.r.range(1, 4)
            return ["arrlit", [n], ty[2], [self.lit(ty[2]) for _ in range(n)]], "T"
        if k == "named":
            if ty == REC:
                return ["record", "R", [self.lit(INT), self.lit(FLOAT), ["nil"]]], "T"
            if ty == ENUM:
                return ["enumval", "E", self.r.choice(["ea", "eb", "ec"])], "T"
            if ty == OPT:
                return (["enumval", "O", "None"], "T") if self.ch(0.4) else (["enumrec", "O", "Some", [self.lit(INT)]], "T")
        if k == "func":
            fs = [v for v in scope.visible() if v["ty"][0] == "func" and self.sig_eq(v["ty"], ty) and not v.get("hidden")]
            if fs:
                v = self.r.choice(fs)
                return ["var", v["name"]], v["ck"]
            return self.lam(ty, scope, 1), "T"
        return self.lit(ty), "T"

    def sig_eq(self, a, b):
        return [p["ty"] for p in a[1]] == [p["ty"] for p in b[1]] and a[2] == b[2] and \
               [p.get("mut") == "var" for p in a[1]] == [p.get("mut") == "var" for p in b[1]]

    def maybe_print(self, e, ty):
        if not self.ch(self.k["prints"] * 0.5):
            return e
        b = {"int": "print", "float": "printf", "long": "printl", "double": "printd", "char": "printc", "string": "prints"}.get(ty[0])
        if b is None:
            return e
        self.use("builtin:" + b)
        return ["builtin", b, [e]]

    def e_int(self, scope, d):
        r = self.r
        c = r.weighted([("lit", 10), ("var", 14), ("arith", 22), ("divmod", 7), ("print", 10), ("cond", 8), ("call", 14),
                        ("index", int(10 * self.k["arrays"])), ("field", int(8 * self.k["records"])), ("assign", 7),
                        ("block", 8), ("len", int(4 * self.k["strings"])), ("ord", 2), ("conv", 3), ("match", int(6 * self.k["enums"])),
                        ("neg", 3), ("bit", 3), ("loopv", 2), ("tuple", 2),
                        ("rindex", int(8 * self.k["ranges"])), ("sindex", int(8 * self.k["ranges"])), ("fold", int(9 * self.k["ranges"]))])
        if c == "lit":
            return self.lit(INT), "T"
        if c == "fold":
            return self.fold(scope, d - 1), "C"
        if c == "rindex":
            if self.ch(0.2):
                a, _ = self.expr(RNG2, scope, d - 1)
                self.use("range:index2")
                return ["index", ["index", a, [self.pos_expr(scope, d - 1), self.pos_expr(scope, d - 1)]], [["int", r.range(0, 1)]]], "C"
            a, _ = self.expr(RNG, scope, d - 1)
            self.use("range:index")
            return ["index", ["index", a, [self.pos_expr(scope, d - 1)]], [["int", 0]]], "C"
        if c == "sindex":
            if self.ch(0.2):
                a, ck = self.expr(SLC2, scope, d - 1)
                self.use("slice:index2")
                return ["index", a, [self.pos_expr(scope, d - 1), self.pos_expr(scope, d - 1)]], ("V" if ck in ("V", "T") else "C")
            a, ck = self.expr(SLC, scope, d - 1)
            self.use("slice:index")
            return ["index", a, [self.pos_expr(scope, d - 1)]], ("V" if ck in ("V", "T") else "C")
        if c == "var":
            return self.leaf(INT, scope)
        if c == "arith":
            op = r.choice(["add", "sub", "mul", "add", "sub"])
            a, _ = self.expr(INT, scope, d - 1); b, _ = self.expr(INT, scope, d - 1)
            self.use("bin:" + op)
            return ["bin", op, a, b], "T"
        if c == "divmod":
            op = r.choice(["div", "mod"])
            a, _ = self.expr(INT, scope, d - 1)
            self.use("bin:" + op)
            if self.ch(self.k["faults"]):
                # a divisor that may be zero at run time, never a compile-time constant
                vs = self.vars_of(scope, INT)
                if vs:
                    v = r.choice(vs)
                    dv = r.choice([["var", v["name"]], ["bin", "sub", ["var", v["name"]], ["var", v["name"]]],
                                   ["bin", "sub", ["var", v["name"]], self.lit(INT)]])
                    self.use("fault:div")
                    return ["bin", op, a, dv], "T"
            # non-zero and never -1 (INT_MIN / -1 is the C01 defect, excluded here)
            dv = ["int", r.range(1, 9)]
            if self.ch(0.4):
                vs = self.vars_of(scope, INT)
                if vs:
                    v = r.choice(vs)
                    dv = ["bin", "add", ["bin", "mul", ["var", v["name"]], ["var", v["name"]]], ["int", 1]]
                    # x*x+1 wraps only for |x| >= 46341; such values are rare and cannot give -1... but may give 0: accept (it is a fault then)
            return ["bin", op, a, dv], "T"
        if c == "print":
            a, _ = self.expr(INT, scope, d - 1)
            self.use("builtin:print")
            if self.ch(0.1):
                self.use("pipe:builtin")
                return ["builtin", "print", [a], "pipe"], "T"
            return ["builtin", "print", [a]], "T"
        if c == "cond":
            cnd = self.e_cond(scope, d - 1)
            a, _ = self.expr(INT, scope, d - 1); b, _ = self.expr(INT, scope, d - 1)
            style = r.choice(["?:", "if", "if"])
            self.use("cond:" + style)
            if style == "if":
                a, b = self.as_block(a), self.as_block(b)
            return ["cond", cnd, a, b, style], "T"
        if c == "call":
            e = self.call(INT, scope, d)
            if e is not None:
                return e, "C"
            return self.leaf(INT, scope)
        if c == "index":
            if self.ch(0.25):
                a, ck = self.expr(ARR2, scope, d - 1)
                i = self.index_expr(scope, d - 1, 2); j = self.index_expr(scope, d - 1, 2)
                self.use("index2")
                return ["index", a, [i, j]], ("V" if ck == "V" else "C")
            a, ck = self.expr(ARR, scope, d - 1)
            self.use("index")
            return ["index", a, [self.index_expr(scope, d - 1, 3)]], ("V" if ck == "V" else "C")
        if c == "field":
            a, ck = self.expr(REC, scope, d - 1)
            self.use("field")
            if self.ch(0.1 + self.k["faults"] * 0.5):
                self.use("field:next")
                return ["field", ["field", a, "next"], "a"], "C"   # may raise nil_pointer
            return ["field", a, "a"], ("V" if ck == "V" else "C")
        if c == "assign":
            t = self.lvalue(INT, scope, d - 1)
            if t is not None:
                e, ck2 = self.expr(INT, scope, d - 1)
                self.use("assign")
                return ["assign", t, e], ("C" if ck2 == "C" else "T")
            return self.leaf(INT, scope)
        if c == "block":
            return self.block2(INT, scope, d - 1)
        if c == "len":
            s, _ = self.expr(STRING, scope, d - 1)
            self.use("builtin:length")
            return ["builtin", "length", [s]], "T"
        if c == "ord":
            ce, _ = self.expr(CHAR, scope, d - 1)
            self.use("builtin:ord")
            return ["builtin", "ord", [ce]], "T"
        if c == "conv":
            # implicit conversion at a call boundary: a float argument to an int parameter
            return self.leaf(INT, scope)
        if c == "match":
            return self.match_int(scope, d - 1), "T"
        if c == "neg":
            a, _ = self.expr(INT, scope, d - 1)
            self.use("un:neg")
            return ["un", "neg", a], "T"
        if c == "bit":
            op = r.choice(["band", "bor", "bxor"])
            a, _ = self.expr(INT, scope, d - 1); b, _ = self.expr(INT, scope, d - 1)
            self.use("bin:" + op)
            return ["bin", op, a, b], "T"
        if c == "loopv":
            return self.loop(scope, d - 1), "C"
        if c == "tuple":
            a, _ = self.expr(INT, scope, d - 1); f, _ = self.expr(FLOAT, scope, d - 1)
            self.use("tuple")
            if self.ch(0.35) and d > 1:
                # a conditional / match whose branches are tuples of the same type
                a2, _ = self.expr(INT, scope, d - 1); f2, _ = self.expr(FLOAT, scope, d - 1)
                t1, t2 = ["tuple", [a, f], [INT, FLOAT]], ["tuple", [a2, f2], [INT, FLOAT]]
                if self.ch(0.3):
                    e, _ = self.expr(ENUM, scope, min(d - 1, 1))
                    self.use("match:of-tuple")
                    return ["index", ["match", e, [["gitem", "E", "eb", t1], ["gelse", t2]]], [["int", 0]]], "C"
                self.use("cond:of-tuple")
                style = r.choice(["?:", "if"])
                cnd = self.e_cond(scope, min(d - 1, 2))
                if style == "if":
                    t1, t2 = self.as_block(t1), self.as_block(t2)
                return ["index", ["cond", cnd, t1, t2, style], [["int", 0]]], "C"
            return ["index", ["tuple", [a, f], [INT, FLOAT]], [["int", 0]]], "C"
        return self.lit(INT), "T"

    def as_block(self, e):
        return e if e[0] == "seq" else ["seq", [["e", e]]]

    def small_lit(self):
        """a literal bound of a range: small (loops over ranges nest, so lengths stay near those of the arrays and counter
        loops: at most 8, about 3 on average), sometimes negative"""
        r = self.r
        if self.ch(0.85):
            return ["int", r.range(0, 3)]
        v = r.choice([-1, -2, 4, 5])
        return ["int", v] if v >= 0 else ["un", "neg", ["int", -v]]

    def small(self, scope, d, alias_ok=True):
        """an int expression whose value is small (loops over ranges must stay short).  A bare name makes the
        range ALIAS that cell: only constants with a small initialiser and reserved counters (an assignable variable may
        hold anything by the time the range is used; `forin_moving_bound` covers a bound assigned during the loop)"""
        r = self.r
        c = r.weighted([("lit", 55), ("name", 20), ("mask", 15), ("arith", 10)])
        if c == "name":
            vs = [v for v in self.vars_of(scope, INT) if v.get("small") and (v["ck"] == "C" or v.get("reserved"))]
            if vs:
                self.use("range:bound-aliases-cell")
                return ["var", r.choice(vs)["name"]]
        if c == "mask" and d > 0:
            e, _ = self.expr(INT, scope, min(d - 1, 1))
            self.use("range:bound-computed")
            return ["bin", "band", e, ["int", 3]]
        if c == "arith":
            return ["bin", r.choice(["add", "sub"]), self.small_lit(), ["int", r.range(0, 2)]]
        return self.small_lit()

    def pos_expr(self, scope, d):
        """a position inside a range / slice (length unknown statically): mostly the first few, at the bounds, one beyond"""
        if self.ch(self.k["faults"] * 0.5):
            self.use("fault:position")
            e, _ = self.expr(INT, scope, min(d, 1))
            return e
        return ["int", self.r.choice([0, 0, 0, 1, 1, 2, 3, 4])]

    def e_rng(self, ty, scope, d):
        r = self.r
        n = ty[1]
        c = r.weighted([("lit", 40), ("var", 30), ("sub", 14), ("call", 6 if n == 1 else 0), ("cond", 6), ("match", 3)])
        if c in ("cond", "match"):
            e = self.cond_or_match(ty, scope, d)
            if e is not None:
                return e, "C"
            c = "lit"
        if c == "var":
            return self.leaf(ty, scope)
        if c == "sub":
            a, _ = self.expr(ty, scope, d - 1)
            self.use("range:slice-of-range")
            return ["slice", a, [self.sub_pos(scope, d - 1) for _ in range(2 * n)]], "T"
        if c == "call":
            e = self.call(ty, scope, d)
            if e is not None:
                return e, "C"
        self.use("range:literal" if n == 1 else "range:literal2")
        bs = []
        for i in range(2 * n):
            bs.append(self.small(scope, d - 1, alias_ok=(i % 2 == 0)))
        if self.ch(0.1):
            bs[1] = bs[0] if bs[0][0] == "int" else bs[1]      # [a .. a]: one element
        return ["range", bs], "T"

    def cond_or_match(self, ty, scope, d):
        """`c ? x : y`, `if (c) { x } else { y }` or `match e { E::ea -> x; … }` whose branches have the range / slice / tuple
        type ty (typed by the real compiler since repo fixes b996419, b235435)"""
        r = self.r
        if d <= 0:
            return None
        a, _ = self.expr(ty, scope, d - 1); b, _ = self.expr(ty, scope, d - 1)
        if self.ch(0.3):
            e, _ = self.expr(ENUM, scope, min(d - 1, 1))
            self.use("match:of-" + ty[0])
            return ["match", e, [["gitem", "E", "ea", a], ["gelse", b]]]
        style = r.choice(["?:", "if"])
        cnd = self.e_cond(scope, min(d - 1, 2))
        if self.is_const_expr(cnd):
            # a LITERAL condition over range branches hits a defect of the constant reducer (the type of the removed
            # conditional is freed while an enclosing array operation still points at it; probe
            # constred-cond-of-ranges-frees-type-still-used): generated conditions here are not constants
            vs = self.vars_of(scope, INT)
            if not vs:
                return None
            cnd = ["bin", "le", ["var", r.choice(vs)["name"]], self.lit(INT)]
        self.use("cond:of-" + ty[0])
        if style == "if":
            a, b = self.as_block(a), self.as_block(b)
        return ["cond", cnd, a, b, style]

    def sub_pos(self, scope, d):
        """a bound of an inner range `x[c .. d]`: a position of the outer one"""
        if self.ch(self.k["faults"] * 0.4):
            self.use("fault:sub-position")
            return self.small(scope, d)
        return ["int", self.r.choice([0, 0, 1, 1, 2, 3])]

    def e_slc(self, ty, scope, d):
        r = self.r
        n = ty[1]
        c = r.weighted([("arr", 40), ("var", 30), ("sub", 14), ("call", 6 if n == 1 else 0), ("cond", 5), ("match", 2)])
        if c in ("cond", "match"):
            e = self.cond_or_match(ty, scope, d)
            if e is not None:
                return e, "C"
            c = "arr"
        if c == "var":
            return self.leaf(ty, scope)
        # const kind: the elements seen through a slice are assignable iff those of what was sliced are (the real
        # typechecker lets a `var` slice of a `let` array through — a hole this generator does not rely on)
        if c == "sub":
            a, ck = self.expr(ty, scope, d - 1)
            self.use("slice:slice-of-slice")
            return ["slice", a, [self.sub_pos(scope, d - 1) for _ in range(2 * n)]], ("C" if ck == "C" else "T")
        if c == "call":
            e = self.call(ty, scope, d)
            if e is not None:
                return e, "C"
        a, ck = self.expr(ARR if n == 1 else ARR2, scope, d - 1)
        self.use("slice:of-array" if n == 1 else "slice:of-array2")
        return ["slice", a, [self.sub_pos(scope, d - 1) for _ in range(2 * n)]], ("C" if ck == "C" else "T")

    def index_expr(self, scope, d, n):
        """an index for an array of length >= 1 (unknown statically): mostly 0, sometimes anything"""
        if self.ch(self.k["faults"] * 0.6):
            self.use("fault:index")
            e, _ = self.expr(INT, scope, min(d, 1))
            return e
        return ["int", 0] if self.ch(0.7) else ["int", self.r.range(0, n - 1)]

    def e_cond(self, scope, d):
        self.conds += 1
        e, _ = self.expr(BOOL, scope, d)
        if not self.is_const_expr(e):
            self.nonconst_cond += 1
        return e

    def is_const_expr(self, e):
        t = e[0]
        if t in ("int", "long", "float", "double", "char", "str", "bool"):
            return True
        if t in ("un",):
            return self.is_const_expr(e[2])
        if t == "bin":
            return self.is_const_expr(e[2]) and self.is_const_expr(e[3])
        if t in ("and", "or"):
            return self.is_const_expr(e[1]) and self.is_const_expr(e[2])
        return False

    def e_bool(self, scope, d):
        r = self.r
        c = r.weighted([("lit", 5), ("var", 8), ("cmpi", 30), ("cmpf", int(8 * self.k["floats"])), ("and", 10), ("or", 10), ("not", 6),
                        ("cmps", int(6 * self.k["strings"])), ("cmpc", 3), ("nil", int(6 * self.k["records"])), ("cmpe", int(5 * self.k["enums"])), ("cmpb", 5)])
        if c == "lit":
            return self.lit(BOOL), "T"
        if c == "var":
            return self.leaf(BOOL, scope)
        if c == "cmpi":
            op = r.choice(["lt", "gt", "le", "ge", "eq", "ne"])
            a, _ = self.expr(INT, scope, d - 1); b, _ = self.expr(INT, scope, d - 1)
            self.use("cmp:int")
            return ["bin", op, a, b], "T"
        if c == "cmpf":
            op = r.choice(["lt", "gt", "le", "ge"])
            a, _ = self.expr(FLOAT, scope, d - 1); b, _ = self.expr(FLOAT, scope, d - 1)
            self.use("cmp:float")
            return ["bin", op, a, b], "T"
        if c in ("and", "or"):
            a, _ = self.expr(BOOL, scope, d - 1); b, _ = self.expr(BOOL, scope, d - 1)
            self.use(c)
            return [c, a, b], "T"
        if c == "not":
            a, _ = self.expr(BOOL, scope, d - 1)
            self.use("un:not")
            return ["un", "not", a], "T"
        if c == "cmps":
            a, _ = self.expr(STRING, scope, d - 1); b, _ = self.expr(STRING, scope, d - 1)
            self.use("cmp:string")
            return ["bin", r.choice(["eq", "ne"]), a, b], "T"
        if c == "cmpc":
            a, _ = self.expr(CHAR, scope, d - 1); b, _ = self.expr(CHAR, scope, d - 1)
            self.use("cmp:char")
            return ["bin", r.choice(["lt", "eq", "ge", "ne"]), a, b], "T"
        if c == "nil":
            vs = self.vars_of(scope, REC)
            if vs:
                v = r.choice(vs)
                self.use("cmp:nil")
                x = ["var", v["name"]] if self.ch(0.5) else ["field", ["var", v["name"]], "next"]
                return ["bin", r.choice(["eq", "ne"]), x, ["nil"]], "T"
            return self.lit(BOOL), "T"
        if c == "cmpb":
            a, _ = self.expr(BOOL, scope, d - 1); b, _ = self.expr(BOOL, scope, d - 1)
            self.use("cmp:bool")
            return ["bin", r.choice(["eq", "ne"]), a, b], "T"
        if c == "cmpe":
            a, _ = self.expr(ENUM, scope, d - 1); b, _ = self.expr(ENUM, scope, d - 1)
            self.use("cmp:enum")
            return ["bin", r.choice(["eq", "ne"]), a, b], "T"
        return self.lit(BOOL), "T"

    def e_float(self, scope, d):
        r = self.r
        c = r.weighted([("lit", 12), ("var", 12), ("arith", 20), ("print", 8), ("conv", 8), ("cond", 6), ("call", 8), ("sqrt", 4),
                        ("div", 5), ("field", int(5 * self.k["records"])), ("assign", 4), ("idx", 4)])
        if c == "lit":
            return self.lit(FLOAT), "T"
        if c == "var":
            return self.leaf(FLOAT, scope)
        if c == "arith":
            a, _ = self.expr(FLOAT, scope, d - 1); b, _ = self.expr(FLOAT, scope, d - 1)
            self.use("float:arith")
            return ["bin", r.choice(["add", "sub", "mul"]), a, b], "T"
        if c == "print":
            a, _ = self.expr(FLOAT, scope, d - 1)
            self.use("builtin:printf")
            return ["builtin", "printf", [a]], "T"
        if c == "conv":
            a, _ = self.expr(INT, scope, d - 1); b, _ = self.expr(FLOAT, scope, d - 1)
            self.use("conv:int->float")
            return (["bin", "add", a, b], "T") if self.ch(0.5) else (["bin", "mul", b, a], "T")
        if c == "cond":
            cnd = self.e_cond(scope, d - 1)
            a, _ = self.expr(FLOAT, scope, d - 1); b, _ = self.expr(FLOAT, scope, d - 1)
            return ["cond", cnd, a, b, "?:"], "T"
        if c == "call":
            e = self.call(FLOAT, scope, d)
            if e is not None:
                return e, "C"
            return self.leaf(FLOAT, scope)
        if c == "sqrt":
            a, _ = self.expr(FLOAT, scope, d - 1)
            self.use("builtin:sqrt")
            if self.ch(self.k["faults"]):
                self.use("fault:sqrt")
                if self.ch(0.5) and not self.is_const_expr(a):
                    return ["builtin", "sqrt", [["bin", "sub", ["bin", "sub", ["float", 0, "0.00"], ["bin", "mul", a, a]], ["float", f32_bits(1.0), "1.00"]]]], "T"
                return ["builtin", "sqrt", [["bin", "sub", a, self.lit(FLOAT)]]], "T"
            return ["builtin", "sqrt", [["bin", "mul", a, a]]], "T"
        if c == "div":
            a, _ = self.expr(FLOAT, scope, d - 1)
            self.use("float:div")
            if self.ch(self.k["faults"]):
                b, _ = self.expr(FLOAT, scope, d - 1)
                if not self.is_const_expr(b):
                    self.use("fault:fdiv")
                    return ["bin", "div", a, ["bin", "sub", b, b]] if self.ch(0.5) else ["bin", "div", a, b], "T"
            v = r.choice([1.0, 2.0, 4.0, 0.5, 8.0])
            return ["bin", "div", a, ["float", f32_bits(v), "%.2f" % v]], "T"
        if c == "field":
            a, ck = self.expr(REC, scope, d - 1)
            return ["field", a, "b"], ("V" if ck == "V" else "C")
        if c == "assign":
            t = self.lvalue(FLOAT, scope, d - 1)
            if t is not None:
                if self.ch(0.3):
                    e, ck2 = self.expr(INT, scope, d - 1)      # converted to the left type
                    self.use("conv:assign")
                else:
                    e, ck2 = self.expr(FLOAT, scope, d - 1)
                return ["assign", t, e], ("C" if ck2 == "C" else "T")
            return self.leaf(FLOAT, scope)
        if c == "idx":
            a, ck = self.expr(FARR, scope, d - 1)
            return ["index", a, [["int", 0]]], ("V" if ck == "V" else "C")
        return self.lit(FLOAT), "T"

    def e_long(self, scope, d):
        r = self.r
        c = r.weighted([("lit", 10), ("var", 8), ("arith", 14), ("print", 6), ("conv", 8)])
        if c == "var":
            return self.leaf(LONG, scope)
        if c == "arith":
            a, _ = self.expr(LONG, scope, d - 1); b, _ = self.expr(LONG, scope, d - 1)
            self.use("long:arith")
            op = r.choice(["add", "sub", "mul"])
            return ["bin", op, a, b], "T"
        if c == "print":
            a, _ = self.expr(LONG, scope, d - 1)
            self.use("builtin:printl")
            return ["builtin", "printl", [a]], "T"
        if c == "conv":
            a, _ = self.expr(INT, scope, d - 1); b, _ = self.expr(LONG, scope, d - 1)
            self.use("conv:int->long")
            return ["bin", r.choice(["add", "sub"]), a, b], "T"
        return self.lit(LONG), "T"

    def e_double(self, scope, d):
        r = self.r
        c = r.weighted([("lit", 10), ("var", 8), ("arith", 12), ("print", 6), ("conv", 6)])
        if c == "var":
            return self.leaf(DOUBLE, scope)
        if c == "arith":
            a, _ = self.expr(DOUBLE, scope, d - 1); b, _ = self.expr(DOUBLE, scope, d - 1)
            self.use("double:arith")
            return ["bin", r.choice(["add", "sub", "mul"]), a, b], "T"
        if c == "print":
            a, _ = self.expr(DOUBLE, scope, d - 1)
            self.use("builtin:printd")
            return ["builtin", "printd", [a]], "T"
        if c == "conv":
            a, _ = self.expr(FLOAT, scope, d - 1); b, _ = self.expr(DOUBLE, scope, d - 1)
            self.use("conv:float->double")
            return ["bin", "mul", a, b], "T"
        return self.lit(DOUBLE), "T"

    def e_char(self, scope, d):
        r = self.r
        c = r.weighted([("lit", 10), ("var", 6), ("sidx", 8), ("chr", 5), ("print", 4)])
        if c == "var":
            return self.leaf(CHAR, scope)
        if c == "sidx":
            s = ["str", bytes(r.choice([65, 66, 67, 100, 101]) for _ in range(r.range(1, 4)))]
            if self.ch(0.5):
                vs = self.vars_of(scope, STRING)
                if vs and self.ch(self.k["faults"]):
                    self.use("fault:sindex")
                    return ["index", ["var", r.choice(vs)["name"]], [["int", r.range(0, 3)]]], "C"
            self.use("string:index")
            return ["index", s, [["int", r.range(0, len(s[1]) - 1)]]], "C"
        if c == "chr":
            a, _ = self.expr(INT, scope, min(d - 1, 1))
            self.use("builtin:chr")
            return ["builtin", "chr", [["bin", "add", ["int", 65], ["bin", "band", a, ["int", 15]]]]], "T"
        if c == "print":
            a, _ = self.expr(CHAR, scope, d - 1)
            self.use("builtin:printc")
            return ["builtin", "printc", [a]], "T"
        return self.lit(CHAR), "T"

    def e_string(self, scope, d):
        r = self.r
        c = r.weighted([("lit", 12), ("var", 10), ("cat", 12), ("cati", 6), ("catf", 3), ("catc", 3), ("str", 4), ("print", 5), ("cond", 3), ("strf", 2),
                        ("slice", int(10 * self.k["ranges"]))])
        if c == "var":
            return self.leaf(STRING, scope)
        if c == "slice":
            a, _ = self.expr(STRING, scope, d - 1)
            self.use("string:slice")
            if self.ch(0.6):
                a = ["bin", "add", ["str", bytes(r.choice([65, 66, 67, 100, 101, 48]) for _ in range(4))], a]   # at least 4 characters
            elif not self.ch(self.k["faults"]):
                a = ["bin", "add", ["str", b"xy"], a]
            lo, hi = self.sub_pos(scope, d - 1), self.sub_pos(scope, d - 1)
            return ["slice", a, [lo, hi]], "T"
        if c == "cat":
            a, _ = self.expr(STRING, scope, d - 1); b, _ = self.expr(STRING, scope, d - 1)
            self.use("string:concat")
            return ["bin", "add", a, b], "T"
        if c in ("cati", "catf", "catc"):
            t = {"cati": INT, "catf": FLOAT, "catc": CHAR}[c]
            a, _ = self.expr(STRING, scope, d - 1); b, _ = self.expr(t, scope, d - 1)
            self.use("string:concat-" + t[0])
            return (["bin", "add", a, b], "T") if self.ch(0.5) else (["bin", "add", b, a], "T")
        if c == "str":
            a, _ = self.expr(INT, scope, d - 1)
            self.use("builtin:str")
            return ["builtin", "str", [a]], "T"
        if c == "strf":
            a, _ = self.expr(FLOAT, scope, d - 1)
            self.use("builtin:strf")
            return ["builtin", "strf", [a]], "T"
        if c == "print":
            a, _ = self.expr(STRING, scope, d - 1)
            self.use("builtin:prints")
            return ["builtin", "prints", [a]], "T"
        if c == "cond":
            cnd = self.e_cond(scope, d - 1)
            a, _ = self.expr(STRING, scope, d - 1); b, _ = self.expr(STRING, scope, d - 1)
            return ["cond", cnd, a, b, "?:"], "T"
        return self.lit(STRING), "T"

    def e_arr(self, ty, scope, d):
        r = self.r
        if ty == ARR2:
            c = r.weighted([("lit", 10), ("var", 10), ("new", 6), ("arith", 6)])
            if c == "var":
                return self.leaf(ty, scope)
            if c == "arith" and d > 0:
                # matrix product (2-dimensional, columns = rows, else wrong_array_size), sum, scalar multiple, negation
                k = r.choice(["matmul", "matmul", "add", "scale", "neg"])
                self.use("arrarith2:" + k)
                # (the elements of the result are assignable only if those of the operands are)
                a, ca = self.expr(ARR2, scope, d - 1)
                if k == "neg":
                    return ["un", "neg", a], ("C" if ca == "C" else "T")
                if k == "scale":
                    return ["bin", "mul", self.expr(INT, scope, min(d - 1, 1))[0], a], ("C" if ca == "C" else "T")
                b, cb = self.expr(ARR2, scope, d - 1)
                return ["bin", "mul" if k == "matmul" else r.choice(["add", "sub"]), a, b], ("C" if "C" in (ca, cb) else "T")
            if c == "new":
                self.use("arrnew2")
                return ["arrnew", INT, [["int", r.range(1, 3)], ["int", r.range(2, 3)]]], "T"
            self.use("arrlit2")
            n, m = r.range(1, 2), r.range(2, 3)
            return ["arrlit", [n, m], INT, [self.expr(INT, scope, d - 1)[0] for _ in range(n * m)]], "T"
        el = ty[2]
        c = r.weighted([("lit", 14), ("var", 12), ("new", 5), ("comp", 6 if el == INT else 0), ("call", 4 if el == INT else 0),
                        ("rderef", int(5 * self.k["ranges"]) if el == INT else 0), ("arith", 7)])
        if c == "var":
            return self.leaf(ty, scope)
        if c == "arith" and d > 0:
            # element-wise: a + b, a - b (extents must agree, else wrong_array_size), k * a (scalar on the left), -a
            k = r.choice(["add", "sub", "scale", "neg"])
            self.use("arrarith:" + k)
            a, ca = self.expr(ty, scope, d - 1)
            if k == "neg":
                return ["un", "neg", a], ("C" if ca == "C" else "T")
            if k == "scale":
                return ["bin", "mul", self.expr(el, scope, min(d - 1, 1))[0], a], ("C" if ca == "C" else "T")
            b, cb = self.expr(ty, scope, d - 1)
            return ["bin", k, a, b], ("C" if "C" in (ca, cb) else "T")
        if c == "rderef":
            if self.ch(0.3):
                a, _ = self.expr(RNG2, scope, d - 1)
                self.use("range:deref2")
                return ["index", a, [self.pos_expr(scope, d - 1), self.pos_expr(scope, d - 1)]], "C"
            a, _ = self.expr(RNG, scope, d - 1)
            self.use("range:deref")
            return ["index", a, [self.pos_expr(scope, d - 1)]], "C"
        if c == "new":
            self.use("arrnew")
            if self.ch(self.k["faults"] * 0.5):
                e, _ = self.expr(INT, scope, min(d - 1, 1))
                self.use("fault:arrnew")
                # extent in -1..2: non-positive extents raise index_out_of_bounds; never huge
                return ["arrnew", el, [["bin", "sub", ["bin", "band", e, ["int", 3]], ["int", 1]]]], "T"
            return ["arrnew", el, [["int", r.range(1, 4)]]], "T"
        if c == "comp":
            return self.listcomp(scope, d - 1), "T"
        if c == "call":
            e = self.call(ty, scope, d)
            if e is not None:
                return e, "C"
        self.use("arrlit")
        n = r.range(1, 4)
        elems = []
        for _ in range(n):
            if el == FLOAT and self.ch(0.3):
                self.use("conv:elem")
                elems.append(self.expr(INT, scope, d - 1)[0])
            else:
                elems.append(self.expr(el, scope, d - 1)[0])
        return ["arrlit", [n], el, elems], "T"

    def listcomp(self, scope, d):
        self.use("listcomp")
        coll, _ = self.expr(self.coll_type("listcomp"), scope, d)
        inner = Scope(scope)
        used = set(); names_used(coll, used)      # the qualifier's name must not be used by a function inside its collection (freevar defect)
        x = self.pick_name(inner, avoid=used)
        inner.add(x, INT, "C")
        quals = [["gen", x, coll]]
        if self.ch(0.5):
            f, _ = self.expr(BOOL, inner, min(d, 2))
            quals.append(["filter", f])
            self.use("listcomp:filter")
            names_used(f, used)
        if self.ch(0.25):
            coll2, _ = self.expr(self.coll_type("listcomp2"), inner, min(d, 1))
            names_used(coll2, used)
            if x in used:
                return ["listcomp", INT, self.expr(INT, inner, min(d, 2))[0], quals]
            y = self.pick_name(inner, avoid=used)
            inner.add(y, INT, "C")
            quals.append(["gen", y, coll2])
            self.use("listcomp:2gen")
        body, _ = self.expr(INT, inner, min(d, 2))
        return ["listcomp", INT, body, quals]

    def coll_type(self, what):
        t = self.r.weighted([(ARR, 60), (RNG, int(35 * self.k["ranges"])), (SLC, int(25 * self.k["ranges"]))])
        if t != ARR:
            self.use("%s:over-%s" % (what, t[0]))
        return t

    def e_named(self, ty, scope, d):
        r = self.r
        if ty == REC:
            c = r.weighted([("new", 14), ("var", 12), ("call", 4)])
            if c == "var":
                return self.leaf(ty, scope)
            if c == "call":
                e = self.call(ty, scope, d)
                if e is not None:
                    return e, "C"
            self.use("record")
            a, _ = self.expr(INT, scope, d - 1); b, _ = self.expr(FLOAT, scope, d - 1)
            nx = ["nil"]
            if self.ch(0.4):
                nx, _ = self.expr(REC, scope, d - 1)
            return ["record", "R", [a, b, nx]], "T"
        if ty == ENUM:
            if self.ch(0.5):
                return self.leaf(ty, scope)
            self.use("enumval")
            return ["enumval", "E", r.choice(["ea", "eb", "ec"])], "T"
        if ty == OPT:
            if self.ch(0.4):
                return self.leaf(ty, scope)
            if self.ch(0.35):
                return ["enumval", "O", "None"], "T"
            self.use("enumrec")
            a, _ = self.expr(INT, scope, d - 1)
            return ["enumrec", "O", "Some", [a]], "T"
        raise ValueError(ty)

    def match_int(self, scope, d):
        r = self.r
        if self.ch(0.5):
            e, _ = self.expr(ENUM, scope, d)
            self.use("match:item")
            gs = []
            for it in ["ea", "eb"]:
                gs.append(["gitem", "E", it, self.expr(INT, scope, d)[0]])
            if self.ch(0.5):
                gs.append(["gitem", "E", "ec", self.expr(INT, scope, d)[0]])
            else:
                gs.append(["gelse", self.expr(INT, scope, d)[0]])
            return ["match", e, gs]
        e, _ = self.expr(OPT, scope, d)
        inner = Scope(scope)
        used = set(); names_used(e, used)
        v = self.pick_name(inner, avoid=used)
        inner.add(v, INT, "C")
        some, _ = self.expr(INT, inner, d)
        none, _ = self.expr(INT, scope, d)
        if self.ch(0.5):
            self.use("iflet")
            return ["iflet", ["grec", "O", "Some", [v], self.as_block(some)], e, self.as_block(none)]
        self.use("match:record")
        gs = [["gitem", "O", "None", none], ["grec", "O", "Some", [v], some]]
        if self.ch(0.5):
            gs.reverse()
        return ["match", e, gs]

    def lvalue(self, ty, scope, d):
        """an assignable expression of type ty (const kind 'var'), or None"""
        r = self.r
        cands = [["var", v["name"]] for v in self.vars_of(scope, ty, "V") if not v.get("reserved")]
        if ty == INT:
            for v in self.vars_of(scope, ARR, "V"):
                cands.append(["index", ["var", v["name"]], [["int", 0]]])
            for v in self.vars_of(scope, REC, "V"):
                cands.append(["field", ["var", v["name"]], "a"])
            for v in self.vars_of(scope, SLC, "V"):
                if not v.get("param"):
                    cands.append(["index", ["var", v["name"]], [["int", r.choice([0, 0, 1])]]])
            if self.ch(0.15):
                for v in self.vars_of(scope, ARR, "V"):
                    # a temporary slice of an assignable array: the assignment writes the array's element cell
                    cands.append(["index", ["slice", ["var", v["name"]], [["int", 0], ["int", r.range(0, 2)]]], [["int", 0]]])
        if ty == FLOAT:
            for v in self.vars_of(scope, REC, "V"):
                cands.append(["field", ["var", v["name"]], "b"])
        if not cands:
            return None
        return r.choice(cands)

    def block(self, ty, scope, d):
        return self.block2(ty, scope, d)[0]

    def block2(self, ty, scope, d):
        """{ items ; expr } — a new block scope; const kind = that of the last expression"""
        self.use("block")
        inner = Scope(scope)
        items = self.items(inner, d, self.r.range(1, 3))
        e, ck = self.expr(ty, inner, d)
        return ["seq", items + [["e", e]]], ("C" if ck == "C" else "T")

    def items(self, scope, d, n):
        out = []
        for _ in range(n):
            out.extend(self.item(scope, d))
        return out

    def item(self, scope, d):
        r = self.r
        c = r.weighted([("let", 22), ("var", 22), ("assign", 12), ("print", 10), ("loop", int(14 * self.k["loops"])),
                        ("func", int(16 * self.k["closures"])), ("ifs", 8), ("forin", int(8 * self.k["arrays"])), ("expr", 5)])
        if self.budget <= 0 and c in ("loop", "func", "forin"):
            c = "print"
        if c in ("let", "var"):
            ty = self.pick_type()
            e, ck = self.expr(ty, scope, d)
            kind = c
            if kind == "var" and (ck == "C" or ty[0] == "func"):
                kind = "let"
            name = self.pick_name(scope)
            # `var y = i` binds y to the very cell of i: an alias of a loop counter must stay as untouchable as the counter
            alias_of_reserved = self.may_be_reserved_cell(scope, e)
            scope.add(name, ty, "V" if kind == "var" else "C", small=(ty == INT and kind == "let" and self.is_small(e)),
                      reserved=alias_of_reserved)
            self.use("bind:" + kind)
            return [["let" if kind == "let" else "varb", name, e]]
        if c == "assign":
            ty = r.choice([INT, INT, FLOAT, STRING, ARR, REC, BOOL, RNG, SLC])
            t = self.lvalue(ty, scope, d)
            if t is None:
                return []
            e, _ = self.expr(ty, scope, d)
            self.use("assign")
            return [["e", ["assign", t, e]]]
        if c == "print":
            ty = r.choice([INT, INT, FLOAT, STRING, CHAR, LONG, DOUBLE])
            e, _ = self.expr(ty, scope, d)
            b = {"int": "print", "float": "printf", "long": "printl", "double": "printd", "char": "printc", "string": "prints"}[ty[0]]
            self.use("builtin:" + b)
            return [["e", ["builtin", b, [e]]]]
        if c == "loop":
            return [["e", self.loop(scope, d)]]
        if c == "func":
            return self.local_funcs(scope, d)
        if c == "ifs":
            cnd = self.e_cond(scope, d)
            a = self.block(INT, scope, d - 1)
            if self.ch(0.5):
                self.use("cond:ifnoelse")
                return [["e", ["cond", cnd, a, ["int", 0], "ifnoelse"]]]
            b = self.block(INT, scope, d - 1)
            self.use("cond:if")
            return [["e", ["cond", cnd, a, b, "if"]]]
        if c == "forin":
            return [["e", self.forin(scope, d)]]
        e, _ = self.expr(self.pick_type(), scope, d)
        return [["e", e]]

    def may_be_reserved_cell(self, scope, e):
        """can the value of e be the very CELL of a reserved name (a loop counter)?  A name, and the constructs that pass on
        the cell of a sub-expression: a conditional, a block, a match / if-let"""
        t = e[0]
        if t == "var":
            return self.reserved(scope, e[1])
        if t == "cond":
            return self.may_be_reserved_cell(scope, e[2]) or self.may_be_reserved_cell(scope, e[3])
        if t == "seq":
            last = e[1][-1]
            return last[0] == "e" and self.may_be_reserved_cell(scope, last[1])
        if t == "match":
            return any(self.may_be_reserved_cell(scope, g[-1]) for g in e[2])
        if t == "iflet":
            return self.may_be_reserved_cell(scope, e[1][-1]) or (e[3] is not None and self.may_be_reserved_cell(scope, e[3]))
        return False

    def is_small(self, e):
        """syntactically small int (a literal below 10 or masked): its name may be used directly as a range bound.
        Only `let` bindings keep the value; a `var` may be assigned anything later, so only the `from` bound may alias it."""
        if e[0] == "int":
            return -4 < e[1] < 6
        if e[0] == "un" and e[1] == "neg" and e[2][0] == "int":
            return e[2][1] < 4
        if e[0] == "bin" and e[1] == "band" and e[3][0] == "int":
            return 0 <= e[3][1] < 6
        return False

    def observe(self, scope):
        """print some of the variables of this block: makes wrong cells/values visible"""
        out = []
        if not self.ch(0.6):
            return out
        own = [v for v in scope.vars if not v.get("hidden")]
        for v in own[-4:]:
            x = ["var", v["name"]]
            t = v["ty"]
            if t == INT or t == BOOL and False:
                out.append(["e", ["builtin", "print", [x]]])
            elif t == FLOAT:
                out.append(["e", ["builtin", "printf", [x]]])
            elif t == STRING:
                out.append(["e", ["builtin", "prints", [x]]])
            elif t == LONG:
                out.append(["e", ["builtin", "printl", [x]]])
            elif t == DOUBLE:
                out.append(["e", ["builtin", "printd", [x]]])
            elif t == CHAR:
                out.append(["e", ["builtin", "printc", [x]]])
            elif t == ARR:
                out.append(["e", ["forin", "o_" + v["name"], x, ["seq", [["e", ["builtin", "print", [["var", "o_" + v["name"]]]]]]]]])
            elif t == RNG or t == SLC:
                out.append(["e", ["forin", "o_" + v["name"], x, ["seq", [["e", ["builtin", "print", [["var", "o_" + v["name"]]]]]]]]])
            elif t == REC:
                out.append(["e", ["cond", ["bin", "ne", x, ["nil"]], ["seq", [["e", ["builtin", "print", [["field", x, "a"]]]]]], ["int", 0], "ifnoelse"]])
            elif t == F_I:
                out.append(["e", ["builtin", "print", [["call", x, []]]]])
        if out:
            self.use("observe")
        return out

    def pick_type(self):
        k = self.k
        return self.r.weighted([(INT, 30), (BOOL, 8), (FLOAT, int(14 * k["floats"])), (STRING, int(12 * k["strings"])),
                                (ARR, int(14 * k["arrays"])), (REC, int(12 * k["records"])), (CHAR, 3), (LONG, 4), (DOUBLE, 3),
                                (F_II, int(8 * k["closures"])), (F_I, int(5 * k["closures"])), (ENUM, int(5 * k["enums"])),
                                (OPT, int(5 * k["enums"])), (ARR2, int(4 * k["arrays"])), (FARR, int(3 * k["arrays"] * k["floats"])),
                                (RNG, int(12 * k["ranges"])), (SLC, int(10 * k["ranges"])), (RNG2, int(3 * k["ranges"])), (SLC2, int(2 * k["ranges"]))])

    def loop(self, scope, d):
        """a loop on a reserved counter; evaluates to int 0"""
        r = self.r
        kind = r.choice(["while", "for", "dowhile"])
        self.use("loop:" + kind)
        n = r.range(1, 3)
        i = self.counter_name()
        outer = Scope(scope)
        outer.add(i, INT, "V", reserved=True, hidden=False)
        body_scope = Scope(outer)
        body_items = self.items(body_scope, d - 1, r.range(1, 2))
        inc = ["assign", ["var", i], ["bin", "add", ["var", i], ["int", 1]]]
        cnd = ["bin", "lt", ["var", i], ["int", n]]
        self.conds += 1; self.nonconst_cond += 1
        if kind == "while":
            body = ["seq", body_items + [["e", inc]]]
            return ["seq", [["varb", i, ["int", 0]], ["e", ["while", cnd, body]]]]
        if kind == "dowhile":
            body = ["seq", body_items + [["e", inc]]]
            return ["seq", [["varb", i, ["int", 0]], ["e", ["dowhile", body, cnd]]]]
        if not body_items:
            body_items = [["e", ["int", 0]]]
        if body_items[-1][0] != "e":
            body_items.append(["e", ["int", 0]])
        return ["seq", [["varb", i, ["int", 0]], ["e", ["for", ["assign", ["var", i], ["int", 0]], cnd, inc, ["seq", body_items]]]]]

    def forin(self, scope, d):
        self.use("forin")
        if self.ch(0.12 * self.k["ranges"]):
            return self.forin_moving_bound(scope, d)
        cty = self.coll_type("forin")
        coll, ck = self.expr(cty, scope, d - 1)
        inner = Scope(scope)
        used = set(); names_used(coll, used)
        x = self.pick_name(inner, avoid=used)
        inner.add(x, INT, "V" if (ck == "V" and cty != RNG) else "C", small=(cty == RNG))
        body_scope = Scope(inner)
        first = [["e", ["builtin", "print", [["var", x]]]]] if (cty != ARR and self.ch(0.6)) else []
        items = self.items(body_scope, d - 1, self.r.range(1, 2))
        e, _ = self.expr(INT, body_scope, min(d - 1, 2))
        return ["forin", x, coll, ["seq", first + items + [["e", e]]]]

    def fold(self, scope, d):
        """`{ var acc = 0; for (x in coll) { acc = acc * 3 + x }; acc }`: every element of a range / slice (mostly a composed
        one) enters the result, in order"""
        r = self.r
        cty = RNG if self.ch(0.55) else SLC
        self.use("fold:over-" + cty[0])
        if self.ch(0.7):
            base, _ = self.expr(cty, scope, d)
            coll = ["slice", base, [self.sub_pos(scope, d), self.sub_pos(scope, d)]]
            self.use("fold:composed")
        else:
            coll, _ = self.expr(cty, scope, d)
        acc = self.counter_name()
        outer = Scope(scope)
        outer.add(acc, INT, "V", reserved=True)
        inner = Scope(outer)
        used = set(); names_used(coll, used)
        x = self.pick_name(inner, avoid=used | {acc})
        inner.add(x, INT, "C", small=(cty == RNG))
        if self.ch(0.35):
            # through a comprehension generator (its own loop code in the emitter)
            self.use("fold:through-comprehension")
            y = self.pick_name(inner, avoid=used | {acc, x})
            coll = ["listcomp", INT, ["var", y], [["gen", y, coll]]]
        step = ["assign", ["var", acc], ["bin", "add", ["bin", "mul", ["var", acc], ["int", 3]], ["var", x]]]
        return ["seq", [["varb", acc, ["int", 0]], ["e", ["forin", x, coll, ["seq", [["e", step]]]]], ["e", ["var", acc]]]]

    def forin_moving_bound(self, scope, d):
        """`{ var k = n; for (x in [a .. k]) { k = k - 1; … } }`: the range holds the CELL of k, `to` is re-read before
        every iteration (k only moves towards `from`, so the loop ends)"""
        r = self.r
        self.use("forin:to-bound-assigned-in-body")
        k = self.counter_name()
        outer = Scope(scope)
        n = r.range(2, 4)
        up = self.ch(0.5)
        outer.add(k, INT, "V", reserved=True, small=True)
        inner = Scope(outer)
        x = self.pick_name(inner, avoid={k})
        inner.add(x, INT, "C", small=True)
        body_scope = Scope(inner)
        items = self.items(body_scope, d - 1, r.range(0, 1))
        move = ["assign", ["var", k], ["bin", "sub" if up else "add", ["var", k], ["int", 1]]]
        e, _ = self.expr(INT, body_scope, min(d - 1, 2))
        frm = ["int", r.range(0, 1)] if up else ["int", n + r.range(0, 1)]
        body = ["seq", [["e", move], ["e", ["builtin", "print", [["var", x]]]]] + items + [["e", e]]]
        return ["seq", [["varb", k, ["int", n if up else 0]], ["e", ["forin", x, ["range", [frm, ["var", k]]], body]], ["e", ["var", k]]]]

    # ------------------------------------------------------------ functions
    def call(self, ret, scope, d):
        """a call of something of return type `ret` visible here, or None"""
        fs = self.funcs_of(scope, ret)
        # controlled self recursion only through rec_call()
        fs = [f for f in fs if not f.get("norecurse")]
        if not fs:
            return None
        f = self.r.choice(fs)
        args = self.args_for(f["ty"], scope, d - 1)
        if args is None:
            return None
        self.use("call")
        if f.get("closure"):
            self.use("call:closure-var")
        ps = f["ty"][1]
        if not f.get("decl") and args and ps[0]["ty"] == INT and ps[0].get("mut") != "var":
            # a function VALUE (parameter, `let v = h3`) may be a recursive function: like the direct calls that
            # clamp_first_args() bounds after generation, it gets a small first argument
            args[0] = ["bin", "band", args[0], ["int", 3]]
        if args and ps[0].get("mut") != "var" and self.ch(0.18):
            # `x |> f(rest)` = `f(x, rest)`; a tuple on the left is unpacked into the leading parameters
            simple = lambda t: t in (INT, FLOAT, BOOL, STRING, CHAR, LONG, DOUBLE)
            if len(args) >= 2 and ps[1].get("mut") != "var" and simple(ps[0]["ty"]) and simple(ps[1]["ty"]) and self.ch(0.7):
                self.use("pipe:tuple")
                return ["pipe", ["tuple", [args[0], args[1]], [ps[0]["ty"], ps[1]["ty"]]], ["var", f["name"]], args[2:]]
            self.use("pipe")
            return ["pipe", args[0], ["var", f["name"]], args[1:]]
        return ["call", ["var", f["name"]], args]

    def args_for(self, fty, scope, d):
        args = []
        for p in fty[1]:
            if p.get("mut") == "var":
                t = self.lvalue(p["ty"], scope, d)
                if t is None:
                    e, ck = self.expr(p["ty"], scope, d)
                    if ck != "T":
                        return None
                    t = e
                self.use("call:var-param")
                args.append(t)
            elif p["ty"] in (ARR, RNG, SLC) and self.ch(self.k["faults"] * 0.3):
                # an unassigned (nil) element of an array of arrays / ranges / slices: the call itself is fine, `nil_pointer`
                # is raised where the callee uses the value or one of its extent / bound names
                self.use("fault:nil-collection-arg")
                args.append(["index", ["arrnew", p["ty"], [["int", 2]]], [["int", self.r.range(0, 1)]]])
            elif p["ty"] == FLOAT and self.ch(0.15):
                self.use("conv:arg")
                args.append(self.expr(INT, scope, d)[0])
            else:
                args.append(self.expr(p["ty"], scope, d)[0])
        return args

    def lam(self, fty, scope, d):
        """`let func (…) -> T { … }` of the given signature"""
        self.use("lambda")
        f = self.func_decl("", fty, scope, d, allow_rec=False)
        return ["lam", f]

    def e_func(self, ty, scope, d):
        if self.ch(0.5):
            return self.leaf(ty, scope)
        return self.lam(ty, scope, d - 1), "T"

    def local_funcs(self, scope, d):
        """a group of 1-2 nested functions (closures over the enclosing scope)"""
        r = self.r
        n = 2 if self.ch(0.25) else 1
        self.use("nested-func")
        sigs, names = [], []
        for _ in range(n):
            sig = self.pick_sig()
            self.counter += 1
            name = "%s%d" % (r.choice(FNAMES), self.counter)
            names.append(name); sigs.append(sig)
        # all names of the group are visible in all bodies (mutual visibility); to keep
        # termination, body i may call only group members j < i (and itself, guarded)
        entries = []
        for name, sig in zip(names, sigs):
            entries.append(scope.add(name, sig, "C", hidden=True, decl=True))
        fs = []
        for i, (name, sig) in enumerate(zip(names, sigs)):
            f = self.func_decl(name, sig, scope, d - 1, allow_rec=True, self_entry=entries[i])
            entries[i]["hidden"] = False
            fs.append(f)
        if n == 2:
            self.use("nested-func:group")
        return [["funcs", fs]]

    def pick_sig(self):
        r = self.r
        ret = r.weighted([(INT, 50), (FLOAT, int(10 * self.k["floats"])), (ARR, int(6 * self.k["arrays"])), (REC, int(6 * self.k["records"])),
                          (F_II, int(10 * self.k["closures"])), (F_I, int(6 * self.k["closures"])), (BOOL, 4), (STRING, int(5 * self.k["strings"])),
                          (RNG, int(5 * self.k["ranges"])), (SLC, int(4 * self.k["ranges"]))])
        ps = []
        for _ in range(r.weighted([(0, 15), (1, 40), (2, 30), (3, 10)])):
            ty = r.weighted([(INT, 50), (FLOAT, int(12 * self.k["floats"])), (ARR, int(10 * self.k["arrays"])), (REC, int(8 * self.k["records"])),
                             (F_II, int(10 * self.k["closures"])), (STRING, int(6 * self.k["strings"])), (BOOL, 4), (OPT, int(4 * self.k["enums"])),
                             (RNG, int(9 * self.k["ranges"])), (SLC, int(8 * self.k["ranges"])), (RNG2, int(2 * self.k["ranges"]))])
            mut = "var" if (ty in (INT, FLOAT, ARR, REC) and self.ch(0.2)) else None
            ps.append(P("p", ty, mut))
        return ("func", ps, ret)

    def func_decl(self, name, fty, scope, d, allow_rec, self_entry=None, is_main=False):
        r = self.r
        fid = self.fresh_id()
        fscope = Scope(scope, func_boundary=True)
        if name:
            fscope.add(name, fty, "C", hidden=True, reserved=True, decl=True)   # the function's own entry in its own table
        params = []
        rec = allow_rec and name and fty[1] and fty[1][0]["ty"] == INT and fty[1][0].get("mut") != "var" and self.ch(self.k["recursion"]) \
            and fty[2] in (INT, FLOAT)
        for i, p in enumerate(fty[1]):
            pn = self.pick_name(fscope)
            dims = []
            if p["ty"][0] == "arr" and self.ch(0.6):
                for _ in range(p["ty"][1]):
                    dn = self.pick_name(fscope, ["n", "len", "sz", "d1", "d2", "cnt"])
                    fscope.add(dn, INT, "C")
                    dims.append(dn)
                self.use("param:dims")
            if p["ty"][0] in ("range", "slice") and self.ch(0.7):
                for j in range(2 * p["ty"][1]):
                    dn = self.pick_name(fscope, ["from", "to", "lo", "hi", "f1", "t1", "f2", "t2"])
                    # slice bound names are 0 and the length - 1 of a short array; range bound names alias the caller's cells
                    fscope.add(dn, INT, "C", small=(p["ty"][0] == "slice"))
                    dims.append(dn)
                self.use("param:bounds-" + p["ty"][0])
            ck = "V" if p.get("mut") == "var" else "C"
            fscope.add(pn, p["ty"], ck, reserved=(rec and i == 0), closure=(p["ty"][0] == "func"), param=True)
            params.append(dict(name=pn, ty=p["ty"], dims=dims, mut=p.get("mut")))
        catches = []
        if self.ch(self.k["catches"] * 0.5) and not is_main or (is_main and self.ch(self.k["catches"] * 0.3)):
            cs = Scope(fscope)   # parameters only
            kinds = ["division_by_zero", "index_out_of_bounds", "nil_pointer", "invalid_domain", "wrong_array_size"]
            nk = r.range(0, 2)
            chosen = []
            for _ in range(nk):
                kx = r.choice(kinds)
                if kx not in chosen:
                    chosen.append(kx)
            for kx in chosen:
                self.use("catch:" + kx)
                catches.append((kx, self.block(fty[2], cs, min(d, 1))))
            if self.ch(0.4) or not chosen:
                self.use("catch:all")
                catches.append((None, self.block(fty[2], cs, min(d, 1))))
        body_scope = Scope(fscope)
        pre_items, post_items = [], []
        named = [p for p in params if p["dims"] and not (rec and p is params[0])]
        if named and self.ch(0.35):
            # shadow the NAME of an array / range / slice parameter inside the body, then use its extent / bound names:
            # they refer to the parameter's cell, not to what the parameter's name resolves to
            p = r.choice(named)
            ty2 = r.choice([INT, FLOAT, STRING, ENUM, BOOL])
            body_scope.add(p["name"], ty2, "C")
            pre_items.append(["let", p["name"], self.leaf(ty2, fscope)[0] if ty2 != ENUM else ["enumval", "E", "ec"]])
            for dn in p["dims"][:2]:
                post_items.append(["e", ["builtin", "print", [["var", dn]]]])
            post_items.append(["e", ["builtin", "print", [["index", ["arrlit", [2], INT, [["var", p["dims"][0]], ["int", 1]]], [["int", 0]]]]]])
            self.use("param:name-shadowed-extent-used")
        items = pre_items + post_items + self.items(body_scope, d, r.range(0, 3))
        if rec:
            self.use("recursion")
            n = params[0]["name"]
            base, _ = self.expr(fty[2], body_scope, min(d, 1))
            k = r.range(1, 2)
            step_args = []
            calls = []
            for _ in range(k):
                args = [["bin", "sub", ["var", n], ["int", r.range(1, 2)]]]
                bad = False
                for p in fty[1][1:]:
                    if p.get("mut") == "var":
                        t = self.lvalue(p["ty"], body_scope, 1)
                        if t is None:
                            bad = True; break
                        args.append(t)
                    else:
                        args.append(self.expr(p["ty"], body_scope, min(d, 1))[0])
                if bad:
                    break
                calls.append(["call", ["var", name], args])
            if calls:
                acc = calls[0]
                for c in calls[1:]:
                    acc = ["bin", "add", acc, c]
                other, _ = self.expr(fty[2], body_scope, min(d, 1))
                tail = self.ch(0.4) and len(calls) == 1
                if tail:
                    self.use("recursion:tail")
                    stepe = acc
                else:
                    stepe = ["bin", r.choice(["add", "sub"]), other, acc] if self.ch(0.5) else ["bin", "add", acc, other]
                if len(calls) > 1:
                    self.use("recursion:fanout")
                final = ["cond", ["bin", "le", ["var", n], ["int", 0]], base, stepe, "?:"]
                self.conds += 1; self.nonconst_cond += 1
            else:
                final = base
        else:
            final, _ = self.expr(fty[2], body_scope, d)
        items = items + self.observe(body_scope)
        body = ["seq", items + [["e", final]]]
        f = dict(id=fid, name=name, params=params, ret=fty[2], retmut=None, body=body, catches=catches)
        used = set()
        names_used(f, used)
        sc = scope
        while sc is not None:
            sc.tainted |= used
            sc = sc.parent
        return f

    # ------------------------------------------------------------ program
    def program(self):
        r = self.r
        self.budget = 250
        top = Scope(None)
        prog = dict(recs=[("R", [("a", INT, None), ("b", FLOAT, None), ("next", REC, None)])],
                    enums=[("E", [("ea", 0, None), ("eb", 1, None), ("ec", 2, None)]),
                           ("O", [("None", 0, None), ("Some", 1, [("val", INT, None)])])], funcs=[])
        nf = r.range(0, 3)
        names = []
        for i in range(nf):
            self.counter += 1
            nm = "%s%d" % (r.choice(FNAMES), self.counter)
            names.append(nm)
        funcs = []
        for nm in names:
            sig = self.pick_sig()
            ent = top.add(nm, sig, "C", hidden=True, decl=True)
            f = self.func_decl(nm, sig, top, self.k["nesting"], allow_rec=True)
            ent["hidden"] = False
            # a recursive function is called from outside with a small literal first argument only
            funcs.append(f)
        # main
        nargs = r.range(1, 2) if self.ch(self.k["main_args"]) else 0
        msig = ("func", [P("p", INT) for _ in range(nargs)], r.weighted([(INT, 70), (FLOAT, 12), (BOOL, 8), (LONG, 5), (DOUBLE, 5)]))
        self.budget = 300
        mainf = self.func_decl("main", msig, top, self.k["nesting"], allow_rec=False, is_main=True)
        funcs.append(mainf)
        prog["funcs"] = funcs
        args = [("i", r.choice([0, 0, 1, 2, 3, 5, -1, 7])) for _ in range(nargs)]
        return prog, args

def names_used(node, out):
    if isinstance(node, dict):
        for k in ("body", "catches"):
            names_used(node[k], out)
        return
    if isinstance(node, (list, tuple)):
        if len(node) == 2 and node[0] == "var" and isinstance(node[1], str):
            out.add(node[1])
        for x in node:
            if isinstance(x, (list, tuple, dict)):
                names_used(x, out)

# recursion guard: a call `f(e, ...)` from OUTSIDE f of a recursive f must pass a small first argument.
# We do not know which functions ended up recursive when generating call sites inside later
# functions, so the first int argument of EVERY call is clamped after generation.

def clamp_first_args(prog, rec_names):
    def walk(e, inside):
        if isinstance(e, dict):
            n = e["name"]
            walk(e["body"], inside | {n})
            for c in e["catches"]:
                walk(c[1], inside | {n})
            return
        if not isinstance(e, (list, tuple)) or not e:
            return
        if isinstance(e, list) and e[0] == "call" and e[1][0] == "var" and e[1][1] in rec_names and e[1][1] not in inside and e[2]:
            e[2][0] = ["bin", "band", e[2][0], ["int", 3]]
        if isinstance(e, list) and e[0] == "pipe" and e[2][0] == "var" and e[2][1] in rec_names and e[2][1] not in inside:
            # `x |> f(…)`: x (or the first component of a piped tuple) is f's first argument
            if e[1][0] == "tuple":
                e[1][1][0] = ["bin", "band", e[1][1][0], ["int", 3]]
            else:
                e[1] = ["bin", "band", e[1], ["int", 3]]
        for x in e:
            if isinstance(x, (list, dict, tuple)):
                walk(x, inside)
    for f in prog["funcs"]:
        walk(f, set())

def rec_function_names(prog):
    """names of functions whose body calls the function itself"""
    out = set()
    def calls_self(e, name):
        if isinstance(e, dict) or not isinstance(e, (list, tuple)) or not e:
            return False
        if isinstance(e, list) and e[0] == "call" and e[1] == ["var", name]:
            return True
        return any(calls_self(x, name) for x in e if isinstance(x, (list, tuple)))
    def walk(e):
        if isinstance(e, dict):
            if e["name"] and calls_self(e["body"], e["name"]):
                out.add(e["name"])
            walk(e["body"])
            for c in e["catches"]:
                walk(c[1])
            return
        if isinstance(e, (list, tuple)):
            for x in e:
                if isinstance(x, (list, dict, tuple)):
                    walk(x)
    for f in prog["funcs"]:
        walk(f)
    return out

def generate(rng, knobs=None):
    g = Gen(rng, knobs)
    prog, args = g.program()
    clamp_first_args(prog, rec_function_names(prog))
    stats = dict(used=sorted(g.used), conds=g.conds, nonconst_conds=g.nonconst_cond)
    return prog, args, stats

# ---------------------------------------------------------------- alpha renaming (C08 twins)
# Mirrors `Never.Src.rnE`: a binder named x pushed when the static name stack has depth d is
# renamed to nu(x, d); a use is renamed like its innermost binder.  Admissible nu (the Lean
# theorem's hypothesis): nu x d = nu y d' -> x = y or d = d'.

def nu_name_depth(x, d):
    return "main" if x == "main" else "%s_%d" % (x, d)

def nu_level(x, d):
    return "main" if x == "main" else "v%d" % d

def nu_collide(x, d):
    """all names collide pairwise in the compiler's identifier hash (front/hash.c: val*33 + c): the two-character blocks
    "az" and "bY" contribute the same amount, so every string of k such blocks behind a common prefix has one hash value.
    Lookups that compare anything less than the identifier text itself resolve to the wrong binding."""
    if x == "main":
        return "main"
    return "q" + "".join("az" if (d >> i) & 1 else "bY" for i in range(max(7, d.bit_length())))

def rn_var(nu, bs, x):
    """bs: list of names, innermost LAST"""
    for i in range(len(bs) - 1, -1, -1):
        if bs[i] == x:
            return nu(x, i)
    return nu(x, len(bs))

def param_binders(ps):
    out = []
    for p in ps:
        out.append(p["name"])
        if p["ty"][0] in ("arr", "range", "slice"):
            out.extend(p["dims"])
    return out

def rn_func(nu, bs, f):
    """bs already contains the function's own group (or its own name for a named lambda)"""
    d0 = len(bs)
    bs2 = list(bs)
    ps = []
    for p in f["params"]:
        q = dict(p)
        q["name"] = nu(p["name"], len(bs2)); bs2.append(p["name"])
        nd = []
        if p["ty"][0] in ("arr", "range", "slice"):
            for dn in p["dims"]:
                nd.append(nu(dn, len(bs2))); bs2.append(dn)
        q["dims"] = nd
        ps.append(q)
    g = dict(f)
    g["params"] = ps
    g["name"] = rn_var(nu, bs, f["name"]) if f["name"] else ""
    g["body"] = rn_expr(nu, bs2, f["body"])
    g["catches"] = [(c[0], rn_expr(nu, bs2, c[1])) for c in f["catches"]]
    return g

def rn_guard(nu, bs, g):
    if g[0] == "gitem":
        return ["gitem", g[1], g[2], rn_expr(nu, bs, g[3])]
    if g[0] == "gelse":
        return ["gelse", rn_expr(nu, bs, g[1])]
    bs2 = list(bs); nb = []
    for x in g[3]:
        nb.append(nu(x, len(bs2))); bs2.append(x)
    return ["grec", g[1], g[2], nb, rn_expr(nu, bs2, g[4])]

def rn_expr(nu, bs, e):
    t = e[0]
    R = lambda x: rn_expr(nu, bs, x)
    if t in ("int", "long", "float", "double", "char", "str", "bool", "nil", "recnil", "enumval"):
        return list(e)
    if t == "var":
        return ["var", rn_var(nu, bs, e[1])]
    if t == "un":
        return ["un", e[1], R(e[2])]
    if t == "bin":
        return ["bin", e[1], R(e[2]), R(e[3])]
    if t in ("and", "or", "assign", "while", "dowhile"):
        return [t, R(e[1]), R(e[2])]
    if t == "cond":
        return ["cond", R(e[1]), R(e[2]), R(e[3])] + list(e[4:])
    if t == "seq":
        bs2 = list(bs); items = []
        for it in e[1]:
            if it[0] in ("let", "varb"):
                ne = rn_expr(nu, bs2, it[2])
                items.append([it[0], nu(it[1], len(bs2)), ne]); bs2.append(it[1])
            elif it[0] == "funcs":
                for f in it[1]:
                    bs2.append(f["name"])
                items.append(["funcs", [rn_func(nu, bs2, f) for f in it[1]]])
            else:
                items.append(["e", rn_expr(nu, bs2, it[1])])
        return ["seq", items]
    if t == "for":
        return ["for", R(e[1]), R(e[2]), R(e[3]), R(e[4])]
    if t == "forin":
        return ["forin", nu(e[1], len(bs)), R(e[2]), rn_expr(nu, bs + [e[1]], e[3])]
    if t == "call":
        return ["call", R(e[1]), [R(a) for a in e[2]]]
    if t == "builtin":
        return ["builtin", e[1], [R(a) for a in e[2]]] + list(e[3:])
    if t == "lam":
        f = e[1]
        return ["lam", rn_func(nu, bs + [f["name"]] if f["name"] else bs, f)]
    if t == "arrlit":
        return ["arrlit", e[1], e[2], [R(a) for a in e[3]]]
    if t == "arrnew":
        return ["arrnew", e[1], [R(a) for a in e[2]]]
    if t == "index":
        return ["index", R(e[1]), [R(a) for a in e[2]]]
    if t == "record":
        return ["record", e[1], [R(a) for a in e[2]]]
    if t == "tuple":
        return ["tuple", [R(a) for a in e[1]], e[2]]
    if t == "field":
        return ["field", R(e[1]), e[2]]
    if t == "enumrec":
        return ["enumrec", e[1], e[2], [R(a) for a in e[3]]]
    if t == "match":
        return ["match", R(e[1]), [rn_guard(nu, bs, g) for g in e[2]]]
    if t == "iflet":
        return ["iflet", rn_guard(nu, bs, e[1]), R(e[2]), None if e[3] is None else R(e[3])]
    if t == "pipe":
        return ["pipe", R(e[1]), R(e[2]), [R(a) for a in e[3]]]
    if t == "range":
        return ["range", [R(a) for a in e[1]]]
    if t == "slice":
        return ["slice", R(e[1]), [R(a) for a in e[2]]]
    if t == "listcomp":
        bs2 = list(bs); qs = []
        for q in e[3]:
            if q[0] == "gen":
                c = rn_expr(nu, bs2, q[2])
                qs.append(["gen", nu(q[1], len(bs2)), c]); bs2.append(q[1])
            else:
                qs.append(["filter", rn_expr(nu, bs2, q[1])])
        return ["listcomp", e[1], rn_expr(nu, bs2, e[2]), qs]
    raise ValueError(t)

def rename(prog, nu):
    bs = [f["name"] for f in prog["funcs"]]
    q = dict(prog)
    q["funcs"] = [rn_func(nu, bs, f) for f in prog["funcs"]]
    return q
