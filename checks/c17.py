"""C17 — foreign calls pass and return every value intact."""
import json, os, shutil
from common import *
import buildimpl, ffi_corr

PROP_MODULE = "NeverModel.Props.C17"
REQUIRED = ["Never.C17.layout_matches_sysv", "Never.C17.marshal_roundtrip", "Never.C17.descriptor_walk",
            "Never.C17.ffi_failure_paths", "Never.C17.ffi_failure_paths_nil_exact",
            "Never.C17.ffi_failure_paths_missing"]

class _Collect:
    """stand-in Report used by the search after a broken proof"""
    def __init__(self):
        self.found = []
    def violation(self, tag, text, found_input=True):
        if found_input:
            self.found.append(text)
    def finding(self, sig, text):
        return True

def _search(seed):
    """the proof no longer checks: look for a concrete call that does not pass/return its values"""
    def go():
        c = _Collect()
        ffi_corr.run_correspondence(c, "quick", seed)
        return c.found[0] if c.found else None
    return go

def check(tier, seed):
    rep = Report("C17", tier, seed, "proof")
    proof_stage(rep, PROP_MODULE, required=REQUIRED, search=_search(seed))
    res, stats = ffi_corr.run_correspondence(rep, tier, seed)
    rep.cov.update(trusted_base=["Lean 4.33 kernel", "axioms: propext, Classical.choice, Quot.sound",
                                 "libffi 3.4.4 (aggregate sizes taken as the C ones in the model; printed by h_ffi and compared)",
                                 "harness h_ffi.c (#includes back/vmffi.c) + ffi_corr.py (generators, C callee generator, judge)",
                                 "gcc (callee .so, offsetof/sizeof oracle), dlopen/dlsym, ASan/UBSan runtime"],
                   evaluations=res["evaluations"], distinct_nontrivial=res["distinct"],
                   rule="walk ops: seeded nested record types (depth<=3, <=5 fields) x type/pack/unpack, 15% mutated descriptors; "
                        "e2e: seeded extern signatures arity 0..12 over {b,i,l,f,d,c,s,p,record} with by-value structs of classes <=8/<=16/>16, "
                        "corner + random values, struct/scalar/void returns; one forced signature per size class x position; "
                        "thorough adds every signature of arity<=2 over the alphabet + one struct per class; distinct = distinct (params, ret) type lists",
                   samples=res["samples"], ffi=stats)
    rep.assumptions = ["M-FFI is a hand model of vmffi.c/emit.c tied by correspondence on the explored inputs",
                       "libffi's ffi_prep_cif computes C sizes/alignments for aggregates (compared on every walk op, not proved)",
                       "register-vs-memory argument classification and the call itself happen inside libffi: observed end-to-end only",
                       "layout theorems assume sizeof(record) < 2^32 (the VM's offset is an unsigned int)"]
    return rep.finish()

def replay(path):
    txt = open(path).read()
    body = txt[txt.index("{"):] if "{" in txt else ""
    try:
        rec = json.loads(body)
    except Exception:
        print(txt); return 1
    info = buildimpl.build("asan")
    d = scratch_dir("ffireplay")
    try:
        kind = rec.get("kind")
        if kind == "walk":
            exe = buildimpl.link_harness(info, os.path.join(VERIF, "harness", "h_ffi.c"), os.path.join(d, "h_ffi"))
            a, _ = ffi_corr.run_walk_impl(exe, [rec["op"]])
            b = ffi_corr.run_model([rec["op"]])
            a, b = ffi_corr.canon_impl(a[0]), ffi_corr.canon_model(b[0])
            print("op   :", rec["op"]); print("impl :", a); print("model:", b)
            if "expected_bytes" in rec:
                print("C struct bytes expected:", rec["expected_bytes"])
                return 1 if rec["expected_bytes"] not in a else 0
            return 1 if a != b else 0
        if kind == "e2e":
            sig = ffi_corr.sig_from_record(rec)
            lib = ffi_corr.build_lib(d, [sig])
            p = os.path.join(d, "p.nev")
            open(p, "w").write(ffi_corr.never_program(sig, lib))
            rc, out, err = ffi_corr.run_never(info["never"], p)
            if any(ffi_corr.e2e_has_nil(v) for v in sig.args):
                got = [l.rstrip("\r") for l in out.split("\n") if l.strip()]
                print(open(p).read()); print("rc=%d\n%s\n%s" % (rc, out, err[-1500:]))
                return 0 if (got == ["FFI_FAIL"] and rc == 77) else 1
            verdict, detail = ffi_corr.judge_e2e(sig, rc, out, err)
            print(open(p).read()); print("verdict:", verdict); print(detail)
            if verdict in ("gt16", "gpr5"):
                print("(known finding of the pinned tree / of libffi on these inputs; every other value arrived intact)")
            return 0 if verdict in ("ok", "gt16", "gpr5") else 1
        if kind in ("emit", "layout"):
            exe = buildimpl.link_harness(info, os.path.join(VERIF, "harness", "h_ffi.c"), os.path.join(d, "h_ffi"))
            if kind == "layout":
                t = ffi_corr.sig_from_record(dict(sid=0, params=[rec["type"]], ret="v", args=[], retv=None)).params[0]
                m = ffi_corr.run_model(["layout " + " ".join(ffi_corr.t_tokens(t))])[0]
                print("model :", m); print("python:", ffi_corr.t_size(t), ffi_corr.t_leaves(t)); print("gcc (recorded):", rec.get("gcc"))
                return 1
            sig = ffi_corr.sig_from_record(rec["sig"])
            lib = os.path.join(d, "nolib.so")
            p = os.path.join(d, "p.nev")
            open(p, "w").write(ffi_corr.never_program(sig, lib))
            rc, out = run([exe, "emit", p], env=ffi_corr.ENV)
            a = [" ".join(l.split()[2:]) for l in out.split("\n") if l.startswith("ffi f%d " % sig.sid)]
            b = ffi_corr.run_model(["emit %s -> %s" % (" ".join(sum([ffi_corr.t_tokens(t) for t in sig.params], [])),
                                    "v" if sig.ret == "v" else " ".join(ffi_corr.t_tokens(sig.ret)))])[0]
            b = " ".join(b.split()[1:])
            print("front end:", a); print("model    :", b)
            return 0 if a == [b] else 1
        if kind == "multi":
            class R:
                n = 0
                def violation(self, tag, text, found=True):
                    self.n += 1; print(text)
            r = R()
            ffi_corr.multi_library(r, info["never"], d, {})
            return 1 if r.n else 0
        if kind == "program":
            p = os.path.join(d, "p.nev")
            lib = ffi_corr.build_lib(d, [ffi_corr.gen_sig(Rng(1), 0, force=[])])
            rec["program"] = rec["program"].replace(rec.get("lib", "\0"), lib)
            open(p, "w").write(rec["program"])
            rc, out, err = ffi_corr.run_never(info["never"], p)
            print(rec["program"]); print("rc=%d\n%s\n%s" % (rc, out, err[-1500:]))
            return 0 if (rc == 77 and out.strip() == "FFI_FAIL") else 1
        print(txt)
        return 1
    finally:
        shutil.rmtree(d, ignore_errors=True)
