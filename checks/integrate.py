#!/usr/bin/env python3
"""integrate.py <deliver-dir> : copy an agent's delivered files into /verif (new files only) and merge known findings"""
import json, os, shutil, sys
src = sys.argv[1].rstrip("/")
V = os.path.dirname(os.path.dirname(os.path.abspath(__file__)))
skip = {"INTEGRATION.md", "DESIGN.add.md", "known_findings.add.json"}
for root, _, files in os.walk(src):
    for f in files:
        if f in skip and root == src:
            continue
        rel = os.path.relpath(os.path.join(root, f), src)
        dst = os.path.join(V, rel)
        os.makedirs(os.path.dirname(dst), exist_ok=True)
        if os.path.exists(dst):
            print("EXISTS (overwritten):", rel)
        shutil.copy2(os.path.join(root, f), dst)
        print("copied", rel)
kfa = os.path.join(src, "known_findings.add.json")
if os.path.exists(kfa):
    add = json.load(open(kfa))
    add = add.get("known", add) if isinstance(add, dict) else add
    p = os.path.join(V, "known_findings.json")
    kf = json.load(open(p))
    have = {(k["property"], k["signature"]) for k in kf["known"]}
    for k in add:
        if (k["property"], k["signature"]) not in have:
            kf["known"].append(k); print("known finding +", k["property"], k["signature"])
    json.dump(kf, open(p, "w"), indent=1)
da = os.path.join(src, "DESIGN.add.md")
if os.path.exists(da):
    os.makedirs(os.path.join(V, "docs"), exist_ok=True)
    name = os.path.basename(os.path.dirname(src)).replace("agent-", "")
    shutil.copy2(da, os.path.join(V, "docs", "DESIGN.add.%s.md" % name))
