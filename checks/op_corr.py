"""op_corr: single-handler differential.  Hand-made instruction sequences (operand recipes; the handler under test; HALT) are
loaded into the REAL VM (h_vm -B <dump>) and replayed in lockstep on M-VM, for every handler outside the arithmetic
families (those are tied by the translator of C10/C11) and a systematic choice of operand values per operand kind,
including the nil references the type system allows (nil string / array / record / function) and boundary integers.

The point: the lockstep runs over whole programs see only the operand combinations programs happen to produce; a guard that
is wrong for "left operand a string, right operand nil" is invisible until some program does exactly that.  Here every
(handler, operand kinds, operand values) combination of the table below is executed on both sides."""
import os, re, itertools
from concurrent.futures import ThreadPoolExecutor
from common import *
import vm_corr

OPC = {}

def load_opcodes():
    src = open(os.path.join(LEAN, "NeverModel", "Gen", "Opcodes.lean")).read()
    for i, n in enumerate(re.findall(r"^  \| (\w+)$", src, re.M)):
        OPC[n] = i

def u32(x):
    return x & 0xFFFFFFFF

class Seq:
    """an instruction sequence with its string table"""
    def __init__(self):
        self.code, self.strs = [], []
    def op(self, name, w0=0, w1=0, w2=0):
        self.code.append((name, u32(w0), u32(w1), u32(w2)))
    def string(self, b):
        if b not in self.strs:
            self.strs.append(b)
        return self.strs.index(b)

# ---- operand recipes: each pushes exactly one slot
def r_int(v):     return lambda s: s.op("INT", v)
def r_long(v):    return lambda s: s.op("LONG", u32(v), u32(v >> 32))
def r_float(bits): return lambda s: s.op("FLOAT", bits)
def r_double(bits): return lambda s: s.op("DOUBLE", u32(bits), u32(bits >> 32))
def r_char(v):    return lambda s: s.op("CHAR", v)
def r_str(b):     return lambda s: s.op("STRING", s.string(b))
def r_nilrec():   return lambda s: s.op("NIL_RECORD_REF")
def r_cnull():    return lambda s: s.op("C_NULL")
def r_elem0(mk):
    """element 0 of a fresh one-element array: the default value of that element kind (nil string / array / record / function)"""
    def f(s):
        s.op("INT", 1); s.op(mk, 1); s.op("INT", 0); s.op("ARRAYREF_DEREF", 1)
    return f
def r_intarr(vals):
    def f(s):
        # MK_INIT_ARRAY dims: pushes elements (last first), then the extents as constant INTs
        for v in reversed(vals):
            s.op("INT", v)
        s.op("INT", len(vals)); s.op("MK_INIT_ARRAY", 1)
    return f
def r_intarr2(rows, cols):
    def f(s):
        for v in reversed(range(rows * cols)):
            s.op("INT", v + 1)
        s.op("INT", cols); s.op("INT", rows); s.op("MK_INIT_ARRAY", 2)
    return f
def r_numarr2(push, rows, cols, vals):
    """rows x cols matrix of the given scalar pushes (row-major values)"""
    def f(s):
        for v in reversed(vals):
            push(v)(s)
        s.op("INT", cols); s.op("INT", rows); s.op("MK_INIT_ARRAY", 2)
    return f
def r_numarr1(push, vals):
    def f(s):
        for v in reversed(vals):
            push(v)(s)
        s.op("INT", len(vals)); s.op("MK_INIT_ARRAY", 1)
    return f
import struct
def f32bits(x): return struct.unpack("<I", struct.pack("<f", x))[0]
def f64bits(x): return struct.unpack("<Q", struct.pack("<d", x))[0]
def r_strarr(n):
    def f(s):
        s.op("INT", n); s.op("MK_ARRAY_STRING", 1)
    return f
def r_record(vals):
    def f(s):
        for v in vals:
            s.op("INT", v)
        s.op("RECORD", len(vals))
    return f
def r_range(a, b):
    def f(s):
        s.op("INT", a); s.op("INT", b); s.op("MK_RANGE", 1)
    return f
def r_slice(vals, a, b):
    def f(s):
        r_intarr(vals)(s); r_range(a, b)(s); s.op("SLICE_ARRAY", 1)
    return f

KINDS = {
    "int":   [("i%d" % v, r_int(v)) for v in (0, 1, 2, 5, -1, 2147483647, -2147483648)],
    "idx":   [("i%d" % v, r_int(v)) for v in (0, 1, 2, 3, -1, 7)],
    "bool":  [("b0", r_int(0)), ("b1", r_int(1))],
    "long":  [("l%d" % v, r_long(v)) for v in (0, 7, -3, 4294967296)],
    "float": [("f1.5", r_float(0x3FC00000)), ("f0", r_float(0)), ("f-2", r_float(0xC0000000))],
    "double": [("d2.5", r_double(0x4004000000000000)), ("d0", r_double(0))],
    "char":  [("cA", r_char(65)), ("c0", r_char(0))],
    "str":   [("s_abc", r_str(b"abc")), ("s_empty", r_str(b"")), ("s_abd", r_str(b"abd")), ("s_nil", r_elem0("MK_ARRAY_STRING"))],
    "arr":   [("a3", r_intarr([10, 20, 30])), ("a1", r_intarr([7])), ("a_nil", r_elem0("MK_ARRAY_ARRAY"))],
    "mat":   [("m23", r_intarr2(2, 3)), ("m32", r_intarr2(3, 2)), ("m22", r_intarr2(2, 2)), ("a_nil", r_elem0("MK_ARRAY_ARRAY"))],
    "sarr":  [("sa2", r_strarr(2))],
    # values chosen so that a wrong accumulator type shows: int products that wrap, float sums that round differently in double
    "imat":  [("im22big", r_numarr2(r_int, 2, 2, [1073741824, 3, 65536, 2147483647])), ("im22", r_numarr2(r_int, 2, 2, [4, 65536, -7, 1073741824]))],
    "lmat":  [("lm22", r_numarr2(r_long, 2, 2, [4294967296, 3, -5, 9007199254740993])), ("lm22b", r_numarr2(r_long, 2, 2, [3037000500, 2, 3037000500, 9007199254740993]))],
    "fmat":  [("fm22", r_numarr2(lambda v: r_float(f32bits(v)), 2, 2, [1e8, 1.0, -1e8, 0.1])), ("fm22b", r_numarr2(lambda v: r_float(f32bits(v)), 2, 2, [16777216.0, 1.0, 1.0, 3.0]))],
    "dmat":  [("dm22", r_numarr2(lambda v: r_double(f64bits(v)), 2, 2, [1e16, 1.0, -1e16, 0.1])), ("dm22b", r_numarr2(lambda v: r_double(f64bits(v)), 2, 2, [0.1, 0.2, 0.3, 1e308]))],
    "larr":  [("la2", r_numarr1(r_long, [4294967296, -3]))],
    "farr":  [("fa2", r_numarr1(lambda v: r_float(f32bits(v)), [16777216.0, 0.1]))],
    "darr":  [("da2", r_numarr1(lambda v: r_double(f64bits(v)), [1e16, 0.1]))],
    "rec":   [("r2", r_record([4, 5])), ("r_nil", r_nilrec()), ("r_nil2", r_elem0("MK_ARRAY_RECORD"))],
    "fn":    [("fn_nil", r_elem0("MK_ARRAY_FUNC"))],
    "range": [("rg0_2", r_range(0, 2)), ("rg2_0", r_range(2, 0)), ("rg1_5", r_range(1, 5)), ("rg_m1_1", r_range(-1, 1)), ("rg_nil", r_nilrec())],
    "slice": [("sl_1_2", r_slice([10, 20, 30, 40], 1, 2)), ("sl_3_0", r_slice([10, 20, 30, 40], 3, 0)), ("sl_nil", r_nilrec())],
    "cptr":  [("p_null", r_cnull())],
}

# (handler, w0, w1, w2, operand kinds bottom..top, pushes a result slot?)
def table():
    T = []
    def add(op, kinds, w=(0, 0, 0), res=True):
        T.append((op, w, kinds, res))
    for op in ("OP_ADD_STRING", "OP_EQ_STRING", "OP_NEQ_STRING"):
        add(op, ["str", "str"])
    for ty, k in (("INT", "int"), ("LONG", "long"), ("FLOAT", "float"), ("DOUBLE", "double"), ("CHAR", "char")):
        add("OP_ADD_%s_STRING" % ty, [k, "str"]); add("OP_ADD_STRING_%s" % ty, ["str", k])
    for neg in ("EQ", "NEQ"):
        add("OP_%s_STRING_NIL" % neg, ["str", "rec"]); add("OP_%s_NIL_STRING" % neg, ["rec", "str"])
        add("OP_%s_ARRAY_NIL" % neg, ["arr", "rec"]); add("OP_%s_NIL_ARRAY" % neg, ["rec", "arr"])
        add("OP_%s_RECORD_NIL" % neg, ["rec", "rec"]); add("OP_%s_NIL_RECORD" % neg, ["rec", "rec"])
        add("OP_%s_FUNC_NIL" % neg, ["fn", "rec"]); add("OP_%s_NIL_FUNC" % neg, ["rec", "fn"])
        add("OP_%s_NIL" % neg, ["rec", "rec"]); add("OP_%s_C_PTR" % neg, ["cptr", "cptr"])
    add("OP_ASS_INT", ["int", "int"]); add("OP_ASS_LONG", ["long", "long"]); add("OP_ASS_FLOAT", ["float", "float"])
    add("OP_ASS_DOUBLE", ["double", "double"]); add("OP_ASS_CHAR", ["char", "char"]); add("OP_ASS_STRING", ["str", "str"])
    add("OP_ASS_ARRAY", ["arr", "arr"]); add("OP_ASS_RECORD", ["rec", "rec"]); add("OP_ASS_RECORD_NIL", ["rec", "rec"])
    add("OP_ASS_FUNC", ["fn", "fn"]); add("OP_ASS_C_PTR", ["cptr", "cptr"])
    add("STRING_DEREF", ["str", "idx"]); add("SLICE_STRING", ["str", "range"], (1, 0, 0))
    add("ARRAYREF_DEREF", ["arr", "idx"], (1, 0, 0)); add("ARRAYREF_DEREF", ["mat", "idx", "idx"], (2, 0, 0))
    add("SLICE_ARRAY", ["arr", "range"], (1, 0, 0)); add("SLICE_DEREF", ["slice", "idx"], (1, 0, 0))
    add("SLICE_SLICE", ["slice", "range"], (1, 0, 0)); add("SLICE_RANGE", ["range", "range"], (1, 0, 0))
    add("RANGE_DEREF", ["range", "idx"], (1, 0, 0))
    add("VECREF_DEREF", ["rec"]); add("VECREF_VEC_INDEX_DEREF", ["rec", "idx"]); add("ENUMTYPE_RECORD_TO_INT", ["rec"])
    add("VECREF_VEC_DEREF", ["rec"], (0, 1, 0)); add("VECREF_VEC_DEREF", ["rec"], (0, 2, 0))
    for ty in ("INT",):
        add("OP_NEG_ARR_%s" % ty, ["arr"]); add("OP_ADD_ARR_%s" % ty, ["arr", "arr"]); add("OP_SUB_ARR_%s" % ty, ["arr", "arr"])
        add("OP_MUL_ARR_%s" % ty, ["int", "arr"]); add("OP_MUL_ARR_ARR_%s" % ty, ["mat", "mat"])
        add("OP_ADD_ARR_%s" % ty, ["mat", "mat"]); add("OP_SUB_ARR_%s" % ty, ["mat", "arr"])
    for ty, mk, ak, sk in (("INT", "imat", "arr", "int"), ("LONG", "lmat", "larr", "long"), ("FLOAT", "fmat", "farr", "float"), ("DOUBLE", "dmat", "darr", "double")):
        add("OP_MUL_ARR_ARR_%s" % ty, [mk, mk]); add("OP_ADD_ARR_%s" % ty, [mk, mk]); add("OP_SUB_ARR_%s" % ty, [mk, mk])
        add("OP_NEG_ARR_%s" % ty, [mk]); add("OP_MUL_ARR_%s" % ty, [sk, mk])
        if ty != "INT":
            add("OP_ADD_ARR_%s" % ty, [ak, ak]); add("OP_NEG_ARR_%s" % ty, [ak])
    add("JUMPZ", ["int"], (0, 0, 0), False)
    add("ID_DIM_LOCAL", ["arr"], (1, 1, 0)); add("ID_DIM_LOCAL", ["mat"], (1, 1, 1)); add("ID_DIM_LOCAL", ["mat"], (1, 1, 2))
    add("ID_DIM_SLICE", ["slice"], (1, 1, 1)); add("ID_DIM_SLICE", ["slice"], (1, 1, 0))
    add("ARRAY_APPEND", ["arr", "int"], (2, 1, 0), False); add("ARRAY_APPEND", ["mat", "int"], (2, 1, 0), False)
    add("OP_INC_INT", ["int"], (1, 1, 0)); add("OP_DEC_INT", ["int"], (1, 1, 0)); add("OP_DUP_INT", ["int"], (1, 1, 0))
    add("DUP", ["int", "str"], (2, 0, 0)); add("DUP", ["int", "str"], (1, 0, 0))
    add("RECORD_UNPACK", ["rec"], (2, 0, 0)); add("RECORD_UNPACK", ["rec"], (3, 0, 0))
    for bid, kinds in ((8, ["int"]), (9, ["float"]), (10, ["char"]), (11, ["int"]), (13, ["int"]), (14, ["long"]), (15, ["bool"]), (16, ["float"]), (17, ["double"]),
                       (18, ["char"]), (19, ["str"]), (20, ["str"]), (21, ["bool"]), (23, ["int"]), (27, ["bool"]), (29, ["str"]), (30, ["cptr"])):
        add("BUILD_IN", kinds, (bid, 0, 0))
    return T

def build(op, w, recipes, res):
    """-> dump text.  Layout: a guard INT below the operands (so that a handler that pops too much is seen), operands, handler,
    HALT; address N-1 = UNHANDLED_EXCEPTION, the handler of every address"""
    s = Seq()
    s.op("INT", 424242)
    for r in recipes:
        r(s)
    s.op(op, *w)
    # HALT copies the top object out as the result: make it an int; the handler's own result stays in the slot below and is
    # compared by the final-state comparison (stack + reachable heap)
    s.op("INT", 7)
    s.op("HALT")
    hnd = len(s.code)
    s.op("UNHANDLED_EXCEPTION")
    L = ["code %d" % len(s.code)]
    for a, (name, w0, w1, w2) in enumerate(s.code):
        L.append("i %d %d %d %d %d" % (a, OPC[name], w0, w1, w2))
    L.append("strtab %d" % len(s.strs))
    for i, b in enumerate(s.strs):
        L.append("s %d %s" % (i, b.hex()))
    L += ["exctab 1", "x 0 %d" % hnd, "x 4294967295 0", "entry 0", ""]
    return "\n".join(L)

def cases(tier, rng):
    out = []
    for (op, w, kinds, res) in table():
        if op not in OPC:
            continue
        choices = [KINDS[k] for k in kinds]
        combos = list(itertools.product(*choices))
        if tier == "quick" and len(combos) > 24:
            # all nil-bearing combinations, plus a seeded sample of the rest
            nil = [c for c in combos if any("nil" in n for n, _ in c)]
            rest = [c for c in combos if c not in nil]
            rng.shuffle(rest)
            combos = nil[:40] + rest[:16]
        for c in combos:
            out.append(("%s_%s_%s_%s" % (op, "_".join(str(x) for x in w), "+".join(kinds), "+".join(n for n, _ in c)), op, w, [r for _, r in c], res))
    return out

def run_all(rep, tier, seed, only=None):
    """only: predicate on the handler name (None = every handler of the table)"""
    load_opcodes()
    rng = Rng(seed * 1000003 + 17)
    cs = [c for c in cases(tier, rng) if only is None or only(c[1])]
    h = vm_corr.VmHarness()
    st = dict(cases=len(cs), ok=0, both_crash=0, diverge=0, impl_crash=0, by_handler={})
    bad = []
    def one(c):
        name, op, w, recipes, res = c
        path = os.path.join(h.dir, "op_%d.dump" % cs.index(c))
        open(path, "w").write(build(op, w, recipes, res))
        r = h.run(bdump=path, timeout=60)
        ml, me = h.model(r)
        stt, det = vm_corr.compare(r, ml, me)
        io = vm_corr.impl_outcome(r)
        err = r["err"][-600:]
        h.cleanup(r)
        text = open(path).read()
        os.remove(path)
        return name, op, stt, det, io["kind"], err, text
    try:
        with ThreadPoolExecutor(max_workers=14) as ex:
            res = list(ex.map(one, cs))
    finally:
        h.close()
    for name, op, stt, det, kind, err, text in res:
        st["by_handler"][op] = st["by_handler"].get(op, 0) + 1
        crashed = kind.startswith(("sanitizer", "signal", "assert", "crash"))
        if stt == "ok":
            st["ok"] += 1
        elif stt == "both-crash":
            # an operand combination outside the handler's contract (both sides refuse it): not a difference
            st["both_crash"] += 1
        else:
            st["diverge"] += 1
            if crashed: st["impl_crash"] += 1
            bad.append((name, stt, det, kind, err, text, crashed))
    bad.sort(key=lambda b: (not b[6], b[0]))
    for (name, stt, det, kind, err, text, crashed) in bad[:4]:
        rep.violation("op_%s" % re.sub(r"[^A-Za-z0-9_+.-]", "_", name)[:90],
                      "# single-handler differential: real VM and M-VM differ (%s) on this hand-made instruction sequence\n# %s\n# implementation: %s\n# stderr: %s\n# replay: h_vm -B <this dump> -T trace -R res ; nmdrv vm dump res trace 5000 200 0 1\n%s"
                      % (stt, det.replace("\n", "\n# "), kind, err.replace("\n", "\n# "), text), crashed)
    if len(bad) > 4:
        rep.violations += len(bad) - 4
    st["handlers"] = len(st["by_handler"])
    return st
