#!/usr/bin/env python3
"""wave_matrix.py : fold the logs of checks/wave_eval.sh (/var/tmp/wave/<id>.log) into seeded/<id>/meta.json (confirmation, per-check verdicts;
the LAST run of a check counts — earlier runs show what the check missed before it was strengthened) and print the rows for seeded/MATRIX.md"""
import json, os, re, sys
V = os.path.dirname(os.path.dirname(os.path.abspath(__file__)))
W = "/var/tmp/wave"
rows = []
for f in sorted(os.listdir(W)):
    if not f.endswith(".log"):
        continue
    sid = f[:-4]
    d = os.path.join(V, "seeded", sid)
    if not os.path.isdir(d):
        continue
    txt = open(os.path.join(W, f)).read()
    meta = json.load(open(os.path.join(d, "meta.json")))
    m = re.search(r"^%s base_tests=(\S+) base_demo=(\S+) patch_applies=(\S+) patched_tests=(\S+) patched_demo=(\S+)" % re.escape(sid), txt, re.M)
    if m:
        ok = m.group(1).startswith("100%") and m.group(2) == "0" and m.group(3) == "0" and m.group(4).startswith("100%") and m.group(5) not in ("0", "nodemo")
        meta["confirmation"] = dict(base_tests=m.group(1), base_demo=m.group(2), patch_applies=m.group(3), patched_tests=m.group(4), patched_demo=m.group(5))
        meta["confirmed_by"] = "checks/confirm_seed.sh in a fresh worktree: baseline tests and demo pass, patch applies, tests still pass, demo fails" if ok else "NOT CONFIRMED"
    hist = {}
    for mm in re.finditer(r"^== check (C\d\d) violations=(\d+) with_input=(\d+) wall=(\d+)s", txt, re.M):
        hist.setdefault(mm.group(1), []).append((int(mm.group(2)), int(mm.group(3)), int(mm.group(4))))
    matrix, caught, first_miss = {}, [], []
    for c, runs in hist.items():
        v, wi, wall = runs[-1]
        verdict = "-" if v == 0 else ("V" if wi > 0 else "V*")
        matrix[c] = dict(verdict=verdict, wall_s=wall, runs=len(runs), first_verdict=("-" if runs[0][0] == 0 else ("V" if runs[0][1] > 0 else "V*")))
        if v:
            caught.append(c)
        if runs[0][0] == 0 and v:
            first_miss.append(c)
    meta["matrix"] = matrix
    meta["caught_by"] = caught
    meta["missed_before_strengthening"] = first_miss
    json.dump(meta, open(os.path.join(d, "meta.json"), "w"), indent=1)
    prop = sid.split("-")[0]
    own = matrix.get(prop, {}).get("verdict", "?")
    own0 = matrix.get(prop, {}).get("first_verdict", "?")
    others = ", ".join("%s %s" % (c, x["verdict"]) for c, x in sorted(matrix.items()) if c != prop)
    rows.append("| %s | %s | %s | %s | %s |" % (sid, meta.get("change", "")[:150].replace("|", "\\|"), own0 if own0 != own else own, own, others))
print("\n".join(rows))
