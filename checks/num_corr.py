"""Shared machinery of C10 / C11:
  * TRANSLATOR step: regenerate lean/NeverModel/Gen/*.lean from the CURRENT C source (gen/numtab.py)
  * correspondence + search oracle through the WHOLE compiler (harness/h_num.c): for operator x admitted
    operand-type pair x corner/random values, the program `lit op lit` and the program with the operands in
    `var`s are compiled and run by the real implementation; outcomes (typed result bits, exception number,
    compile-time "division by zero", signal) are compared
       (a) with each other                       = property C10 on the implementation itself
       (b) with an independent Python oracle (S) = property C11 on the implementation itself
       (c) with the regenerated Lean tables evaluated by `nmdrv num` (fold / run / ass / fmt)
                                                 = tie of the translator + model to the implementation
    (a)/(b) are also the search for a concrete failing input after a proof breaks.
"""
import os, struct, subprocess, sys, decimal, shutil
from concurrent.futures import ThreadPoolExecutor
from common import *
import buildimpl
sys.path.insert(0, os.path.join(VERIF, "gen"))
import numtab

GEN_DIR = os.path.join(LEAN, "NeverModel", "Gen")
M32, M64 = (1 << 32) - 1, (1 << 64) - 1
WIDTH = {"int": 32, "long": 64, "float": 32, "double": 64, "char": 8, "bool": 32, "enumtype": 32}
REPR = {"bool": "int", "enumtype": "int", "int": "int", "long": "long", "float": "float", "double": "double", "char": "char"}
RANK = {"int": 0, "long": 1, "float": 2, "double": 3}
NUMERIC = ["int", "long", "float", "double"]

# ------------------------------------------------------------------ translator step

def regenerate():
    """-> (src_dir, info, changed, stats, tie_error)"""
    info = buildimpl.build("plain")
    try:
        with Lock(os.path.join(SCRATCH, "lake.lock")):
            changed, stats = numtab.write(info["src"], GEN_DIR)
        return info, changed, stats, None
    except numtab.Tie as e:
        return info, [], {}, str(e)

# ------------------------------------------------------------------ bit-level helpers and the Python oracle (S)

def f32_of(bits):
    return struct.unpack("<f", struct.pack("<I", bits & M32))[0]
def f64_of(bits):
    return struct.unpack("<d", struct.pack("<Q", bits & M64))[0]
def bits_f32(x):
    try:
        return struct.unpack("<I", struct.pack("<f", x))[0]
    except OverflowError:
        return 0x7f800000 if x > 0 else 0xff800000
def bits_f64(x):
    return struct.unpack("<Q", struct.pack("<d", x))[0]
def sint(bits, w):
    bits &= (1 << w) - 1
    return bits - (1 << w) if bits >> (w - 1) else bits
def isnan32(b):
    return (b & 0x7f800000) == 0x7f800000 and (b & 0x7fffff) != 0
def isnan64(b):
    return (b & 0x7ff0000000000000) == 0x7ff0000000000000 and (b & 0xfffffffffffff) != 0

def int_to_f32_bits(n):
    """round-to-nearest-even conversion of an integer to IEEE single (no double intermediate)"""
    if n == 0:
        return 0
    sign = 0x80000000 if n < 0 else 0
    m = abs(n)
    e = m.bit_length() - 1
    if e <= 23:
        frac = m << (23 - e)
    else:
        sh = e - 23
        q, r = m >> sh, m & ((1 << sh) - 1)
        half = 1 << (sh - 1)
        if r > half or (r == half and (q & 1)):
            q += 1
        if q >> 24:
            q >>= 1
            e += 1
        frac = q
    return sign | ((e + 127) << 23) | (frac & 0x7fffff)

def fdiv(x, y):
    if y == 0:
        if x != x or x == 0:
            return float("nan")
        neg = (str(x)[0] == "-") != (str(y)[0] == "-")
        return float("-inf") if neg else float("inf")
    try:
        return x / y
    except OverflowError:
        return float("inf")

def trunc_to_int(x, w):
    """(int)x / (long long)x as cvttss2si/cvttsd2si: NaN or out of range -> MIN"""
    mn = 1 << (w - 1)
    if x != x or x in (float("inf"), float("-inf")):
        return mn
    t = int(x)
    if t < -mn or t > mn - 1:
        return mn
    return t & ((1 << w) - 1)

def s_conv(src, dst, bits):
    """the C conversion (dst)x on bit patterns"""
    if src == dst:
        return bits
    if src in ("int", "long"):
        v = sint(bits, WIDTH[src])
        if dst == "int":
            return v & M32
        if dst == "long":
            return v & M64
        if dst == "float":
            return int_to_f32_bits(v)
        return bits_f64(float(v))
    x = f32_of(bits) if src == "float" else f64_of(bits)
    if dst == "int":
        return trunc_to_int(x, 32)
    if dst == "long":
        return trunc_to_int(x, 64)
    if dst == "double":
        return bits_f64(x)
    return bits_f32(x)

def s_bin(ty, op, a, b):
    """C result of `a op b` at type ty -> ('ok', type, bits) | ('exc', 1) | ('trap',) | ('ub',)"""
    if ty in ("int", "long"):
        w = WIDTH[ty]
        m = (1 << w) - 1
        x, y = sint(a, w), sint(b, w)
        if op in ("add", "sub", "mul"):
            r = {"add": x + y, "sub": x - y, "mul": x * y}[op]
            return ("ok", ty, r & m)
        if op in ("div", "mod"):
            if y == 0:
                return ("exc", 1)
            if x == -(1 << (w - 1)) and y == -1:
                return ("trap",)
            q = abs(x) // abs(y)
            if (x < 0) != (y < 0):
                q = -q
            r = x - q * y
            return ("ok", ty, (q if op == "div" else r) & m)
        if op in ("lt", "gt", "lte", "gte", "eq", "neq"):
            r = {"lt": x < y, "gt": x > y, "lte": x <= y, "gte": x >= y, "eq": x == y, "neq": x != y}[op]
            return ("ok", "int", int(r))
        if op in ("bin_and", "bin_or", "bin_xor"):
            r = {"bin_and": a & b, "bin_or": a | b, "bin_xor": a ^ b}[op]
            return ("ok", ty, r & m)
        if op in ("bin_shl", "bin_shr"):
            if y < 0 or y >= w:
                return ("ub",)
            return ("ok", ty, ((x << y) if op == "bin_shl" else (x >> y)) & m)
    if ty in ("float", "double"):
        x, y = (f32_of(a), f32_of(b)) if ty == "float" else (f64_of(a), f64_of(b))
        pack = bits_f32 if ty == "float" else bits_f64
        if op in ("add", "sub", "mul", "div"):
            if op == "div" and y == 0:
                return ("exc", 1)
            try:
                r = {"add": lambda: x + y, "sub": lambda: x - y, "mul": lambda: x * y, "div": lambda: fdiv(x, y)}[op]()
            except OverflowError:
                r = float("inf")
            return ("ok", ty, pack(r))
        if op in ("lt", "gt", "lte", "gte", "eq", "neq"):
            r = {"lt": x < y, "gt": x > y, "lte": x <= y, "gte": x >= y, "eq": x == y, "neq": x != y}[op]
            return ("ok", "int", int(r))
    if ty == "char":
        x, y = sint(a, 8), sint(b, 8)
        r = {"lt": x < y, "gt": x > y, "lte": x <= y, "gte": x >= y, "eq": x == y, "neq": x != y}[op]
        return ("ok", "int", int(r))
    return ("ub",)

def s_un(ty, op, a):
    if op == "neg":
        if ty in ("int", "long"):
            return ("ok", ty, (-sint(a, WIDTH[ty])) & ((1 << WIDTH[ty]) - 1))
        return ("ok", ty, a ^ (1 << (WIDTH[ty] - 1)))
    if op == "bin_not":
        return ("ok", ty, (~a) & ((1 << WIDTH[ty]) - 1))
    if op == "not":
        return ("ok", "int", int(a == 0))
    return ("ub",)

def join(ta, tb):
    return ta if RANK[ta] >= RANK[tb] else tb

def s_binary_source(op, ta, tb, a, b):
    """S-level: what `a op b` must give for operands of source types ta, tb (promotion order int<long<float<double;
    bool / ITEM enumerators are ints) -> outcome tuple, or None if the language does not admit the pair"""
    ra, rb = REPR[ta], REPR[tb]
    arith = op in ("add", "sub", "mul", "div")
    cmp_ = op in ("lt", "gt", "lte", "gte", "eq", "neq")
    if ta == "bool" or tb == "bool":
        if ta == tb == "bool":
            if op in ("eq", "neq"):
                return s_bin("int", op, a, b)
            if op == "and":
                return ("ok", "int", int(a != 0 and b != 0))
            if op == "or":
                return ("ok", "int", int(a != 0 or b != 0))
        return None
    if ta == "char" or tb == "char":
        return s_bin("char", op, a, b) if (ta == tb and cmp_) else None
    if "enumtype" in (ta, tb):
        if ra == "int" and rb == "int" and (arith or cmp_ or op == "mod" or op.startswith("bin_")):
            return s_bin("int", op, a, b)
        return None
    if op == "mod" or op.startswith("bin_"):
        if ra in ("int", "long") and rb in ("int", "long"):
            t = join(ra, rb)
            return s_bin(t, op, s_conv(ra, t, a), s_conv(rb, t, b))
        return None
    if arith or cmp_:
        t = join(ra, rb)
        return s_bin(t, op, s_conv(ra, t, a), s_conv(rb, t, b))
    return None

def fmt_spec(ty, bits):
    """%d / %lld / %.2f of the value"""
    if ty == "int":
        return "%d" % sint(bits, 32)
    if ty == "long":
        return "%d" % sint(bits, 64)
    x = f32_of(bits) if ty == "float" else f64_of(bits)
    if x != x:
        neg = bits >> (WIDTH[ty] - 1)
        return "-nan" if neg else "nan"
    return "%.2f" % x

# ------------------------------------------------------------------ values and their source text

def dec_text(x):
    t = format(decimal.Decimal(x), "f")
    if "." not in t:
        t += ".0"
    return t

def src_of(ty, bits):
    """(text usable as an operand inside an expression, text usable as an initialiser) for this exact bit pattern;
    None if the value cannot be written (NaN payloads)"""
    if ty == "int":
        t = "0x%08x" % (bits & M32)
        return t, t
    if ty == "long":
        t = "0x%016xL" % (bits & M64)
        return t, t
    if ty == "bool":
        t = "true" if bits else "false"
        return t, t
    if ty == "char":
        if 32 <= bits < 127 and chr(bits) not in "'\\":
            t = "'%s'" % chr(bits)
            return t, t
        return None
    w = WIDTH[ty]
    suffix = "" if ty == "float" else "d"
    neg = bits >> (w - 1)
    mag = bits & ((1 << (w - 1)) - 1)
    maxfin = 0x7f7fffff if ty == "float" else 0x7fefffffffffffff
    maxt = dec_text(f32_of(maxfin) if ty == "float" else f64_of(maxfin)) + suffix
    two = "2.0" + suffix
    inf = "(%s * %s)" % (maxt, two)
    if (isnan32(bits) if ty == "float" else isnan64(bits)):
        # the only NaN a constant expression produces here: inf - inf (x86 default NaN, sign set)
        if bits != (0xffc00000 if ty == "float" else 0xfff8000000000000):
            return None
        t = "(%s - %s)" % (inf, inf)
        return t, t
    if mag == (0x7f800000 if ty == "float" else 0x7ff0000000000000):
        t = inf
    else:
        t = dec_text(f32_of(mag) if ty == "float" else f64_of(mag)) + suffix
    if neg:
        return "(-%s)" % t, "-%s" % t
    return t, t

CORNERS = {
    "int": [0, 1, M32, 2, M32 - 1, 0x80000000, 0x7fffffff, 0x80000001, 7, (-7) & M32, 31, 32, 33, 0x01000001, 0x00ffffff,
            0x00010000, 0x7fffff80, 100, 3],
    "long": [0, 1, M64, 2, 1 << 63, (1 << 63) - 1, (1 << 63) + 1, (1 << 31) - 1, 1 << 31, (1 << 31) + 1, 1 << 32, (1 << 32) + 1,
             (1 << 32) - 1, 3 << 32, (-(1 << 32)) & M64, (1 << 53) + 1, (1 << 53) - 1, (1 << 24) + 1, 63, 64, 65, 7, (-7) & M64,
             (1 << 60) + (1 << 36) + 1, (-((1 << 60) + (1 << 36) + 1)) & M64, (1 << 62) + (1 << 38) + 1, (1 << 55) + (1 << 31) + 1,
             0x00000001ffffffff, 1 << 40],
    "float": [0x00000000, 0x80000000, 0x3f800000, 0xbf800000, 0x3fc00000, 0x3dcccccd, 0x4b800000, 0x4b7fffff, 0x4b800001,
              0x7f7fffff, 0x00000001, 0x00800000, 0x7f800000, 0xff800000, 0xffc00000, 0x3f000000, 0x40200000, 0x4f000000,
              0xcf000000, 0x4effffff, 0x5f000000, 0xdf000000, 0x5effffff, 0x3ba3d70a, 0x40490fdb, 0x3c23d70a, 0x3f8147ae],
    "double": [0, 1 << 63, 0x3ff0000000000000, 0xbff0000000000000, 0x3fb999999999999a, 0x4340000000000000, 0x433fffffffffffff,
               0x4340000000000001, 0x7fefffffffffffff, 1, 0x0010000000000000, 0x7ff0000000000000, 0xfff0000000000000,
               0xfff8000000000000, 0x41e0000000000000, 0x41dfffffffc00000, 0xc1e0000000000000, 0xc1e0000000200000,
               0x43e0000000000000, 0xc3e0000000000000, 0x43dfffffffffffff, 0x4170000010000000, 0x3f747ae147ae147b,
               0x3f8eb851eb851eb8, 0x3ff0147ae147ae14, 0x4005666666666666, 0x4004000000000000, 0x3fe0000000000000,
               0x47efffffe0000000, 0x47effffff0000000, 0x36a0000000000000, 0x3690000000000001, 0x400921fb54442d18],
    "bool": [0, 1],
    "char": [0x61, 0x62, 0x7e, 0x20, 0x41],
    "enumtype": [0, 1, M32, 5, 7, 0x80000000, 0x7fffffff],
}

def rand_value(rng, ty):
    if ty in ("int", "enumtype"):
        k = rng.below(4)
        if k == 0:
            return rng.below(64)
        if k == 1:
            return (-rng.below(64)) & M32
        return rng.next() & M32
    if ty == "long":
        k = rng.below(5)
        if k == 0:
            return rng.below(100)
        if k == 1:
            return (-rng.below(100)) & M64
        if k == 2:
            return (rng.below(1 << 20) << 32) & M64
        if k == 3:
            e = rng.range(54, 62)
            v = (1 << e) + (1 << (e - 24)) + rng.below(3)
            return v if rng.chance(0.5) else (-v) & M64
        return rng.next() & M64
    if ty == "float":
        while True:
            k = rng.below(3)
            if k == 0:
                b = bits_f32(float(rng.range(-1000, 1000)) / rng.choice([1, 2, 4, 8, 10, 100]))
            elif k == 1:
                b = (rng.next() & M32)
            else:
                b = bits_f32(float(rng.below(1 << 31)) * rng.choice([1.0, -1.0, 3.0, 0.001]))
            if not isnan32(b):
                return b
    if ty == "double":
        while True:
            k = rng.below(3)
            if k == 0:
                b = bits_f64(float(rng.range(-100000, 100000)) / rng.choice([1, 2, 4, 8, 10, 100, 1000]))
            elif k == 1:
                b = rng.next() & M64
            else:
                b = bits_f64(float(rng.below(1 << 62)) * rng.choice([1.0, -1.0, 4.0, 0.001]))
            if not isnan64(b):
                return b
    if ty == "bool":
        return rng.below(2)
    if ty == "char":
        return rng.range(33, 126)
    raise ValueError(ty)

SYM = {"add": "+", "sub": "-", "mul": "*", "div": "/", "mod": "%", "lt": "<", "gt": ">", "lte": "<=", "gte": ">=", "eq": "==",
       "neq": "!=", "and": "&&", "or": "||", "bin_and": "&&&", "bin_or": "|||", "bin_xor": "^^^", "bin_shl": "<<<", "bin_shr": ">>>"}
UNSYM = {"neg": "-", "not": "!", "bin_not": "~~~"}
BINOPS = ["add", "sub", "mul", "div", "mod", "lt", "gt", "lte", "gte", "eq", "neq", "bin_and", "bin_or", "bin_xor", "bin_shl", "bin_shr"]
TYNAME = {"int": "int", "long": "long", "float": "float", "double": "double", "bool": "bool", "char": "char"}

def hexv(ty, bits):
    r = REPR[ty]
    return "%s:%0*x" % (r, WIDTH[r] // 4, bits & ((1 << WIDTH[r]) - 1))

class Case:
    __slots__ = ("kind", "op", "ta", "tb", "a", "b", "progs", "model", "spec", "note", "stream", "rt")
    def __init__(self, **kw):
        self.note = ""
        self.rt = None
        self.stream = "main"
        self.spec = None
        for k, v in kw.items():
            setattr(self, k, v)

def result_type(out):
    return out[1] if out and out[0] == "ok" else None

def admitted_pairs(op):
    sc = ["bool", "int", "long", "float", "double", "char", "enumtype"]
    return [(a, b) for a in sc for b in sc if s_binary_source(op, a, b, 1, 1) is not None]

def enum_decl(vals):
    """enum with the given int bit patterns as enumerator values (distinct values required by the compiler)"""
    seen, items = set(), []
    for i, v in enumerate(vals):
        if v in seen:
            continue
        seen.add(v)
        items.append("V%d = 0x%08x" % (i, v & M32))
    return "enum E { " + ", ".join(items) + " }", {v: "E::V%d" % i for i, v in reversed(list(enumerate(vals)))}

def operand_texts(ty, bits, enums):
    if ty == "enumtype":
        t = enums[bits]
        return t, t
    return src_of(ty, bits)

def make_binary(op, ta, tb, a, b):
    spec = s_binary_source(op, ta, tb, a, b)
    if spec is None:
        return None
    enums, decl = {}, ""
    if "enumtype" in (ta, tb):
        vals = [v for t, v in ((ta, a), (tb, b)) if t == "enumtype"]
        decl, enums = enum_decl(vals)
        decl += " "
    sa, sb = operand_texts(ta, a, enums), operand_texts(tb, b, enums)
    if sa is None or sb is None:
        return None
    # declared result type: what the specification says the expression's type is
    if spec[0] == "ok":
        rt = spec[1]
    else:
        ra, rb = REPR[ta], REPR[tb]
        rt = "int" if (op in ("lt", "gt", "lte", "gte", "eq", "neq") or ra not in RANK or rb not in RANK) else join(ra, rb)
    if op in ("lt", "gt", "lte", "gte", "eq", "neq", "and", "or"):
        rt_name = "bool"
    else:
        rt_name = rt
    lit = "%sfunc main() -> %s { %s %s %s }" % (decl, rt_name, sa[0], SYM[op], sb[0])
    var = "%sfunc main() -> %s { var a = %s; var b = %s; a %s b }" % (decl, rt_name, sa[1], sb[1], SYM[op])
    c = Case(kind="bin", op=op, ta=ta, tb=tb, a=a, b=b, progs={"lit": lit, "var": var}, spec=spec, rt=REPR[rt_name])
    ka = ta if ta != "enumtype" else "enumtype"
    c.model = {"run": "run %s %s %s %s %s" % (op, ta, tb, hexv(ta, a), hexv(tb, b))}
    if spec == ("ub",):
        c.stream = "ub"
    return c

def make_unary(op, ta, a):
    if op == "neg" and ta not in ("int", "long", "float", "double", "enumtype"):
        return None
    if op == "not" and ta != "bool":
        return None
    if op == "bin_not" and ta not in ("int", "long", "enumtype"):
        return None
    enums, decl = {}, ""
    if ta == "enumtype":
        decl, enums = enum_decl([a])
        decl += " "
    sa = operand_texts(ta, a, enums)
    if sa is None:
        return None
    spec = s_un(REPR[ta], op, a)
    rt_name = "bool" if op == "not" else REPR[ta]
    lit = "%sfunc main() -> %s { %s%s }" % (decl, rt_name, UNSYM[op], sa[0])
    var = "%sfunc main() -> %s { var a = %s; %sa }" % (decl, rt_name, sa[1], UNSYM[op])
    c = Case(kind="un", op=op, ta=ta, tb=None, a=a, b=0, progs={"lit": lit, "var": var}, spec=spec, rt=REPR[rt_name])
    c.model = {"run": "run %s %s - %s -" % (op, ta, hexv(ta, a))}
    return c

def make_conv(dst, src, b):
    """implicit conversion of a call argument (param_expr_cmp): the literal form is folded by expr_conv_constred, the
    variable form runs the VM's <src>_to_<dst>  (the conversion at `return` is never folded: both forms run the VM there)"""
    sb = src_of(src, b)
    if sb is None:
        return None
    lit = "func f(x : %s) -> %s { x } func main() -> %s { f(%s) }" % (dst, dst, dst, sb[0])
    var = "func f(x : %s) -> %s { x } func main() -> %s { var y = %s; f(y) }" % (dst, dst, dst, sb[1])
    c = Case(kind="conv", op="conv", ta=dst, tb=src, a=0, b=b, progs={"lit": lit, "var": var}, spec=("ok", dst, s_conv(src, dst, b)))
    c.model = {"run": "param %s %s %s" % (dst, src, hexv(src, b))}
    return c

def make_ass(dst, src, b):
    sb = src_of(src, b)
    zero = {"int": "0", "long": "0L", "float": "0.0", "double": "0.0d"}[dst]
    if sb is None:
        return None
    var = "func main() -> %s { var x = %s; var y = %s; x = y; x }" % (dst, zero, sb[1])
    lit = "func main() -> %s { var x = %s; x = %s; x }" % (dst, zero, sb[0])
    c = Case(kind="ass", op="ass", ta=dst, tb=src, a=0, b=b, progs={"lit": lit, "var": var}, spec=("ok", dst, s_conv(src, dst, b)))
    c.model = {"run": "ass %s %s %s" % (dst, src, hexv(src, b))}
    return c

PRINTFN = {"int": "print", "long": "printl", "float": "printf", "double": "printd"}

def make_fmt(ty, a):
    sa = src_of(ty, a)
    if sa is None:
        return None
    want = fmt_spec(ty, a)
    lit = 'func main() -> int { prints("[" + %s + "]"); 0 }' % sa[0]
    var = 'func main() -> int { var a = %s; prints("[" + a + "]"); prints(a + "|"); %s(a); 0 }' % (sa[1], PRINTFN[ty])
    c = Case(kind="fmt", op="fmt", ta=ty, tb=None, a=a, b=0, progs={"lit": lit, "var": var}, spec=("str", want))
    c.model = {"run": "fmt %s" % hexv(ty, a)}
    return c

def make_enumred(op, a, b):
    """enumerator value expressions are folded by front/enumred.c at declaration time; forward references included"""
    if op in SYM:
        e = "0x%08x %s 0x%08x" % (a & M32, SYM[op], b & M32)
        spec = s_bin("int", op, a, b)
    else:
        e = "%s0x%08x" % (UNSYM[op], a & M32)
        spec = s_un("int", op, a)
    if spec[0] == "ok" and spec[1] != "int":
        return None
    if op in ("lt", "gt", "lte", "gte", "eq", "neq", "and", "or", "not"):
        return None   # a bool is not an enumerator value
    # the enumerator's value observed directly, and through a FORWARD reference from an earlier enumerator
    src = "enum E { C = %s } func main() -> int { var a = E::C; a + 0 }" % e
    fwd = "enum E { A = E::C + 1, C = %s } func main() -> int { var a = E::A; a - 1 }" % e
    c = Case(kind="enumred", op=op, ta="int", tb="int", a=a, b=b, progs={"lit": src, "fwd": fwd}, spec=spec)
    c.model = {"fold": "fold enumred %s int %s %s %s" % (op, "int" if op in SYM else "-", hexv("int", a), hexv("int", b) if op in SYM else "-")}
    return c

def fold_query(c):
    """the `fold` line for the literal form of a case"""
    if c.kind == "bin":
        return "foldsrc %s %s %s %s %s" % (c.op, c.ta, c.tb, hexv(c.ta, c.a), hexv(c.tb, c.b))
    if c.kind == "un":
        return "foldsrc %s %s - %s -" % (c.op, c.ta, hexv(c.ta, c.a))
    return None

def gen_cases(rng, tier, which):
    """which: 'C10' (literal vs variable form) or 'C11' (variable form vs S) — both generate the same families,
    budgets differ"""
    cases = []
    quick = tier == "quick"
    nrand = 6 if quick else 150
    for op in BINOPS + ["and", "or"]:
        for ta, tb in admitted_pairs(op):
            ca, cb = CORNERS[ta], CORNERS[tb]
            pairs = set()
            if quick:
                # every corner of each side at least once (partner chosen by the seed) + the classic trouble makers
                r = rng.fork()
                for x in ca:
                    pairs.add((x, r.choice(cb)))
                for y in cb:
                    pairs.add((r.choice(ca), y))
                for x, y in ((0x80000000, M32), (1 << 63, M64), (1 << 32, 2), (7, 0), (1, 1 << 32), (3, 3 << 32), (1, 0)):
                    if x in ca and y in cb:
                        pairs.add((x, y))
            else:
                for x in ca:
                    for y in cb:
                        pairs.add((x, y))
            r2 = rng.fork()
            for _ in range(nrand):
                pairs.add((rand_value(r2, ta), rand_value(r2, tb)))
            for x, y in sorted(pairs):
                c = make_binary(op, ta, tb, x, y)
                if c is not None:
                    cases.append(c)
    for op in ("neg", "not", "bin_not"):
        for ta in ("bool", "int", "long", "float", "double", "enumtype"):
            vals = list(CORNERS[ta])
            r2 = rng.fork()
            vals += [rand_value(r2, ta) for _ in range(nrand)]
            for x in vals:
                c = make_unary(op, ta, x)
                if c is not None:
                    cases.append(c)
    for dst in NUMERIC:
        for src in NUMERIC:
            vals = list(CORNERS[src])
            r2 = rng.fork()
            vals += [rand_value(r2, src) for _ in range(nrand * 2)]
            for x in vals:
                for mk in (make_conv, make_ass):
                    c = mk(dst, src, x)
                    if c is not None:
                        cases.append(c)
    for ty in NUMERIC:
        vals = list(CORNERS[ty])
        r2 = rng.fork()
        vals += [rand_value(r2, ty) for _ in range(nrand * 2)]
        for x in vals:
            c = make_fmt(ty, x)
            if c is not None:
                cases.append(c)
    r3 = rng.fork()
    for op in ["add", "sub", "mul", "div", "mod", "bin_and", "bin_or", "bin_xor", "bin_shl", "bin_shr", "neg", "bin_not"]:
        vs = [(7, 3), (M32, 2), (0x7fffffff, 1), (5, 0), (1 << 20, 1 << 12), (0x80000000, 1)]
        vs += [(rand_value(r3, "int"), rand_value(r3, "int")) for _ in range(3 if quick else 20)]
        for x, y in vs:
            c = make_enumred(op, x, y)
            if c is not None:
                if c.spec == ("ub",):
                    c.stream = "ub"
                cases.append(c)
    return cases

# ------------------------------------------------------------------ running things

def run_programs(exe, sources, workers=6):
    """-> list of outcome strings in order"""
    n = len(sources)
    if n == 0:
        return []
    workers = max(1, min(workers, n // 50 + 1))
    chunks = [sources[i::workers] for i in range(workers)]
    def one(chunk):
        inp = "".join(s.replace("\n", "\x01") + "\n" for s in chunk)
        p = subprocess.run([exe], input=inp, stdout=subprocess.PIPE, stderr=subprocess.DEVNULL, text=True)
        lines = p.stdout.split("\n")
        return [lines[i] if i < len(lines) and lines[i] else "exit harness-died" for i in range(len(chunk))]
    with ThreadPoolExecutor(max_workers=workers) as ex:
        res = list(ex.map(one, chunks))
    out = [None] * n
    for w, r in enumerate(res):
        for j, v in enumerate(r):
            out[w + j * workers] = v
    return out

def query_model(lines):
    if not lines:
        return []
    p = subprocess.run([NMDRV, "num"], input="\n".join(lines) + "\n", stdout=subprocess.PIPE, stderr=subprocess.PIPE, text=True)
    out = p.stdout.split("\n")
    return [out[i] if i < len(out) and out[i] != "" else "<no answer>" for i in range(len(lines))]

def canon_val(tv):
    """'float:7fc00001' -> NaNs of one type are one value"""
    t, h = tv.split(":")
    b = int(h, 16) if h not in ("nil",) else 0
    if t == "float" and isnan32(b):
        return "float:nan"
    if t == "double" and isnan64(b):
        return "double:nan"
    return tv

def canon_impl(line):
    """harness outcome -> canonical tuple; printed text separately"""
    main, _, rest = line.partition(" out=")
    out_hex = rest.split(" ")[0] if rest else ""
    w = main.split()
    if not w:
        return ("exit", "?"), ""
    if w[0] == "ok":
        return ("ok", canon_val(w[1])), out_hex
    if w[0] == "exc":
        return ("exc", w[1]), out_hex
    if w[0] == "cfail":
        return ("cfail", w[1]), out_hex
    if w[0] == "signal":
        return ("signal", w[1]), out_hex
    return ("exit", " ".join(w[1:])), out_hex

def canon_spec(spec):
    if spec is None:
        return None
    if spec[0] == "ok":
        return ("ok", canon_val("%s:%0*x" % (spec[1], WIDTH[spec[1]] // 4, spec[2])))
    if spec[0] == "exc":
        return ("exc", str(spec[1]))
    if spec[0] == "trap":
        return ("signal", "8")
    return ("ub",)

def canon_run(ans):
    """nmdrv `run`/`ass`/`param` answer -> canonical"""
    w = ans.split()
    if not w:
        return ("?",)
    if w[0] == "ok":
        return ("ok", canon_val(w[1]))
    if w[0] == "exc":
        return ("exc", w[1])
    if w[0] == "tag":
        return ("signal", "6")
    if w[0] == "crash":
        if "SIGFPE" in ans:
            return ("signal", "8")
        if "shift count" in ans:
            return ("ub",)
        if "EMIT_FAIL" in ans:
            return ("noopcode",)
        if "rejected" in ans:
            return ("cfail", "other")
        return ("crash", ans)
    if w[0] == "rejected":
        return ("cfail", "other")
    return ("?", ans)

def canon_fold(ans):
    w = ans.split()
    if not w:
        return ("?",)
    if w[0] == "folded":
        return ("ok", canon_val(w[2]))
    if w[0] == "divzero":
        return ("cfail", "divzero")
    if w[0] == "nofold":
        return ("nofold",)
    if w[0] == "crash":
        if "SIGFPE" in ans:
            return ("signal", "8")
        if "shift count" in ans:
            return ("ub",)
        return ("crash", ans)
    return ("?", ans)

def same(impl, model):
    """implementation outcome vs model outcome"""
    if model[0] == "noopcode":
        # EMIT_FAIL: assert(0) in an asserts-on build, a compile error otherwise
        return impl in (("signal", "6"), ("cfail", "other"))
    return impl == model

def signature(pid, c, form, impl_lit, impl_var):
    """signature of a known class of pinned-tree defects this discrepancy belongs to, else None"""
    enumop = "enumtype" in (c.ta, c.tb)
    if c.kind in ("bin", "enumred") and c.op in ("div", "mod") and impl_lit == ("signal", "8") and c.spec == ("trap",):
        return "constred-sigfpe-min-div-minus1"      # (MIN, -1) after promotion
    spec = canon_spec(c.spec) if c.kind != "fmt" else None
    if c.kind == "bin" and c.op == "mul" and REPR[c.ta] in ("int", "long") and REPR[c.tb] in ("int", "long") and "long" in (c.ta, c.tb):
        # the defect predicts: operands promoted to long, then the low 32 bits of each (as int) multiplied in 64 bits
        x = sint(s_conv(REPR[c.ta], "long", c.a) & M32, 32)
        y = sint(s_conv(REPR[c.tb], "long", c.b) & M32, 32)
        if impl_lit == ("ok", "long:%016x" % ((x * y) & M64)) and (impl_var is None or impl_var == spec):
            return "constred-long-mul-int-value"
    if c.kind == "bin" and c.op == "neq" and c.ta == "bool" and c.tb == "bool":
        if (impl_lit is None or impl_lit == spec) and impl_var == ("ok", "int:%08x" % int(c.a == c.b)):
            return "emit-neq-bool-uses-eq"
    if c.kind == "bin" and enumop and c.op in ("lt", "gt", "lte", "gte", "eq", "neq", "mod") and not (c.op == "eq" and c.ta == c.tb):
        lit_ok = impl_lit is None or impl_lit == spec or (spec == ("exc", "1") and impl_lit == ("cfail", "divzero")) \
                 or (spec == ("signal", "8") and impl_lit == ("signal", "8"))
        if impl_var in (("signal", "6"), ("cfail", "other")) and lit_ok:
            return "emit-enum-compare-no-opcode"
    if c.kind == "ass" and c.ta == "int" and c.tb == "double" and impl_var == ("signal", "6"):
        return "ass-matrix-int-double"
    return None

def describe(c):
    return "%s %s (%s%s) a=%s%s" % (c.kind, c.op, c.ta, "," + c.tb if c.tb else "", hexv(c.ta, c.a) if c.kind not in ("conv", "ass") else "-",
                                     " b=" + hexv(c.tb, c.b) if c.tb else "")

class Corr:
    """one run of the stream; results cached so that the search after a broken proof and the correspondence stage share it"""
    def __init__(self, pid, tier, seed):
        self.pid, self.tier, self.seed = pid, tier, seed
        self.done = False
        self.info = None

    def prepare(self):
        self.info, self.changed, self.gen_stats, self.tie_error = regenerate()
        self.dir = scratch_dir("num")
        self.exe = buildimpl.link_harness(self.info, os.path.join(VERIF, "harness", "h_num.c"), os.path.join(self.dir, "h_num"))

    def run(self):
        if self.done:
            return
        rng = Rng(self.seed)
        cases = gen_cases(rng, self.tier, self.pid)
        srcs, idx = [], []
        for ci, c in enumerate(cases):
            for form in ("lit", "var", "fwd"):
                if form in c.progs:
                    if self.pid == "C11" and form == "lit" and c.kind not in ("fmt", "conv", "ass"):
                        continue        # C11 observes the run-time side; the literal side is C10's
                    srcs.append(c.progs[form]); idx.append((ci, form))
        outs = run_programs(self.exe, srcs)
        self.impl = {}
        for (ci, form), o in zip(idx, outs):
            self.impl[(ci, form)] = canon_impl(o)
        qs, qidx = [], []
        for ci, c in enumerate(cases):
            for k, q in c.model.items():
                qs.append(q); qidx.append((ci, k))
            fq = fold_query(c)
            if fq:
                qs.append(fq); qidx.append((ci, "fold"))
            if c.kind in ("conv", "ass") and c.ta != c.tb:
                qs.append("foldconv %s %s %s %s" % (c.tb, c.ta, c.tb, hexv(c.tb, c.b))); qidx.append((ci, "fold"))
        qs.append("known"); qidx.append((-1, "known"))
        ans = query_model(qs)
        self.model = {}
        for k, a in zip(qidx, ans):
            self.model[k] = a
        # the declared result type of main() is the SPECIFIED type of the expression; where the implementation's typing
        # differs, the return statement converts (param_expr_cmp): apply the same conversion to the model's prediction
        fix, fidx = [], []
        for ci, c in enumerate(cases):
            if c.rt is None:
                continue
            for k in ("run", "fold"):
                a = self.model.get((ci, k), "")
                w = a.split()
                tv = w[1] if (w and w[0] == "ok") else (w[2] if (w and w[0] == "folded") else None)
                if tv is None:
                    continue
                t = tv.split(":")[0]
                if t != c.rt and t in RANK and c.rt in RANK:
                    if k == "fold":
                        fix.append("foldconv %s %s %s %s" % (t, c.rt, t, tv))
                    else:
                        fix.append("param %s %s %s" % (c.rt, t, tv))
                    fidx.append((ci, k))
        for k, a in zip(fidx, query_model(fix)):
            if k[1] == "fold" and a.startswith("nofold"):
                continue
            self.model[k] = a
        self.known_present = dict(x.split("=") for x in self.model.get((-1, "known"), "").split() if "=" in x)
        self.cases = cases
        self.nprogs = len(srcs)
        self.done = True

    # -------------------------------------------------------------- evaluation
    def evaluate(self, rep):
        """reports violations / findings for self.pid; returns stats"""
        self.run()
        st = dict(cases=len(self.cases), programs=self.nprogs, by_kind={}, outcomes={}, a_diff=0, b_diff=0, tie_diff=0, ub_stream=0,
                  findings={}, samples=[])
        viol = 0
        first_failing = None
        for ci, c in enumerate(self.cases):
            st["by_kind"][c.kind] = st["by_kind"].get(c.kind, 0) + 1
            lit = self.impl.get((ci, "lit"))
            var = self.impl.get((ci, "var"))
            il, iv = (lit[0] if lit else None), (var[0] if var else None)
            for x in (il, iv):
                if x:
                    st["outcomes"][x[0]] = st["outcomes"].get(x[0], 0) + 1
            if c.stream == "ub":
                st["ub_stream"] += 1
                continue
            spec = canon_spec(c.spec) if c.kind != "fmt" else None
            run_m = canon_run(self.model.get((ci, "run"), "")) if (ci, "run") in self.model and c.kind != "fmt" else None
            fold_m = canon_fold(self.model.get((ci, "fold"), "")) if (ci, "fold") in self.model else None
            if len(st["samples"]) < 6 and ci % 701 == 11:
                st["samples"].append(dict(case=describe(c), lit=str(il), var=str(iv), spec=str(spec), model_run=str(run_m), model_fold=str(fold_m)))
            problems = []
            if c.kind == "fmt":
                want = c.spec[1]
                mtxt = self.model.get((ci, "run"), "")[4:]
                lit_txt = bytes.fromhex(lit[1]).decode("latin1") if lit else None
                var_txt = bytes.fromhex(var[1]).decode("latin1") if var else None
                exp_lit = "[%s]" % want
                exp_var = "[%s]%s|%s\r\n" % (want, want, want)
                if self.pid == "C11":
                    if lit_txt != exp_lit or var_txt != exp_var:
                        problems.append(("b", "formatting: expected %r / %r, implementation printed %r / %r" % (exp_lit, exp_var, lit_txt, var_txt)))
                    if mtxt != want:
                        problems.append(("tie", "formatting model says %r, C printf says %r" % (mtxt, want)))
                else:
                    if lit_txt is not None and var_txt is not None and not var_txt.startswith(lit_txt):
                        problems.append(("a", "literal form printed %r, variable form %r" % (lit_txt, var_txt)))
            else:
                if self.pid == "C10" and il is not None and iv is not None:
                    # (a) the property itself: the two forms behave alike; a compile-time division-by-zero report
                    # corresponds to the run-time exception 1
                    ok = (il == iv) or (il == ("cfail", "divzero") and iv == ("exc", "1"))
                    if il == ("signal", "8"):
                        ok = False      # the COMPILER died
                    if not ok:
                        problems.append(("a", "literal form: %s ; variable form: %s" % (il, iv)))
                    if fold_m is not None and fold_m[0] == "nofold":
                        fold_m = run_m          # not reduced: the literal form runs the same code as the variable form
                    if c.kind == "ass" and run_m is not None and run_m[0] != "ok":
                        fold_m = run_m          # the assignment opcode itself faults, whatever the folded right side is
                    if fold_m is not None and fold_m[0] != "ub" and not same(il, fold_m):
                        problems.append(("tie", "Gen/ConstRed says the literal form gives %s, the compiler gives %s" % (fold_m, il)))
                    if run_m is not None and run_m[0] != "ub" and not same(iv, run_m):
                        problems.append(("tie", "generated run-time tables say %s, the implementation gives %s" % (run_m, iv)))
                if self.pid == "C10" and c.kind == "enumred" and il is not None:
                    if spec is not None and spec[0] == "ok" and il != spec:
                        problems.append(("a", "enumerator value folded to %s, the VM would compute %s" % (il, spec)))
                    if spec is not None and spec[0] == "exc" and il != ("cfail", "divzero"):
                        problems.append(("a", "enumerator value with zero divisor: %s" % (il,)))
                    if spec is not None and spec[0] == "signal" and il == ("signal", "8"):
                        problems.append(("a", "enumerator value MIN / -1 kills the compiler"))
                    if fold_m is not None and fold_m[0] not in ("nofold", "ub") and not same(il, fold_m):
                        problems.append(("tie", "Gen/ConstRed(enumred) says %s, the compiler gives %s" % (fold_m, il)))
                    fw = self.impl.get((ci, "fwd"))
                    if fw is not None and spec is not None and spec[0] == "ok" and fw[0] != spec:
                        problems.append(("a", "enumerator referenced before its definition evaluates to %s (+1-1), its value is %s" % (fw[0], spec)))
                if self.pid == "C11" and iv is not None:
                    # (b) run-time result vs the specification of the property (fixed-width numbers, promotion order)
                    if spec is not None and spec[0] != "ub" and iv != spec:
                        problems.append(("b", "specification: %s ; implementation (operands in variables): %s" % (spec, iv)))
                    if run_m is not None and run_m[0] != "ub" and not same(iv, run_m):
                        problems.append(("tie", "generated tables (typing rule -> opcode -> handler) say %s, the implementation gives %s" % (run_m, iv)))
                    if c.kind in ("conv", "ass") and il is not None and spec is not None and il != spec:
                        problems.append(("b", "specification: %s ; implementation (literal converted at compile time): %s" % (spec, il)))
            if not problems:
                continue
            sig = signature(self.pid, c, None, il, iv)
            kinds = set(k for k, _ in problems)
            if "a" in kinds:
                st["a_diff"] += 1
            if "b" in kinds:
                st["b_diff"] += 1
            if sig is not None and ("a" in kinds or "b" in kinds):
                # a listed defect of the pinned tree; the tie must still hold there (tables predict the defect)
                st["findings"][sig] = st["findings"].get(sig, 0) + 1
                if st["findings"][sig] > 1:
                    if "tie" not in kinds:
                        continue
                txt = "%s\n%s\n--- programs ---\n%s" % (describe(c), "\n".join(m for _, m in problems), "\n".join("%s\t%s" % kv for kv in c.progs.items()))
                if st["findings"][sig] == 1:
                    if rep.finding(sig, txt) and hasattr(rep, "replay_path"):
                        with open(rep.replay_path("known_" + sig), "w") as fh:     # witness of the known finding, replayable
                            fh.write("# KNOWN FINDING %s (witness found by this run)\n%s\n" % (sig, txt))
                if "tie" not in kinds:
                    continue
                problems = [p for p in problems if p[0] == "tie"]
                kinds = {"tie"}
            if kinds == {"tie"}:
                st["tie_diff"] += 1
            viol += 1
            if first_failing is None and ("a" in kinds or "b" in kinds):
                first_failing = (c, problems)
            if viol <= 4:
                found = ("a" in kinds) or ("b" in kinds)
                head = ("# %s fails on the implementation (concrete operands below)" % self.pid) if found else \
                       "# correspondence between the generated tables / model and the implementation is broken (tie of %s)" % self.pid
                txt = "%s\n# %s\n%s\n# replay: each program below on one line to harness/h_num (NEVER_REPO tree)\n%s" % (
                    head, describe(c), "\n".join("# " + m for _, m in problems), "\n".join("%s\t%s" % kv for kv in c.progs.items()))
                rep.violation("num_%s_%d" % (c.kind, ci), txt, found)
        st["violating_cases"] = viol
        st["distinct_cases"] = len(set((c.kind, c.op, c.ta, c.tb, c.a, c.b) for c in self.cases))
        self.first_failing = first_failing
        return st

    def search(self):
        """after a broken proof: concrete operands on which the PROPERTY fails on the real implementation"""
        self.run()
        class Quiet:
            def __init__(s): s.f = []
            def finding(s, sig, txt): return True
            def violation(s, tag, txt, found=True):
                if found: s.f.append(txt)
        q = Quiet()
        self.evaluate(q)
        return q.f[0] if q.f else None

    def cleanup(self):
        if getattr(self, "dir", None):
            shutil.rmtree(self.dir, ignore_errors=True)


def replay_file(path):
    """re-run the programs of a replay file on the CURRENT tree (NEVER_REPO) and print their outcomes"""
    txt = open(path).read()
    print(txt)
    progs = [l.split("\t", 1) for l in txt.split("\n") if "\t" in l and l.split("\t", 1)[0] in ("lit", "var", "fwd")]
    if not progs:
        return 0
    info = buildimpl.build("plain")
    d = scratch_dir("numreplay")
    try:
        exe = buildimpl.link_harness(info, os.path.join(VERIF, "harness", "h_num.c"), os.path.join(d, "h_num"))
        outs = run_programs(exe, [p[1] for p in progs], workers=1)
        res = {}
        for (form, src), o in zip(progs, outs):
            print("--- %s form on the current tree: %s" % (form, o.split(" out=")[0]))
            res[form] = canon_impl(o)[0]
        if "lit" in res and "var" in res:
            same_ = res["lit"] == res["var"] or (res["lit"] == ("cfail", "divzero") and res["var"] == ("exc", "1"))
            print("literal and variable form %s" % ("AGREE" if same_ and res["lit"] != ("signal", "8") else "DIFFER (or the compiler died)"))
            return 0 if same_ else 1
        return 0
    finally:
        shutil.rmtree(d, ignore_errors=True)
