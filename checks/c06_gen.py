"""C06 — seeded type-directed GENERATOR of well-typed core programs, PRINTER (Never source text with
the parser's line convention + the s-expression AST read by `nmdrv tc`), and the catalogue of
single-fault MUTATORS.  Everything random comes from the Rng passed in.

Types (python side): 'bool' 'int' 'long' 'float' 'double' 'char' 'string',
('rec', R), ('enum', E), ('fn', ((cst, ty), ...), rcst, rty), ('arr', ecst, ety); cst in 'd','c','v'
(as written: default / let / var).  D11: ('tup', ((cst, ty), ...)) tuples, ('arrn', n, ecst, ety) arrays of n >= 2
dimensions, ('rng', n) ranges, ('slc', n, ecst, ety) slices (the last three only as types of local bindings).
"""

SCAL = ['bool', 'int', 'long', 'float', 'double', 'char', 'string']
NUM = ['int', 'long', 'float', 'double']
NUMRANK = {'int': 0, 'long': 1, 'float': 2, 'double': 3}
EXC_NAMES = ["index_out_of_bounds", "wrong_array_size", "division_by_zero", "invalid_domain", "overflow",
             "underflow", "inexact", "nil_pointer", "ffi_fail"]
BINSYM = {'add': '+', 'sub': '-', 'mul': '*', 'div': '/', 'mod': '%', 'lt': '<', 'gt': '>', 'lte': '<=',
          'gte': '>=', 'eq': '==', 'neq': '!=', 'and': '&&', 'or': '||', 'band': '&&&', 'bor': '|||',
          'bxor': '^^^', 'shl': '<<<', 'shr': '>>>'}
UNSYM = {'neg': '-', 'not': '!', 'bnot': '~~~'}


class N:
    """expression / item node"""
    def __init__(self, k, *a, ty=None, cst='temp', **kw):
        self.k, self.a, self.ln, self.ty, self.cst = k, list(a), 0, ty, cst
        self.style = kw.get('style')
        self.body = kw.get('body', False)


class P:
    def __init__(self, name, cst, ty, bounds=None):
        self.name, self.cst, self.ty, self.ln = name, cst, ty, 0
        self.bounds = bounds or []      # [[name, ln]]: bound names of a range / slice parameter, `var int`s of the function


class X:
    def __init__(self, name, body):
        self.name, self.body, self.ln = name, body, 0


class F:
    def __init__(self, name, params, rc, rty, body, excs=None):
        self.name, self.params, self.rc, self.rty, self.body, self.excs = name, params, rc, rty, body, excs or []
        self.ln = 0
        self.k = 'func'


class D:
    def __init__(self, k, name, items):
        self.k, self.name, self.items, self.ln = k, name, items, 0   # enum: items [[name, ln]]; record: [P]


class Prog:
    def __init__(self, decls, funcs):
        self.decls, self.funcs = decls, funcs


ATOMIC = {'ctor', 'b', 'i', 'l', 'f', 'd', 'c', 's', 'id', 'call', 'sup', 'seq', 'attr', 'deref', 'ev', 'proj', 'slice', 'range'}


def atom(e):
    if e.k in ATOMIC:
        return e
    return N('sup', e, ty=e.ty, cst=e.cst)


def norm_c(c):   # parameter / result: default -> const
    return 'c' if c == 'd' else c


def norm_v(c):   # array element / field / comprehension result: default -> var
    return 'v' if c == 'd' else c


def cst_of_p(c):  # PCst.toCst
    return 'var' if c == 'v' else 'const'


def resolved(t):
    """type with every nested default constness made explicit (what param_check_type leaves)"""
    if isinstance(t, str):
        return t
    if t[0] == 'fn':
        return ('fn', tuple((norm_c(c), resolved(x)) for c, x in t[1]), norm_c(t[2]), resolved(t[3]))
    if t[0] == 'arr':
        return ('arr', norm_v(t[1]), resolved(t[2]))
    if t[0] == 'arrn':
        return ('arrn', t[1], norm_v(t[2]), resolved(t[3]))
    if t[0] == 'slc':
        return ('slc', t[1], norm_v(t[2]), resolved(t[3]))
    if t[0] == 'tup':
        # the constness of members is not part of a tuple type (param_list_cmp with const_cmp = false)
        return ('tup', tuple(('x', resolved(x)) for c, x in t[1]))
    return t


def ty_eq(a, b):
    return resolved(a) == resolved(b)


def resolved_members(t):
    """a tuple type with its member types resolved but the members' constness kept as written"""
    return ('tup', tuple((c, resolved(x)) for c, x in t[1]))


# ------------------------------------------------------------------ printer

class Printer:
    """emits source text and assigns every node the line the parser gives it"""
    def __init__(self, rng=None, start_line=1):
        self.out, self.line, self.rng, self.ind = [], start_line, rng, 0
        self.dimc = 0

    def w(self, s):
        self.out.append(s)

    def nl(self):
        self.out.append("\n" + "    " * self.ind)
        self.line += 1

    def maybe_nl(self, p=0.2):
        if self.rng is not None and self.rng.chance(p):
            self.nl()
        else:
            self.w(" ")

    # ---- types
    def pdecl(self, name, t, p=None):
        """param_decl with optional name"""
        if not isinstance(t, str) and t[0] in ('rng', 'slc'):
            # name[a .. b, c .. d] : range      name[a .. b] : T      (without bound names: [ .. ] : …)
            n = t[1]
            bs = p.bounds if p is not None and p.bounds else None
            self.w((name or "") + "[")
            for i in range(n):
                if i:
                    self.w(", ")
                if bs:
                    bs[2 * i][1] = bs[2 * i + 1][1] = self.line
                    self.w("%s .. %s" % (bs[2 * i][0], bs[2 * i + 1][0]))
                else:
                    self.w("..")
            self.w("] : ")
            if t[0] == 'rng':
                self.w("range")
            else:
                self.param(None, t[2], t[3])
            return
        if isinstance(t, str):
            self.w((name + " : " if name else "") + t)
        elif t[0] in ('rec', 'enum'):
            self.w((name + " : " if name else "") + t[1])
        elif t[0] == 'fn':
            self.w((name or "") + "(")
            for i, (c, x) in enumerate(t[1]):
                if i:
                    self.w(", ")
                self.param(None, c, x)
            self.w(") -> ")
            self.param(None, t[2], t[3])
        elif t[0] == 'arr':
            self.dimc += 1
            self.w((name or "") + "[_d%d] : " % self.dimc)
            self.param(None, t[1], t[2])
        elif t[0] == 'arrn':
            ds = []
            for _ in range(t[1]):
                self.dimc += 1
                ds.append("_d%d" % self.dimc)
            self.w((name or "") + "[%s] : " % ", ".join(ds))
            self.param(None, t[2], t[3])
        elif t[0] == 'tup':
            self.w((name + " : " if name else "") + "(")
            for i, (c, x) in enumerate(t[1]):
                if i:
                    self.w(", ")
                self.param(None, 'd' if c == 'x' else c, x)
            self.w(")")
        else:
            raise ValueError(t)

    def param(self, name, c, t, p=None):
        if c == 'c':
            self.w("let ")
        elif c == 'v':
            self.w("var ")
        self.pdecl(name, t, p)

    def sx_ty(self, t, ln):
        if isinstance(t, str):
            return t
        if t[0] in ('rec', 'enum'):
            return "(n %d %s)" % (ln, t[1])
        if t[0] == 'fn':
            return "(fn (%s) %s %s)" % (" ".join("(%s %s)" % (c, self.sx_ty(x, ln)) for c, x in t[1]), t[2], self.sx_ty(t[3], ln))
        if t[0] == 'arr':
            return "(arr %s %s)" % (t[1], self.sx_ty(t[2], ln))
        if t[0] == 'arrn':
            return "(arrn %d %s %s)" % (t[1], t[2], self.sx_ty(t[3], ln))
        if t[0] == 'tup':
            return "(tup%s)" % "".join(" (%s %s)" % ('d' if c == 'x' else c, self.sx_ty(x, ln)) for c, x in t[1])
        if t[0] == 'rng':
            return "(rng %d)" % t[1]
        if t[0] == 'slc':
            return "(slc %d %s %s)" % (t[1], t[2], self.sx_ty(t[3], ln))
        raise ValueError(t)

    # ---- expressions; returns the s-expression
    def exprs(self, es, sep=", "):
        r = []
        for i, e in enumerate(es):
            if i:
                self.w(",")
                self.maybe_nl(0.15)
            r.append(self.expr(e))
        return " ".join(r)

    def expr(self, e):
        k = e.k
        if k in ('b', 'i', 'l', 'f', 'd', 'c', 's'):
            e.ln = self.line
            self.w(e.a[0])
            return "(%s %d)" % (k, e.ln)
        if k == 'id':
            e.ln = self.line
            self.w(e.a[0])
            return "(id %d %s)" % (e.ln, e.a[0])
        if k == 'ev':
            e.ln = self.line
            s = self.expr(e.a[0])
            self.w("::" + e.a[1])
            return "(ev %d %s %s)" % (e.ln, s, e.a[1])
        if k == 'un':
            e.ln = self.line
            self.w(UNSYM[e.a[0]] + " ")
            s = self.expr(e.a[1])
            return "(un %d %s %s)" % (e.ln, e.a[0], s)
        if k == 'bin':
            l = self.expr(e.a[1])
            self.maybe_nl(0.2)
            e.ln = self.line
            self.w(BINSYM[e.a[0]])
            self.maybe_nl(0.1)
            r = self.expr(e.a[2])
            return "(bin %d %s %s %s)" % (e.ln, e.a[0], l, r)
        if k == 'sup':
            e.ln = self.line
            self.w("(")
            s = self.expr(e.a[0])
            self.w(")")
            return "(sup %d %s)" % (e.ln, s)
        if k == 'cond':
            if e.style == 'if':
                e.ln = self.line
                self.w("if (")
                c = self.expr(e.a[0])
                self.w(")")
                self.maybe_nl(0.3)
                t = self.expr(e.a[1])
                self.maybe_nl(0.3)
                self.w("else")
                self.maybe_nl(0.3)
                f = self.expr(e.a[2])
            else:
                c = self.expr(e.a[0])
                self.maybe_nl(0.2)
                e.ln = self.line
                self.w("? ")
                t = self.expr(e.a[1])
                self.w(" : ")
                f = self.expr(e.a[2])
            return "(cond %d %s %s %s)" % (e.ln, c, t, f)
        if k == 'ctor':
            e.ln = self.line
            self.w("%s::%s(" % (e.a[0], e.a[1]))
            a = self.exprs(e.a[2])
            self.w(")")
            return "(ctor %d (id %d %s) %s%s)" % (e.ln, e.ln, e.a[0], e.a[1], (" " + a) if a else "")
        if k == 'ifletrec':
            # a = [en, it, binds, e, t, f]
            e.ln = self.line
            self.w("if let (")
            gl = self.line
            for b in e.a[2]:
                b[1] = gl
            self.w("%s::%s(%s) = " % (e.a[0], e.a[1], ", ".join(b[0] for b in e.a[2])))
            x = self.expr(e.a[3])
            self.w(")")
            self.maybe_nl(0.3)
            t = self.expr(e.a[4])
            self.maybe_nl(0.3)
            self.w("else")
            self.maybe_nl(0.3)
            f = self.expr(e.a[5])
            return "(ifletrec %d %d %s %s (%s) %s %s %s)" % (e.ln, gl, e.a[0], e.a[1], " ".join("(%d %s)" % (b[1], b[0]) for b in e.a[2]), x, t, f)
        if k == 'iflet':
            # if let (En::it = e) t else f     a = [en, it, e, t, f]; the guard and the expression at the `if` line's successors
            e.ln = self.line
            self.w("if let (")
            gl = self.line
            self.w("%s::%s = " % (e.a[0], e.a[1]))
            x = self.expr(e.a[2])
            self.w(")")
            self.maybe_nl(0.3)
            t = self.expr(e.a[3])
            self.maybe_nl(0.3)
            self.w("else")
            self.maybe_nl(0.3)
            f = self.expr(e.a[4])
            return "(iflet %d %d %s %s %s %s %s)" % (e.ln, gl, e.a[0], e.a[1], x, t, f)
        if k == 'ass':
            l = self.expr(e.a[0])
            self.maybe_nl(0.15)
            e.ln = self.line
            self.w("= ")
            r = self.expr(e.a[1])
            return "(ass %d %s %s)" % (e.ln, l, r)
        if k == 'while':
            e.ln = self.line
            self.w("while (")
            c = self.expr(e.a[0])
            self.w(")")
            self.maybe_nl(0.3)
            b = self.expr(e.a[1])
            return "(while %d %s %s)" % (e.ln, c, b)
        if k == 'forin':
            e.ln = self.line
            self.w("for (%s in " % e.a[0])
            a = self.expr(e.a[1])
            self.w(")")
            self.maybe_nl(0.3)
            b = self.expr(e.a[2])
            return "(forin %d %s %s %s)" % (e.ln, e.a[0], a, b)
        if k == 'call':
            f = self.expr(e.a[0])
            e.ln = e.a[0].ln
            self.w("(")
            a = self.exprs(e.a[1])
            self.w(")")
            return "(call %d %s%s)" % (e.ln, f, (" " + a) if a else "")
        if k == 'fun':
            e.ln = 0
            self.w("let ")
            return "(fun %s)" % self.func(e.a[0])
        if k == 'seq':
            return self.seq(e)
        if k == 'attr':
            e.ln = self.line
            r = self.expr(e.a[0])
            self.w("." + e.a[1])
            return "(attr %d %s %s)" % (e.ln, r, e.a[1])
        if k == 'match':
            e.ln = self.line
            self.w("match ")
            s = self.expr(e.a[0])
            self.maybe_nl(0.3)
            self.w("{")
            self.ind += 1
            gs = []
            for g in e.a[1]:
                self.nl()
                g.ln = self.line
                if g.k == 'g':
                    self.w("%s::%s -> " % (g.a[0], g.a[1]))
                    x = self.expr(g.a[2])
                    gs.append("(g %d %s %s %s)" % (g.ln, g.a[0], g.a[1], x))
                elif g.k == 'grec':
                    for b in g.a[2]:
                        b[1] = self.line
                    self.w("%s::%s(%s) -> " % (g.a[0], g.a[1], ", ".join(b[0] for b in g.a[2])))
                    x = self.expr(g.a[3])
                    gs.append("(grec %d %s %s (%s) %s)" % (g.ln, g.a[0], g.a[1], " ".join("(%d %s)" % (b[1], b[0]) for b in g.a[2]), x))
                else:
                    self.w("else -> ")
                    x = self.expr(g.a[0])
                    gs.append("(else %d %s)" % (g.ln, x))
                self.w(";")
            self.ind -= 1
            self.nl()
            self.w("}")
            return "(match %d %s%s)" % (e.ln, s, "".join(" " + g for g in gs))
        if k == 'arr':
            e.ln = self.line
            self.w("[ ")
            a = self.rows(e.a[2])
            self.w(" ] : ")
            tl = self.line
            self.param(None, e.a[0], e.a[1])
            return "(arr %d %s %s%s)" % (e.ln, e.a[0], self.sx_ty(e.a[1], tl), (" " + a) if a else "")
        if k == 'deref':
            a = self.expr(e.a[0])
            e.ln = self.line
            self.w("[")
            i = self.exprs(e.a[1])
            self.w("]")
            return "(deref %d %s %s)" % (e.ln, a, i)
        if k == 'tuple':
            # ( e1, e2 ) : ( T1, T2 )   line of '('
            e.ln = self.line
            self.w("(")
            a = self.exprs(e.a[1])
            if len(e.a[1]) == 1:
                self.w(",")
            self.w(") : (")
            tl = self.line
            ms = []
            for i, (c, x) in enumerate(e.a[0]):
                if i:
                    self.w(", ")
                self.param(None, c, x)
                ms.append("(%s %s)" % (c, self.sx_ty(x, tl)))
            self.w(")")
            return "(tuple %d (%s)%s)" % (e.ln, " ".join(ms), (" " + a) if a else "")
        if k == 'proj':
            a = self.expr(e.a[0])
            e.ln = self.line
            self.w("[%d]" % e.a[1])
            return "(proj %d %s %d %d)" % (e.ln, a, e.ln, e.a[1])
        if k == 'range':
            e.ln = self.line
            self.w("[ ")
            bs = self.bounds(e.a[0])
            self.w(" ]")
            return "(range %d %s)" % (e.ln, bs)
        if k == 'slice':
            a = self.expr(e.a[0])
            e.ln = self.line
            self.w("[")
            bs = self.bounds(e.a[1])
            self.w("]")
            return "(slice %d %s %s)" % (e.ln, a, bs)
        if k == 'pipe':
            l = self.expr(e.a[0])
            self.maybe_nl(0.2)
            e.ln = self.line
            self.w("|> ")
            f = self.expr(e.a[1])
            self.w("(")
            a = self.exprs(e.a[2])
            self.w(")")
            return "(pipe %d %s %s%s)" % (e.ln, l, f, (" " + a) if a else "")
        if k == 'lc':
            e.ln = self.line
            self.w("[ ")
            x = self.expr(e.a[0])
            self.w(" | ")
            qs = []
            for j, q in enumerate(e.a[3]):
                if j:
                    self.w("; ")
                if q.k == 'gen':
                    q.ln = self.line
                    self.w(q.a[0] + " in ")
                    s = self.expr(q.a[1])
                    qs.append("(gen %d %s %s)" % (q.ln, q.a[0], s))
                else:
                    s = self.expr(q.a[0])
                    q.ln = q.a[0].ln
                    qs.append("(flt %d %s)" % (q.ln, s))
            self.w(" ] : ")
            tl = self.line
            self.param(None, e.a[1], e.a[2])
            return "(lc %d %s %s %s %s)" % (e.ln, x, e.a[1], self.sx_ty(e.a[2], tl), " ".join(qs))
        raise ValueError(k)

    def rows(self, es):
        """elements of an array literal / of one of its rows (a row, ARRAY_SUB, has no line of its own)"""
        r = []
        for i, x in enumerate(es):
            if i:
                self.w(",")
                self.maybe_nl(0.15)
            if x.k == 'sub':
                x.ln = 0
                self.w("[ ")
                inner = self.rows(x.a[0])
                self.w(" ]")
                r.append("(sub%s)" % ((" " + inner) if inner else ""))
            else:
                r.append(self.expr(x))
        return " ".join(r)

    def bounds(self, bs):
        """flat list f1, t1, f2, t2, ..."""
        r = []
        for i in range(0, len(bs), 2):
            if i:
                self.w(", ")
            r.append(self.expr(bs[i]))
            self.w(" .. ")
            r.append(self.expr(bs[i + 1]))
        return " ".join(r)

    def seq(self, e):
        brace_line = self.line
        self.w("{")
        self.ind += 1
        items = e.a[0]
        sx = []
        last_ln = 0
        for i, it in enumerate(items):
            self.nl()
            if isinstance(it, F):
                sx.append(self.func(it))
                last_ln = it.ln
                if i + 1 < len(items):
                    self.w(";")
            elif it.k in ('let', 'var'):
                it.ln = self.line
                self.w("%s %s = " % (it.k, it.a[0]))
                s = self.expr(it.a[1])
                sx.append("(%s %d %s %s)" % (it.k, it.ln, it.a[0], s))
                last_ln = it.ln
                if i + 1 < len(items):
                    self.w(";")
            else:
                s = self.expr(it)
                sx.append(s)
                last_ln = it.ln
                if i + 1 < len(items):
                    self.w(";")
        self.ind -= 1
        self.nl()
        self.w("}")
        e.ln = last_ln if e.body else brace_line
        return "(seq %d %s)" % (e.ln, " ".join(sx))

    def func(self, f):
        f.ln = self.line
        self.w("func " + (f.name or "") + "(")
        ps = []
        for i, p in enumerate(f.params):
            if i:
                self.w(", ")
            p.ln = self.line
            self.param(p.name, p.cst, p.ty, p)
            ps.append("(%d %s %s %s%s)" % (p.ln, p.name, p.cst, self.sx_ty(p.ty, p.ln),
                                           (" (%s)" % " ".join("(%d %s)" % (b[1], b[0]) for b in p.bounds)) if p.bounds else ""))
        self.w(") -> ")
        rl = self.line
        self.param(None, f.rc, f.rty)
        self.nl()
        b = self.seq(f.body)
        xs = []
        for x in f.excs:
            self.nl()
            x.ln = self.line
            self.w("catch " + ("(%s) " % x.name if x.name else ""))
            s = self.seq(x.body)
            xs.append("(exc %d %s %s)" % (x.ln, x.name or "_", s))
        return "(func %d %s (%s) %s %s %s%s)" % (f.ln, f.name or "_", " ".join(ps), f.rc, self.sx_ty(f.rty, rl), b,
                                                  "".join(" " + x for x in xs))

    def prog(self, p):
        ds = []
        for d in p.decls:
            d.ln = self.line
            if d.k == 'enum':
                self.w("enum %s { " % d.name)
                its, recs = [], []
                for i, it in enumerate(d.items):
                    if i:
                        self.w(", ")
                    it[1] = self.line
                    self.w(it[0])
                    its.append("(%d %s)" % (it[1], it[0]))
                    if len(it) > 2 and it[2]:
                        # a record enumerator:  B { x : int; y : string; }
                        self.w(" { ")
                        fs = []
                        for fld in it[2]:
                            fld.ln = self.line
                            self.param(fld.name, fld.cst, fld.ty)
                            self.w("; ")
                            fs.append("(%d %s %s %s)" % (fld.ln, fld.name, fld.cst, self.sx_ty(fld.ty, fld.ln)))
                        self.w("}")
                        recs.append("(enumrec %d %s %s %s)" % (it[1], d.name, it[0], " ".join(fs)))
                self.w(" }")
                ds.append("(enum %d %s %s)" % (d.ln, d.name, " ".join(its)))
                ds.extend(recs)
            else:
                self.w("record %s" % d.name)
                self.nl()
                self.w("{")
                self.ind += 1
                fs = []
                for fld in d.items:
                    self.nl()
                    fld.ln = self.line
                    self.param(fld.name, fld.cst, fld.ty)
                    self.w(";")
                    fs.append("(%d %s %s %s)" % (fld.ln, fld.name, fld.cst, self.sx_ty(fld.ty, fld.ln)))
                self.ind -= 1
                self.nl()
                self.w("}")
                ds.append("(record %d %s %s)" % (d.ln, d.name, " ".join(fs)))
            self.nl()
        fs = []
        for f in p.funcs:
            fs.append(self.func(f))
            self.nl()
        return "(prog (%s) %s)" % (" ".join(ds), " ".join(fs))


def render(p, rng=None, start_line=1):
    """-> (source text, s-expression); assigns .ln on every node"""
    pr = Printer(rng, start_line)
    sx = pr.prog(p)
    return "".join(pr.out), sx


# ------------------------------------------------------------------ generator

class V:
    def __init__(self, ty, cst, kind):
        self.ty, self.cst, self.kind = ty, cst, kind   # cst: 'const' 'var' 'temp'


class Site:
    def __init__(self, seq, idx, env, path, fn):
        self.seq, self.idx, self.env, self.path, self.fn = seq, idx, env, path, fn


def lit(t, rng):
    if t == 'bool':
        return N('b', rng.choice(['true', 'false']), ty='bool')
    if t == 'int':
        return N('i', str(rng.below(100)), ty='int')
    if t == 'long':
        return N('l', "%dL" % rng.below(100), ty='long')
    if t == 'float':
        return N('f', "%d.%d" % (rng.below(50), rng.below(10)), ty='float')
    if t == 'double':
        return N('d', "%d.%dd" % (rng.below(50), rng.below(10)), ty='double')
    if t == 'char':
        return N('c', "'%s'" % rng.choice("abcxyz"), ty='char')
    if t == 'string':
        return N('s', '"%s"' % rng.choice(["a", "bc", "never", ""]), ty='string')
    raise ValueError(t)


def mkbin(op, l, r, ty):
    return N('bin', op, atom(l), atom(r), ty=ty)


class Gen:
    def __init__(self, rng, size=1.0):
        self.rng = rng
        self.cnt = 0
        self.enums = {}      # name -> [items]
        self.erec = {}       # (enum, item) -> [P]: the enumerators that are records
        self.records = {}    # name -> [P]
        self.scopes = []     # list of dict name -> V
        self.sites = []
        self.calls = []      # (call node, fn type, env snapshot, path)
        self.matches = []
        self.funcs = []      # (F, path)
        self.path = []
        self.curfn = None
        self.size = size
        self.stats = {}

    def stat(self, k):
        self.stats[k] = self.stats.get(k, 0) + 1

    def fresh(self, p):
        self.cnt += 1
        return "%s%d" % (p, self.cnt)

    def vname(self, p, t):
        """names of tuple-typed variables and parameters start with 't' (the generic renaming mutator keeps away from them:
        a tuple index must be a constant the compiler can fold, which the model does not do)"""
        return self.fresh('t' if isinstance(t, tuple) and t[0] == 'tup' else p)

    def mkparam(self, p, cw, t):
        r = self.rng.below(100)
        if r < 8:
            # a range parameter `r[a .. b] : range`: the bound names are ints of the function
            n = self.rng.weighted([(1, 5), (2, 1)])
            self.stat('param_range')
            return P(self.fresh('r'), self.rng.weighted(cw), ('rng', n), [[self.fresh('b'), 0] for _ in range(2 * n)])
        if r < 14:
            self.stat('param_slice')
            return P(self.fresh('s'), self.rng.weighted(cw), ('slc', 1, self.rng.weighted([('d', 4), ('v', 1)]), self.rand_fn_safe()),
                     [[self.fresh('b'), 0] for _ in range(2)])
        return P(self.vname(p, t), self.rng.weighted(cw), t)

    # ---- environment
    def snapshot(self):
        return [dict(s) for s in self.scopes]

    def lookup(self, x):
        for s in reversed(self.scopes):
            if x in s:
                return s[x]
        return None

    def visible(self):
        seen, out = set(), []
        for s in reversed(self.scopes):
            for x, v in s.items():
                if x not in seen:
                    seen.add(x)
                    out.append((x, v))
        return out

    def vars_of(self, pred):
        return [(x, v) for x, v in self.visible() if pred(v)]

    # ---- types
    def rand_scalar(self):
        return self.rng.weighted([('int', 6), ('bool', 3), ('string', 3), ('float', 2), ('long', 2), ('double', 2), ('char', 2)])

    def rand_simple(self):
        """scalar, enum or record"""
        c = [(self.rand_scalar(), 8)]
        if self.enums:
            c.append((('enum', self.rng.choice(sorted(self.enums))), 2))
        if self.records:
            c.append((('rec', self.rng.choice(sorted(self.records))), 2))
        return self.rng.weighted(c)

    def rand_fn_safe(self):
        """types allowed inside function types / array elements (param_cmp has no long/double case)"""
        while True:
            t = self.rand_simple()
            if t not in ('long', 'double'):
                return t

    def plain(self):
        """enums without record enumerators (the only ones used as numbers)"""
        return [e for e in sorted(self.enums) if not any((e, it) in self.erec for it in self.enums[e])]

    def binds_scope(self, en, it):
        fs = self.erec[(en, it)]
        bs = [[self.fresh('m'), 0] for _ in fs]
        return bs, {b[0]: V(resolved(f.ty), cst_of_p(norm_v(f.cst)), 'bind') for b, f in zip(bs, fs)}

    def rand_tuple(self):
        n = self.rng.range(1, 3)
        return ('tup', tuple(('d', self.rand_fn_safe()) for _ in range(n)))

    def rand_type(self, depth=0):
        r = self.rng.below(100)
        if depth < 2 and r >= 90:
            return self.rand_tuple()
        if depth < 2 and r < 12:
            n = self.rng.below(3)
            ps = tuple((self.rng.weighted([('d', 6), ('v', 1), ('c', 1)]), self.rand_fn_inner(depth + 1)) for _ in range(n))
            return ('fn', ps, self.rng.weighted([('d', 6), ('v', 2)]), self.rand_fn_inner(depth + 1))
        if depth < 1 and r < 22:
            return ('arr', self.rng.weighted([('d', 5), ('c', 1), ('v', 1)]), self.rand_fn_safe())
        return self.rand_simple()

    def rand_fn_inner(self, depth):
        if depth < 2 and self.rng.chance(0.15):
            n = self.rng.below(2)
            ps = tuple(('d', self.rand_fn_safe()) for _ in range(n))
            return ('fn', ps, 'd', self.rand_fn_safe())
        return self.rand_fn_safe()

    # ---- expressions
    def expr(self, t, d, nonconst=False):
        e = self.expr0(t, d)
        assert e.ty is not None
        if nonconst and e.cst == 'const':
            e2 = self.expr0(t, 0)
            e = N('cond', N('b', 'true', ty='bool'), atom(e), atom(e2), ty=t, style='q')
            self.stat('wrap_nonconst')
        return e

    def expr0(self, t, d):
        rng = self.rng
        t = resolved(t)
        opts = []
        vs = self.vars_of(lambda v: ty_eq(v.ty, t))
        if vs:
            opts.append(('var', 6))
        if isinstance(t, str):
            opts.append(('lit', 4 if d > 0 else 10))
        if d > 0:
            if t in NUM or t in ('bool', 'string'):
                opts.append(('bin', 6))
            if t in NUM or t == 'bool':
                opts.append(('un', 1))
            opts.append(('cond', 2))
            opts.append(('call', 4))
            opts.append(('attr', 2))
            opts.append(('deref', 2))
            opts.append(('proj', 2))
            opts.append(('block', 1))
            if self.enums:
                opts.append(('match', 2))
                opts.append(('iflet', 1))
            if t == 'int':
                opts.append(('intstmt', 1))
            opts.append(('ass', 1))
        # constructors of non-scalar types
        if not isinstance(t, str):
            opts.append(('make', 5 if not vs else 2))
        for _ in range(8):
            k = rng.weighted(opts)
            e = getattr(self, 'e_' + k)(t, d)
            if e is not None:
                self.stat('e_' + k)
                return e
        e = self.e_make(t, d) if not isinstance(t, str) else lit(t, rng)
        return e

    def e_var(self, t, d):
        x, v = self.rng.choice(self.vars_of(lambda v: ty_eq(v.ty, t)))
        return N('id', x, ty=t, cst=v.cst)

    def e_lit(self, t, d):
        return lit(t, self.rng)

    def e_make(self, t, d):
        rng = self.rng
        if isinstance(t, str):
            return lit(t, rng)
        if t[0] == 'enum':
            it = rng.choice(self.enums[t[1]])
            if (t[1], it) in self.erec:
                self.stat('mk_ctor')
                return N('ctor', t[1], it, [self.expr(f.ty, max(d - 1, 0)) for f in self.erec[(t[1], it)]], ty=t)
            return N('ev', N('id', t[1]), it, ty=t)
        if t[0] == 'rec':
            args = [self.expr(p.ty, max(d - 1, 0)) for p in self.records[t[1]]]
            return N('call', N('id', t[1]), args, ty=t)
        if t[0] == 'arr':
            vs = self.vars_of(lambda v: isinstance(v.ty, tuple) and v.ty[0] == 'arr')
            if d > 0 and vs and rng.chance(0.4):
                return self.listcomp(t, d, vs)
            n = rng.range(1, 3)
            els = [self.expr(t[2], max(d - 1, 0)) for _ in range(n)]
            # constness of the literal: the C code stores a param_const_type into a comb_const_type field
            return N('arr', t[1], t[2], els, ty=t, cst=('var' if norm_v(t[1]) == 'c' else 'temp'))
        if t[0] == 'fn':
            return self.funclit(t, d)
        if t[0] == 'tup':
            els = [self.expr(x, max(d - 1, 0)) for c, x in t[1]]
            self.stat('mk_tuple')
            return N('tuple', [('d', x) for c, x in t[1]], els, ty=t)
        if t[0] == 'arrn':
            self.stat('mk_arrn')
            return N('arr', t[2], t[3], self.rect(t[1], t[3], d), ty=t, cst=('var' if norm_v(t[2]) == 'c' else 'temp'))
        if t[0] == 'rng':
            self.stat('mk_range')
            return N('range', [self.small_int(d) for _ in range(2 * t[1])], ty=t)
        if t[0] == 'slc':
            # a slice of an array literal with these elements
            self.stat('mk_slice')
            arr = self.e_make(('arr', t[2], t[3]), d)
            return N('slice', N('sup', arr, ty=arr.ty), [self.small_int(0) for _ in range(2 * t[1])], ty=t)
        raise ValueError(t)

    def small_int(self, d):
        if d > 0 and self.rng.chance(0.3):
            return self.expr('int', 0)
        return N('i', str(self.rng.below(3)), ty='int')

    def rect(self, dims, et, d, shape=None):
        """rows of a rectangular literal of `dims` dimensions (innermost rows hold expressions)"""
        if shape is None:
            shape = [self.rng.range(1, 2) for _ in range(dims)]
        if dims == 1:
            return [self.expr(et, 0) for _ in range(shape[0])]
        return [N('sub', self.rect(dims - 1, et, d, shape[1:])) for _ in range(shape[0])]

    def listcomp(self, t, d, vs):
        rng = self.rng
        x, v = rng.choice(vs)
        q = self.fresh('q')
        self.scopes.append({q: V(v.ty[2], cst_of_p(norm_v(v.ty[1])), 'qual')})
        quals = [N('gen', q, N('id', x, ty=v.ty, cst=v.cst))]
        if rng.chance(0.4):
            quals.append(N('flt', self.expr('bool', max(d - 1, 0))))
        if rng.chance(0.7):
            el = self.block(t[2], max(d - 1, 0), 'lc')
        else:
            self.path.append('lc')
            el = self.expr(t[2], max(d - 1, 0))
            self.path.pop()
        self.scopes.pop()
        return N('lc', el, t[1], t[2], quals, ty=t)

    def funclit(self, t, d):
        ps = [P(self.vname('a', x), c, x) for c, x in t[1]]
        f = self.func(None, ps, t[2], t[3], max(d - 1, 0), 'closure')
        return N('fun', f, ty=t)

    def e_bin(self, t, d):
        rng = self.rng
        d1 = d - 1
        if t in NUM:
            r = NUMRANK[t]
            op = rng.weighted([('add', 4), ('sub', 3), ('mul', 3), ('div', 1), ('mod', 1 if t in ('int', 'long') else 0),
                               ('band', 1 if t in ('int', 'long') else 0), ('shl', 1 if t in ('int', 'long') else 0)])
            other = [x for x in NUM if NUMRANK[x] <= r]
            if op in ('mod', 'band', 'shl'):
                other = [x for x in other if x in ('int', 'long')]
            lt, rt = t, rng.choice(other)
            if rng.chance(0.5):
                lt, rt = rt, lt
            l = self.expr(lt, d1)
            if op == 'shl':
                # constant reduction shifts in C `int`: keep the amount a small literal (no UB under UBSan)
                op = rng.choice(['shl', 'shr'])
                rt = rng.choice(['int', 'long']) if t == 'long' else 'int'
                lt = t
                l = self.expr(lt, d1)
                rr = N('i' if rt == 'int' else 'l', ('%d' if rt == 'int' else '%dL') % rng.below(8), ty=rt)
            elif op in ('div', 'mod'):
                # never a constant zero divisor (constant reduction rejects it): a positive literal
                rr = N({'int': 'i', 'long': 'l', 'float': 'f', 'double': 'd'}[rt],
                       {'int': '%d', 'long': '%dL', 'float': '%d.5', 'double': '%d.5d'}[rt] % rng.range(1, 9), ty=rt)
            elif t == 'int' and self.plain() and rng.chance(0.1) and op in ('add', 'sub', 'mul'):
                rr = self.expr(('enum', rng.choice(self.plain())), 0)
            else:
                rr = self.expr(rt, d1)
            return mkbin(op, l, rr, t)
        if t == 'string':
            o = rng.weighted([('string', 5), ('int', 2), ('char', 1), ('float', 1), ('long', 1), ('double', 1)])
            l, r = self.expr('string', d1), self.expr(o, d1)
            if rng.chance(0.4):
                l, r = r, l
            return mkbin('add', l, r, 'string')
        if t == 'bool':
            c = rng.weighted([('cmp', 5), ('eq', 4), ('logic', 3)])
            if c == 'cmp':
                if rng.chance(0.15):
                    return mkbin(rng.choice(['lt', 'gt', 'lte', 'gte']), self.expr('char', d1), self.expr('char', d1), 'bool')
                return mkbin(rng.choice(['lt', 'gt', 'lte', 'gte']), self.expr(rng.choice(NUM), d1), self.expr(rng.choice(NUM), d1), 'bool')
            if c == 'eq':
                k = rng.weighted([('num', 4), ('bool', 2), ('char', 1), ('string', 2), ('enum', 2 if self.plain() else 0)])
                op = rng.choice(['eq', 'neq'])
                if k == 'num':
                    return mkbin(op, self.expr(rng.choice(NUM), d1), self.expr(rng.choice(NUM), d1), 'bool')
                if k == 'enum':
                    en = ('enum', rng.choice(self.plain()))
                    return mkbin(op, self.expr(en, d1), self.expr(en, d1), 'bool')
                return mkbin(op, self.expr(k, d1), self.expr(k, d1), 'bool')
            return mkbin(rng.choice(['and', 'or']), self.expr('bool', d1), self.expr('bool', d1), 'bool')
        return None

    def e_un(self, t, d):
        if t in NUM:
            if t in ('int', 'long') and self.rng.chance(0.3):
                return N('un', 'bnot', atom(self.expr(t, d - 1)), ty=t)
            return N('un', 'neg', atom(self.expr(t, d - 1)), ty=t)
        if t == 'bool':
            return N('un', 'not', atom(self.expr('bool', d - 1)), ty='bool')
        return None

    def e_cond(self, t, d):
        c = self.expr('bool', d - 1)
        if self.rng.chance(0.5):
            return N('cond', atom(c), atom(self.expr(t, d - 1)), atom(self.expr(t, d - 1)), ty=t, style='q')
        return N('cond', c, self.block(t, d - 1, 'if'), self.block(t, d - 1, 'if'), ty=t, style='if')

    def e_call(self, t, d):
        fs = self.vars_of(lambda v: isinstance(v.ty, tuple) and v.ty[0] == 'fn' and ty_eq(v.ty[3], t))
        if not fs:
            return None
        x, v = self.rng.choice(fs)
        if len(resolved(v.ty)[1]) > 0 and self.rng.chance(0.3):
            e = self.mkpipe(N('id', x, ty=v.ty, cst=v.cst), v.ty, d)
            if e is not None:
                return e
        return self.mkcall(N('id', x, ty=v.ty, cst=v.cst), v.ty, d)

    def e_proj(self, t, d):
        cands = []
        for x, v in self.visible():
            if isinstance(v.ty, tuple) and v.ty[0] == 'tup':
                for i, (c, m) in enumerate(v.ty[1]):
                    if ty_eq(m, t):
                        cands.append((x, v, i))
        if not cands:
            return None
        x, v, i = self.rng.choice(cands)
        # constness: CONST when the tuple is, else the member's; reported CONST (a value only read)
        return N('proj', N('id', x, ty=v.ty, cst=v.cst), i, ty=t, cst='const')

    def mkpipe(self, fexpr, ft, d):
        """`a0 |> f(a1, …)` or `(a0, …, ak) : (T0, …, Tk) |> f(ak+1, …)`"""
        ft = resolved(ft)
        ps = ft[1]
        simple = lambda t: (isinstance(t, str) and t not in ('long', 'double')) or (isinstance(t, tuple) and t[0] in ('rec', 'enum'))
        k = 0
        while k < len(ps) and simple(ps[k][1]):
            k += 1
        if k and self.rng.chance(0.5):
            k = self.rng.range(1, k)
            left = N('tuple', [('d', pt) for pc, pt in ps[:k]], [self.expr(pt, max(d - 1, 0)) for pc, pt in ps[:k]],
                     ty=('tup', tuple(('d', pt) for pc, pt in ps[:k])))
            # C: the tuple form compares everything with const_cmp = false
            args = [self.expr(pt, max(d - 1, 0)) for pc, pt in ps[k:]]
            self.stat('pipe_tuple')
        else:
            if isinstance(ps[0][1], tuple) and ps[0][1][0] == 'tup':
                return None      # a tuple on the left is unpacked
            left = atom(self.expr(ps[0][1], max(d - 1, 0), nonconst=(ps[0][0] == 'v')))
            args = [self.expr(pt, max(d - 1, 0), nonconst=(pc == 'v')) for pc, pt in ps[1:]]
            self.stat('pipe_scalar')
        e = N('pipe', left, atom(fexpr), args, ty=ft[3], cst=cst_of_p(ft[2]))
        return N('sup', e, ty=e.ty, cst=e.cst)

    def mkcall(self, fexpr, ft, d):
        ft = resolved(ft)
        args = [self.expr(pt, max(d - 1, 0), nonconst=(pc == 'v')) for pc, pt in ft[1]]
        e = N('call', atom(fexpr), args, ty=ft[3], cst=cst_of_p(ft[2]))
        self.calls.append((e, ft, self.snapshot(), list(self.path)))
        return e

    def e_attr(self, t, d):
        cands = []
        for x, v in self.visible():
            if isinstance(v.ty, tuple) and v.ty[0] == 'rec':
                for p in self.records[v.ty[1]]:
                    if ty_eq(p.ty, t):
                        cands.append((x, v, p))
        if not cands:
            return None
        x, v, p = self.rng.choice(cands)
        return N('attr', N('id', x, ty=v.ty, cst=v.cst), p.name, ty=t, cst=cst_of_p(norm_v(p.cst)))

    def e_deref(self, t, d):
        if t == 'char' and self.rng.chance(0.3):
            return N('deref', atom(self.expr('string', d - 1)), [self.expr('int', d - 1)], ty='char', cst='const')
        vs = self.vars_of(lambda v: isinstance(v.ty, tuple) and v.ty[0] == 'arr' and ty_eq(v.ty[2], t))
        ms = self.vars_of(lambda v: isinstance(v.ty, tuple) and v.ty[0] == 'arrn' and ty_eq(v.ty[3], t))
        if ms and (not vs or self.rng.chance(0.5)):
            x, v = self.rng.choice(ms)
            c = 'const' if v.cst == 'const' else cst_of_p(norm_v(v.ty[2]))
            self.stat('deref_nd')
            return N('deref', N('id', x, ty=v.ty, cst=v.cst), [self.expr('int', d - 1) for _ in range(v.ty[1])], ty=t, cst=c)
        if not vs:
            return None
        x, v = self.rng.choice(vs)
        c = 'const' if v.cst == 'const' else cst_of_p(norm_v(v.ty[1]))
        return N('deref', N('id', x, ty=v.ty, cst=v.cst), [self.expr('int', d - 1)], ty=t, cst=c)

    def e_block(self, t, d):
        return self.block(t, d - 1, 'block')

    def e_match(self, t, d):
        en = self.rng.choice(sorted(self.enums))
        s = self.expr(('enum', en), max(d - 1, 0))
        if s.k not in ('id', 'call', 'sup'):
            s = N('sup', s, ty=s.ty, cst=s.cst)
        items = list(self.enums[en])
        gs = []
        use_else = self.rng.chance(0.3)
        if use_else:
            items = items[:self.rng.below(len(items))]
        for it in items:
            if (en, it) in self.erec:
                bs, sc = self.binds_scope(en, it)
                self.stat('guard_record')
                gs.append(N('grec', en, it, bs, self.block(t, d - 1, 'arm', extra_scope=sc)))
                continue
            if self.rng.chance(0.4):
                arm = self.block(t, d - 1, 'arm')
            else:
                self.path.append('arm')
                arm = atom(self.expr(t, d - 1))
                self.path.pop()
            gs.append(N('g', en, it, arm))
        if use_else:
            gs.append(N('else', atom(self.expr(t, d - 1))))
        m = N('match', s, gs, ty=t)
        self.matches.append((m, en, self.snapshot(), list(self.path)))
        return m

    def e_iflet(self, t, d):
        en = self.rng.choice(sorted(self.enums))
        s = self.expr(('enum', en), max(d - 1, 0))
        self.stat('iflet')
        recs = [it for it in self.enums[en] if (en, it) in self.erec]
        if recs and self.rng.chance(0.6):
            it = self.rng.choice(recs)
            bs, sc = self.binds_scope(en, it)
            self.stat('iflet_record')
            return N('ifletrec', en, it, bs, s, self.block(t, d - 1, 'if', extra_scope=sc), self.block(t, d - 1, 'if'), ty=t)
        return N('iflet', en, self.rng.choice(self.enums[en]), s, self.block(t, d - 1, 'if'), self.block(t, d - 1, 'if'), ty=t)

    def e_intstmt(self, t, d):
        """while / for-in loops have type int"""
        if self.rng.chance(0.5):
            b = self.block('int', d - 1, 'while')
            return N('while', self.expr('bool', d - 1), b, ty='int', cst='const')
        vs = self.vars_of(lambda v: isinstance(v.ty, tuple) and v.ty[0] == 'arr')
        rs = self.vars_of(lambda v: isinstance(v.ty, tuple) and ((v.ty[0] == 'rng' and v.ty[1] == 1) or (v.ty[0] == 'slc' and v.ty[1] == 1)))
        r = self.rng.below(10)
        it = self.fresh('it')
        if r < 3 or (not vs and not rs):
            # a range: its elements are `let int`
            coll = rs and self.rng.chance(0.4) and [xv for xv in rs if xv[1].ty[0] == 'rng']
            if coll:
                x, v = self.rng.choice(coll)
                src = N('id', x, ty=v.ty, cst=v.cst)
            else:
                src = self.e_make(('rng', 1), d - 1)
            iv = V('int', 'const', 'forin')
            self.stat('forin_range')
        elif r < 5 and vs:
            # a slice of an array: the iterator has the constness of the ELEMENT type (the array's own is lost: known finding)
            x, v = self.rng.choice(vs)
            src = N('slice', N('id', x, ty=v.ty, cst=v.cst), [self.small_int(0), self.small_int(0)], ty=('slc', 1, v.ty[1], v.ty[2]))
            iv = V(v.ty[2], cst_of_p(norm_v(v.ty[1])), 'forin_slice')
            self.stat('forin_slice')
        elif r < 6 and [xv for xv in rs if xv[1].ty[0] == 'slc']:
            x, v = self.rng.choice([xv for xv in rs if xv[1].ty[0] == 'slc'])
            src = N('id', x, ty=v.ty, cst=v.cst)
            iv = V(v.ty[3], cst_of_p(norm_v(v.ty[2])), 'forin_slice')
            self.stat('forin_slice')
        elif vs:
            x, v = self.rng.choice(vs)
            src = N('id', x, ty=v.ty, cst=v.cst)
            iv = V(v.ty[2], v.cst, 'forin')
        else:
            return None
        self.scopes.append({it: iv})
        b = self.block(self.rand_scalar(), d - 1, 'forin')
        self.scopes.pop()
        self.stat('forin')
        return N('forin', it, src, b, ty='int')

    def lvalue(self, t):
        """an assignable expression of type t (constness VAR), or None"""
        c = []
        for x, v in self.visible():
            if v.cst == 'var' and ty_eq(v.ty, t):
                c.append(N('id', x, ty=t, cst='var'))
            if isinstance(v.ty, tuple) and v.ty[0] == 'rec':
                for p in self.records[v.ty[1]]:
                    if ty_eq(p.ty, t) and norm_v(p.cst) == 'v':
                        c.append(N('attr', N('id', x, ty=v.ty, cst=v.cst), p.name, ty=t, cst='var'))
            if isinstance(v.ty, tuple) and v.ty[0] == 'arr' and ty_eq(v.ty[2], t) and v.cst != 'const' and norm_v(v.ty[1]) == 'v':
                c.append(N('deref', N('id', x, ty=v.ty, cst=v.cst), [lit('int', self.rng)], ty=t, cst='var'))
        return self.rng.choice(c) if c else None

    def e_ass(self, t, d):
        if t == 'long' or t == 'double':
            pass
        l = self.lvalue(t)
        if l is None:
            return None
        rt = t
        if t in NUM and self.rng.chance(0.3):
            # numeric kinds convert on assignment (the cell (int <- double) mis-tagged by the pinned tree
            # was repaired in 8e26181)
            rt = self.rng.choice(NUM)
        r = self.expr(rt, d - 1)
        return N('ass', l, r, ty=t, cst=r.cst)

    # ---- statements
    def block(self, t, d, label, body=False, nonconst=False, extra_scope=None):
        """{ items ; e : t }"""
        rng = self.rng
        self.scopes.append(dict(extra_scope or {}))
        if label:
            self.path.append(label)
        seqn = N('seq', [], ty=t, body=body)
        items = seqn.a[0]
        n = rng.below(1 + int(3 * self.size)) if d > 0 else rng.below(2)
        for _ in range(n):
            site = Site(seqn, len(items), self.snapshot(), list(self.path), self.curfn)
            self.sites.append(site)
            st = self.stmt(d, first=(len(items) == 0))
            if getattr(st, 'shadow', False):
                # nothing may be inserted in front of a shadowing binding (a closure there would
                # capture the outer name: the emitter defect described in stmt())
                self.sites.remove(site)
            items.append(st)
        self.sites.append(Site(seqn, len(items), self.snapshot(), list(self.path), self.curfn))
        last = self.expr(t, d, nonconst=nonconst)
        if last.k == 'fun':
            last = N('sup', last, ty=last.ty, cst=last.cst)
        items.append(last)
        seqn.cst = last.cst
        if label:
            self.path.pop()
        self.scopes.pop()
        return seqn

    def stmt(self, d, first=False):
        rng = self.rng
        k = rng.weighted([('let', 5), ('var', 4), ('expr', 3), ('ass', 3), ('func', 2 if d > 0 else 0), ('loop', 2 if d > 0 else 0),
                          ('arr', 2 if d > 0 else 0), ('shape', 3)])
        self.stat('s_' + k)
        if k == 'shape':
            return self.shape_stmt(d)
        if k in ('let', 'var'):
            # sometimes shadow a visible name (an inner table shadows an outer one).  Only as the first
            # item of a block and with a closure-free initialiser: a function (declared earlier in the
            # SAME block, or inside the initialiser) that captured the outer name makes the pinned
            # emitter fail with "unknown freevar" (lexical scoping, C08's business, reported there)
            outer = [x for sc in self.scopes[:-1] for x in sc if x not in self.scopes[-1]]
            if outer and first and rng.chance(0.3):
                x = rng.choice(sorted(outer))
                t = self.rand_scalar()
                e = self.expr(t, 0, nonconst=(k == 'var'))
                self.stat('shadow')
                self.scopes[-1][x] = V(t, 'var' if k == 'var' else 'const', k)
                n = N(k, x, e)
                n.shadow = True
                return n
            else:
                t = self.rand_type()
                e = self.expr(t, d, nonconst=(k == 'var'))
                x = self.vname('v', t)
            self.scopes[-1][x] = V(t, 'var' if k == 'var' else 'const', k)
            return N(k, x, e)
        if k == 'ass':
            t = self.rand_simple()
            e = self.e_ass(resolved(t), max(d, 1))
            if e is not None:
                return e
            k = 'expr'
        if k == 'func':
            ps = [self.mkparam('p', [('d', 6), ('v', 2), ('c', 1)], self.rand_type(1)) for _ in range(rng.below(3))]
            name = self.fresh('g')
            rc, rty = rng.weighted([('d', 6), ('v', 1)]), self.rand_type(1)
            ft = resolved(('fn', tuple((p.cst, p.ty) for p in ps), rc, rty))
            # declared in the enclosing table before its body is checked (recursion allowed)
            self.scopes[-1][name] = V(ft, 'temp', 'func')
            return self.func(name, ps, rc, rty, d - 1, 'nested')
        if k == 'arr':
            # an array binding; when an array is already visible, a comprehension over it whose element is a block
            et = self.rand_fn_safe()
            t = ('arr', rng.weighted([('d', 5), ('c', 1)]), et)
            vs = self.vars_of(lambda v: isinstance(v.ty, tuple) and v.ty[0] == 'arr')
            e = self.listcomp(resolved(t), d, vs) if vs and rng.chance(0.7) else self.e_make(resolved(t), d)
            if e.cst == 'const':
                kk = 'let'
            else:
                kk = rng.choice(['let', 'var'])
            x = self.fresh('v')
            self.scopes[-1][x] = V(resolved(t), 'var' if kk == 'var' else 'const', kk)
            return N(kk, x, e)
        if k == 'loop':
            e = self.e_intstmt('int', d)
            if e is not None:
                return e
        return self.expr(self.rand_simple(), d)

    def shape_stmt(self, d):
        """a binding of a tuple, a range, a slice or an array of several dimensions (D11)"""
        rng = self.rng
        kk = rng.choice(['let', 'var'])
        c = rng.below(10)
        vs = self.vars_of(lambda v: isinstance(v.ty, tuple) and v.ty[0] == 'arr')
        if c < 3:
            t = self.rand_tuple()
            e = self.expr(resolved_members(t), d, nonconst=(kk == 'var'))
            x = self.fresh('t')
            t = resolved_members(t)
        elif c < 5:
            n = rng.weighted([(1, 4), (2, 1)])
            t = ('rng', n)
            e = self.e_make(t, d)
            if rng.chance(0.3):
                # both branches of a conditional are ranges of the same dimension (b996419)
                e = N('cond', atom(self.expr('bool', 0)), e, self.e_make(t, 0), ty=t, style='q')
                self.stat('cond_range')
            x = self.fresh('r')
        elif c < 7 and vs:
            y, v = rng.choice(vs)
            t = ('slc', 1, v.ty[1], v.ty[2])
            e = N('slice', N('id', y, ty=v.ty, cst=v.cst), [self.small_int(0), self.small_int(0)], ty=t)
            self.stat('mk_slice')
            x = self.fresh('s')
        else:
            n = rng.weighted([(2, 4), (3, 1)])
            t = ('arrn', n, rng.weighted([('d', 5), ('c', 1)]), self.rand_fn_safe())
            e = self.e_make(resolved(t), d)
            t = resolved(t)
            if e.cst == 'const':
                kk = 'let'
            x = self.fresh('m')
        self.scopes[-1][x] = V(t, 'var' if kk == 'var' else 'const', kk)
        return N(kk, x, e)

    def func(self, name, ps, rc, rty, d, label, excs=None):
        saved = self.curfn
        scope = {}
        ft = resolved(('fn', tuple((p.cst, p.ty) for p in ps), rc, rty))
        if name:
            scope[name] = V(ft, 'temp', 'func')
        for p in ps:
            pt = resolved(p.ty)
            if isinstance(pt, tuple) and pt[0] == 'slc':
                pt = ('slc', pt[1], norm_c(p.ty[2]), pt[3])     # param_check_type: the element type of a slice PARAMETER defaults to const
            scope[p.name] = V(pt, cst_of_p(norm_c(p.cst)), 'param')
            for b in p.bounds:
                # C: param_new_range_dim makes the bound names VAR whatever the parameter is (known finding: assignable)
                scope[b[0]] = V('int', 'var', 'param')
        f = F(name, ps, rc, rty, None)
        self.curfn = f
        self.path.append(label)
        xs = []
        if self.rng.chance(0.25):
            names = list(EXC_NAMES)
            for _ in range(self.rng.range(1, 2)):
                nm = self.rng.choice(names)
                names.remove(nm)
                self.path.append('catch')
                xs.append(X(nm, self.block(rty, max(d - 1, 0), None, body=True, extra_scope=scope)))
                self.path.pop()
            if self.rng.chance(0.4):
                self.path.append('catch')
                xs.append(X(None, self.block(rty, max(d - 1, 0), None, body=True, extra_scope=scope)))
                self.path.pop()
        f.excs = xs
        f.body = self.block(rty, d, None, body=True, nonconst=(rc == 'v'), extra_scope=scope)
        self.path.pop()
        self.curfn = saved
        self.funcs.append((f, list(self.path) + [label]))
        return f

    def program(self):
        rng = self.rng
        decls = []
        for i in range(rng.below(3)):
            nm = "E%d" % i
            items = ["%s_%s" % (nm, c) for c in "ABCD"[:rng.range(2, 4)]]
            self.enums[nm] = items
            ditems = []
            for x in items:
                fs = None
                if rng.chance(0.3):
                    fs = [P("x%d" % j, rng.weighted([('d', 6), ('c', 1), ('v', 1)]), self.rand_scalar()) for j in range(rng.range(1, 2))]
                    self.erec[(nm, x)] = fs
                ditems.append([x, 0, fs])
            decls.append(D('enum', nm, ditems))
        for i in range(rng.below(3)):
            nm = "R%d" % i
            fs = []
            for j in range(rng.range(1, 3)):
                t = self.rand_type(1) if rng.chance(0.3) else self.rand_simple()
                if t == ('rec', nm):
                    t = 'int'
                fs.append(P("f%d" % j, rng.weighted([('d', 6), ('c', 2), ('v', 1)]), t))
            self.records[nm] = fs
            decls.append(D('record', nm, fs))
        rng_shuffle(rng, decls)
        # top-level functions: all declared before any body is checked
        top = {}
        self.scopes = [top]
        protos = []
        nf = rng.range(1, 1 + int(3 * self.size))
        for i in range(nf):
            name = "f%d" % i
            ps = [self.mkparam('p', [('d', 6), ('v', 2), ('c', 1)], self.rand_type()) for _ in range(rng.below(4))]
            rc, rty = rng.weighted([('d', 6), ('v', 1)]), self.rand_type()
            protos.append((name, ps, rc, rty))
        if rng.chance(0.35):
            # a second-order function: parameter whose own parameter is a function type
            inner = ('fn', (('d', 'int'),), 'd', rng.choice(['int', 'string', 'bool']))
            protos.append(("f%d" % nf, [P(self.fresh('p'), 'd', ('fn', (('d', inner),), 'd', 'int'))], 'd', 'int'))
        if rng.chance(0.35):
            # a parameter that is a function RETURNING a function: the inner function type sits in a result position
            inner = ('fn', ((rng.choice(['d', 'v']), 'int'),), 'd', 'int')
            protos.append(("f%d" % (nf + 1), [P(self.fresh('p'), 'd', ('fn', (), 'd', inner))], 'd', 'int'))
        protos.append(("main", [], 'd', 'int'))
        for name, ps, rc, rty in protos:
            top[name] = V(resolved(('fn', tuple((p.cst, p.ty) for p in ps), rc, rty)), 'temp', 'func')
        funcs = []
        for name, ps, rc, rty in protos:
            funcs.append(self.func(name, ps, rc, rty, 2 + rng.below(2), 'top'))
        return Prog(decls, funcs)


def rng_shuffle(rng, xs):
    for i in range(len(xs) - 1, 0, -1):
        j = rng.below(i + 1)
        xs[i], xs[j] = xs[j], xs[i]


# ------------------------------------------------------------------ mutators

def incompatible_arg_types(pt, gen):
    """types whose values may NOT be passed to a parameter of type pt, with the expected
    diagnostic kind: 'kind' = param_expr_cmp prints at the argument, 'silent' = only the
    caller's message at the call"""
    pt = resolved(pt)
    out = []
    others = {
        'bool': ['int', 'string', 'char', 'float'],
        'int': ['bool', 'string', 'char'], 'long': ['bool', 'string', 'char'],
        'float': ['bool', 'string', 'char'], 'double': ['bool', 'string', 'char'],
        'char': ['int', 'string', 'bool'], 'string': ['int', 'char', 'bool', 'float'],
    }
    if isinstance(pt, str):
        out += [(t, 'kind') for t in others[pt]]
        for r in sorted(gen.records):
            out.append((('rec', r), 'kind'))
        return out
    if pt[0] == 'rec':
        out += [('int', 'kind'), ('string', 'kind')]
        out += [(('rec', r), 'silent') for r in sorted(gen.records) if r != pt[1]]
    elif pt[0] == 'enum':
        out += [('int', 'kind'), ('bool', 'kind'), ('string', 'kind')]
        out += [(('enum', e), 'silent') for e in sorted(gen.enums) if e != pt[1]]
    elif pt[0] == 'arr':
        out += [('int', 'kind'), (pt[2], 'kind')] if isinstance(pt[2], str) else [('int', 'kind')]
        for t in ('int', 'string', 'bool'):
            if not ty_eq(t, pt[2]):
                out.append((('arr', 'd', t), 'silent'))
    elif pt[0] == 'rng':
        out += [('int', 'kind'), (('arr', 'd', 'int'), 'kind'), (('rng', 3 - pt[1]), 'silent')]
    elif pt[0] == 'slc':
        other = 'string' if not ty_eq(pt[3], 'string') else 'int'
        out += [('int', 'kind'), (('arr', pt[2], pt[3]), 'kind'), (('slc', pt[1], pt[2], other), 'silent')]
    elif pt[0] == 'tup':
        out += [('int', 'kind'), ('string', 'kind')]
        ms = pt[1]
        # one member more, one member of another type
        out.append((('tup', ms + (('d', 'int'),)), 'silent'))
        other = 'string' if not ty_eq(ms[0][1], 'string') else 'int'
        out.append((('tup', (('d', other),) + ms[1:]), 'silent'))
    elif pt[0] == 'fn':
        out += [('int', 'kind'), ('string', 'kind')]
        # different arity
        out.append((('fn', pt[1] + (('c', 'int'),), pt[2], pt[3]), 'silent'))
        # different result kind
        for t in ('int', 'string', 'bool'):
            if not ty_eq(t, pt[3]) and not (t in NUM and pt[3] in NUM):
                out.append((('fn', pt[1], pt[2], t), 'silent'))
                break
    return out


class Mutant:
    def __init__(self, rule, prog, bad, expect, ctx, note=""):
        """bad: node whose .ln (after rendering) is the expected line; expect: rule name the model reports"""
        self.rule, self.prog, self.bad, self.expect, self.ctx, self.note = rule, prog, bad, expect, ctx, note


RULES = ['assign_let', 'assign_param', 'call_arity', 'call_kind', 'undef_name', 'undef_attr', 'op_incompat',
         'cond_nonbool', 'ret_kind', 'match_missing', 'unknown_exc',
         # D11
         'branch_tuple', 'branch_range', 'branch_elem', 'tuple_arity', 'tuple_index', 'array_ragged', 'forin_iter_assign',
         'pipe_arity', 'pipe_tuple_arity', 'match_after_else', 'elem_long_double',
         'guard_bind_count', 'guard_other_enum', 'ctor_arity', 'ctor_kind',
         # round 2
         'empty_unit', 'func_noname']


class Mutator:
    """applies ONE fault to a freshly generated program (the generator object still holds the
    environments of every statement position).  Each method returns a Mutant or None; the program
    is mutated IN PLACE, so build a fresh program per mutant (same seed => same program)."""
    def __init__(self, gen, prog, rng):
        self.g, self.p, self.rng = gen, prog, rng
        # keep only what is really part of the program (the generator may drop a sub-expression)
        live = set()
        def walk(x):
            if isinstance(x, F):
                live.add(id(x))
                walk(x.body)
                for e in x.excs:
                    walk(e.body)
            elif isinstance(x, N):
                live.add(id(x))
                for a in x.a:
                    walk(a)
            elif isinstance(x, (list, tuple)):
                for a in x:
                    walk(a)
        for f in prog.funcs:
            walk(f)
        gen.sites = [s for s in gen.sites if id(s.seq) in live]
        gen.calls = [c for c in gen.calls if id(c[0]) in live]
        gen.matches = [m for m in gen.matches if id(m[0]) in live]
        gen.funcs = [f for f in gen.funcs if id(f[0]) in live]

    def pick_site(self, pred=None):
        sites = [s for s in self.g.sites if pred is None or pred(s)]
        if not sites:
            return None
        # prefer deep contexts: they are what the property is about
        w = [(s, 1 + 3 * len([p for p in s.path if p in ('nested', 'closure', 'lc', 'arm', 'catch')]) + (8 if 'lc' in s.path else 0)) for s in sites]
        return self.rng.weighted(w)

    def at(self, site):
        self.g.scopes = [dict(s) for s in site.env]
        self.g.path = list(site.path)
        self.g.curfn = site.fn

    def insert(self, site, node):
        """insert as a statement, or bound by a let, or as an operand of a larger expression"""
        r = self.rng.below(10)
        st = node
        if r < 3 and not isinstance(node, F):
            st = N('let', self.g.fresh('z'), node)
        site.seq.a[0].insert(site.idx, st)
        return st

    def visible_at(self, site, pred):
        self.at(site)
        return self.g.vars_of(pred)

    # -- assignment to a let binding / non-var parameter
    def assign_let(self):
        return self._assign_const(lambda v: v.kind in ('let', 'qual', 'forin') and v.cst == 'const', 'assign_let')

    def assign_param(self):
        return self._assign_const(lambda v: v.kind == 'param' and v.cst == 'const', 'assign_param')

    def _assign_const(self, pred, rule):
        ok = lambda v: pred(v) and (isinstance(v.ty, str) or v.ty[0] in ('rec', 'enum'))
        site = self.pick_site(lambda s: any(ok(v) for sc in s.env for v in sc.values()))
        if site is None:
            return None
        vs = self.visible_at(site, ok)
        if not vs:
            return None
        x, v = self.rng.choice(vs)
        rhs = self.g.expr(v.ty, 1)
        bad = N('ass', N('id', x, ty=v.ty, cst=v.cst), rhs, ty=v.ty)
        self.insert(site, bad)
        return Mutant(rule, self.p, bad, 'assignConst', site.path, x)

    # -- calls
    def _callable(self, site, need_params=False):
        return self.visible_at(site, lambda v: isinstance(v.ty, tuple) and v.ty[0] == 'fn' and (not need_params or len(v.ty[1]) > 0))

    def call_arity(self):
        site = self.pick_site()
        if site is None:
            return None
        fs = self._callable(site)
        if not fs:
            return None
        x, v = self.rng.choice(fs)
        ft = resolved(v.ty)
        args = [self.g.expr(pt, 1, nonconst=(pc == 'v')) for pc, pt in ft[1]]
        if args and self.rng.chance(0.5):
            args.pop(self.rng.below(len(args)))
        else:
            args.insert(self.rng.below(len(args) + 1), self.g.expr(self.g.rand_scalar(), 0))
        bad = N('call', N('id', x, ty=v.ty), args, ty=ft[3])
        self.insert(site, bad)
        return Mutant('call_arity', self.p, bad, 'callMismatch', site.path, x)

    def call_kind(self, want_inner_fn=False, flip_var=False, in_result=False):
        site = self.pick_site()
        if site is None:
            return None
        fs = self._callable(site, True)
        recs = sorted(self.g.records) if not want_inner_fn else []
        isfn = lambda q: isinstance(q, tuple) and q[0] == 'fn'
        if want_inner_fn and in_result:
            fs = [(x, v) for x, v in fs if any(isfn(pt) and isfn(pt[3]) and pt[3][1] for _, pt in resolved(v.ty)[1])]
        elif want_inner_fn:
            fs = [(x, v) for x, v in fs if any(isinstance(pt, tuple) and pt[0] == 'fn' and
                                              any(isinstance(q, tuple) and q[0] == 'fn' for _, q in pt[1]) for _, pt in resolved(v.ty)[1])]
        if not fs and not recs:
            return None
        if recs and (not fs or self.rng.chance(0.2)):
            # record constructor
            r = self.rng.choice(recs)
            fields = self.g.records[r]
            ptys = [(norm_v(p.cst), resolved(p.ty)) for p in fields]
            callee, retty, isrec = N('id', r), ('rec', r), True
        else:
            x, v = self.rng.choice(fs)
            ft = resolved(v.ty)
            ptys, callee, retty, isrec = list(ft[1]), N('id', x, ty=v.ty), ft[3], False
        if not ptys:
            return None
        i = self.rng.below(len(ptys))
        if want_inner_fn and in_result:
            # the function type in the RESULT position of the parameter's function type: flip the mutability of one of its parameters
            i = [j for j, (_, pt) in enumerate(ptys) if isfn(pt) and isfn(pt[3]) and pt[3][1]][0]
            pt = ptys[i][1]
            q = pt[3]
            k = self.rng.below(len(q[1]))
            flipped = 'v' if norm_v(q[1][k][0]) != 'v' else 'd'
            q2 = ('fn', q[1][:k] + ((flipped, q[1][k][1]),) + q[1][k + 1:], q[2], q[3])
            badty = ('fn', pt[1], pt[2], q2)
            how = 'silent'
        elif want_inner_fn:
            i = [j for j, (_, pt) in enumerate(ptys) if isinstance(pt, tuple) and pt[0] == 'fn' and any(isinstance(q, tuple) and q[0] == 'fn' for _, q in pt[1])][0]
            pt = ptys[i][1]
            j = [j for j, (_, q) in enumerate(pt[1]) if isinstance(q, tuple) and q[0] == 'fn'][0]
            q = pt[1][j][1]
            if flip_var:
                # same result kind, but the mutability of one parameter of the INNER function type differs: `var`-ness of
                # parameters is part of a function type at every depth
                if not q[1]:
                    return None
                k = self.rng.below(len(q[1]))
                flipped = 'v' if norm_v(q[1][k][0]) != 'v' else 'd'
                q2 = ('fn', q[1][:k] + ((flipped, q[1][k][1]),) + q[1][k + 1:], q[2], q[3])
            else:
                other = 'string' if q[3] != 'string' else 'int'
                q2 = ('fn', q[1], q[2], other)
            badty = ('fn', pt[1][:j] + ((pt[1][j][0], q2),) + pt[1][j + 1:], pt[2], pt[3])
            how = 'silent'
        else:
            cands = incompatible_arg_types(ptys[i][1], self.g)
            if not cands:
                return None
            badty, how = self.rng.choice(cands)
        args = []
        for j, (pc, pt) in enumerate(ptys):
            if j == i:
                a = self.g.expr(badty, 1, nonconst=(pc == 'v' and not isrec))
            else:
                a = self.g.expr(pt, 1, nonconst=(pc == 'v' and not isrec))
            args.append(a)
        bad = N('call', callee, args, ty=retty)
        self.insert(site, bad)
        if how == 'kind':
            return Mutant('call_kind', self.p, args[i], 'paramKind', site.path, "arg %d" % i)
        return Mutant('call_kind', self.p, bad, 'recordCreate' if isrec else 'callMismatch', site.path,
                      "arg %d silent%s" % (i, " inner-fn-result" if want_inner_fn else ""))

    def call_kind_inner_fn(self):
        m = self.call_kind(want_inner_fn=True)
        if m is not None:
            m.rule = 'call_kind_inner_fn'
        return m

    def call_kind_result_var(self):
        m = self.call_kind(want_inner_fn=True, in_result=True)
        if m is not None:
            m.rule = 'call_kind_result_var'
        return m

    def call_kind_inner_var(self):
        m = self.call_kind(want_inner_fn=True, flip_var=True)
        if m is not None:
            m.rule = 'call_kind_inner_var'
        return m

    # -- names
    def undef_name(self):
        site = self.pick_site()
        if site is None:
            return None
        self.at(site)
        idn = N('id', self.g.fresh('nosuch'), ty='int')
        r = self.rng.below(4)
        if r == 0:
            node = idn
        elif r == 1:
            node = mkbin('add', idn, lit('int', self.rng), 'int')
        elif r == 2:
            node = N('call', idn, [lit('int', self.rng)], ty='int')
        else:
            node = mkbin('mul', lit('int', self.rng), idn, 'int')
        self.insert(site, node)
        return Mutant('undef_name', self.p, idn, 'undefId', site.path)

    def undef_attr(self):
        isrec = lambda v: isinstance(v.ty, tuple) and v.ty[0] == 'rec'
        site = self.pick_site(lambda s: any(isrec(v) for sc in s.env for v in sc.values()))
        if site is None:
            return None
        vs = self.visible_at(site, isrec)
        if not vs:
            return None
        x, v = self.rng.choice(vs)
        bad = N('attr', N('id', x, ty=v.ty, cst=v.cst), self.g.fresh('nofield'), ty='int')
        self.insert(site, bad)
        return Mutant('undef_attr', self.p, bad, 'undefAttr', site.path, x)

    # -- operators
    def op_incompat(self):
        site = self.pick_site()
        if site is None:
            return None
        self.at(site)
        g, rng = self.g, self.rng
        table = [
            ('add', 'int', 'bool', 'arith'), ('add', 'bool', 'bool', 'arith'), ('sub', 'string', 'int', 'arith'),
            ('sub', 'string', 'string', 'arith'), ('mul', 'string', 'int', 'arith'), ('div', 'bool', 'int', 'arith'),
            ('mul', 'char', 'int', 'arith'), ('add', 'char', 'char', 'arith'), ('div', 'string', 'float', 'arith'),
            ('mod', 'float', 'int', 'modOp'), ('mod', 'int', 'double', 'modOp'), ('mod', 'string', 'int', 'modOp'),
            ('lt', 'bool', 'int', 'compare'), ('gt', 'string', 'string', 'compare'), ('lte', 'char', 'int', 'compare'),
            ('eq', 'int', 'bool', 'compare'), ('neq', 'string', 'int', 'compare'), ('eq', 'char', 'string', 'compare'),
            ('and', 'int', 'bool', 'compare'), ('or', 'bool', 'int', 'compare'), ('and', 'string', 'string', 'compare'),
            ('band', 'float', 'int', 'binOp'), ('shl', 'int', 'bool', 'binOp'), ('bor', 'string', 'int', 'binOp'),
        ]
        if g.records:
            r = ('rec', sorted(g.records)[0])
            table += [('eq', r, r, 'compare'), ('add', r, 'int', 'arith')]
        un = [('not', 'int', 'notOp'), ('not', 'string', 'notOp'), ('neg', 'bool', 'negOp'), ('neg', 'string', 'negOp'),
              ('bnot', 'float', 'binNot'), ('bnot', 'bool', 'binNot')]
        if rng.chance(0.2):
            op, t, rule = rng.choice(un)
            bad = N('un', op, atom(g.expr(t, 1)), ty='int')
        else:
            op, lt, rt, rule = rng.choice(table)
            bad = mkbin(op, g.expr(lt, 1), g.expr(rt, 1), 'int')
        node = bad
        if rng.chance(0.3):
            node = N('call', N('id', 'prints'), [mkbin('add', lit('string', rng), N('sup', bad, ty='int'), 'string')], ty='string')
        self.insert(site, node)
        return Mutant('op_incompat', self.p, bad, rule, site.path, str(op))

    # -- conditions
    def cond_nonbool(self):
        site = self.pick_site()
        if site is None:
            return None
        self.at(site)
        g, rng = self.g, self.rng
        ct = rng.choice(['int', 'string', 'float', 'char', 'long'])
        c = g.expr(ct, 1)
        r = rng.below(3)
        t = g.rand_scalar()
        if r == 0:
            bad, rule = N('cond', atom(c), atom(g.expr(t, 1)), atom(g.expr(t, 1)), ty=t, style='q'), 'condNotBool'
        elif r == 1:
            bad, rule = N('cond', c, g.block(t, 1, 'if'), g.block(t, 1, 'if'), ty=t, style='if'), 'condNotBool'
        else:
            bad, rule = N('while', c, g.block('int', 1, 'while'), ty='int', cst='const'), 'whileNotBool'
        self.insert(site, bad)
        return Mutant('cond_nonbool', self.p, bad, rule, site.path, ct)

    # -- function result
    def ret_kind(self):
        g, rng = self.g, self.rng
        if rng.chance(0.5):
            # an inserted nested function with the wrong kind of result
            site = self.pick_site()
            if site is None:
                return None
            self.at(site)
            rty = g.rand_simple()
            cands = incompatible_arg_types(rty, g)
            badty, how = rng.choice(cands)
            body = N('seq', [g.expr(badty, 1)], body=True)
            f = F(g.fresh('h'), [], 'd', rty, body)
            site.seq.a[0].insert(site.idx, f)
            return Mutant('ret_kind', self.p, body if how == 'kind' else f, 'paramKind' if how == 'kind' else 'returnType',
                          site.path + ['nested'], "inserted")
        # replace the result expression of an existing function
        f, path = rng.choice(g.funcs)
        items = f.body.a[0]
        sites = [s for s in g.sites if s.seq is f.body and s.idx == len(items) - 1]
        if not sites:
            return None
        self.at(sites[0])
        cands = incompatible_arg_types(f.rty, g)
        if not cands:
            return None
        badty, how = rng.choice(cands)
        e = g.expr(badty, 1, nonconst=(f.rc == 'v'))
        if e.k == 'fun':
            e = N('sup', e, ty=e.ty)
        items[-1] = e
        return Mutant('ret_kind', self.p, f.body if how == 'kind' else f, 'paramKind' if how == 'kind' else 'returnType', path,
                      "replaced result of %s" % (f.name or "literal"))

    # -- match
    def match_missing(self):
        g, rng = self.g, self.rng
        if not g.enums:
            return None
        cands = [(m, en, env, path) for (m, en, env, path) in g.matches if all(x.k in ('g', 'grec') for x in m.a[1]) and len(m.a[1]) >= 2]
        if cands and rng.chance(0.5):
            m, en, env, path = rng.choice(cands)
            it = rng.below(len(m.a[1]))
            name = m.a[1][it].a[1]
            del m.a[1][it]
            return Mutant('match_missing', self.p, m, 'matchMissing', path, "dropped " + name)
        site = self.pick_site()
        if site is None:
            return None
        self.at(site)
        en = rng.choice(sorted(g.enums))
        items = list(g.enums[en])
        drop = rng.below(len(items))
        s = g.expr(('enum', en), 1)
        if s.k not in ('id', 'call', 'sup'):
            s = N('sup', s, ty=s.ty)
        t = g.rand_scalar()
        gs = [self._guard(en, it, atom(g.expr(t, 1))) for i, it in enumerate(items) if i != drop]
        bad = N('match', s, gs, ty=t)
        self.insert(site, bad)
        return Mutant('match_missing', self.p, bad, 'matchMissing', site.path, "inserted without " + items[drop])

    def match_empty(self):
        """`match e { }`: omits every enumerator (pinned tree accepts it: known finding)"""
        g = self.g
        if not g.enums:
            return None
        site = self.pick_site()
        if site is None:
            return None
        self.at(site)
        en = self.rng.choice(sorted(g.enums))
        s = g.expr(('enum', en), 0)
        if s.k not in ('id', 'call', 'sup'):
            s = N('sup', s, ty=s.ty)
        bad = N('match', s, [], ty=('enum', en))
        site.seq.a[0].insert(site.idx, bad)
        return Mutant('match_empty', self.p, bad, 'matchMissing', site.path)

    # ------------------------------------------------------------------ D11
    def _site(self):
        site = self.pick_site()
        if site is not None:
            self.at(site)
        return site

    def _branches(self, a, b, t, rule, site, note):
        g, rng = self.g, self.rng
        r = rng.below(4)
        if r == 3 and g.enums:
            en = rng.choice(sorted(g.enums))
            bad = N('iflet', en, rng.choice(g.enums[en]), g.expr(('enum', en), 0), N('seq', [a], ty=t), N('seq', [b], ty=t), ty=t)
        elif r >= 2 and g.enums:
            # arms of a match
            en = rng.choice(sorted(g.enums))
            items = list(g.enums[en])
            s = g.expr(('enum', en), 0)
            if s.k not in ('id', 'call', 'sup'):
                s = N('sup', s, ty=s.ty)
            arms = [a] + [b] * (len(items) - 1)
            bad = N('match', s, [N('g', en, it, atom(x)) for it, x in zip(items, arms)], ty=t)
        elif r == 1:
            bad = N('cond', g.expr('bool', 1), N('seq', [a], ty=t), N('seq', [b], ty=t), ty=t, style='if')
        else:
            bad = N('cond', atom(g.expr('bool', 1)), atom(a), atom(b), ty=t, style='q')
        site.seq.a[0].insert(site.idx, N('let', g.fresh('z'), bad))
        return Mutant(rule, self.p, bad, {'branch_tuple': 'condBranches', 'branch_range': 'branchRanges'}.get(rule, 'branchArrays'),
                      site.path, note)

    def branch_tuple(self):
        """branches that are tuples of different shape or with a member of another type (b235435)"""
        site = self._site()
        if site is None:
            return None
        g, rng = self.g, self.rng
        t1 = g.rand_tuple()
        ms = t1[1]
        if rng.chance(0.5):
            t2 = ('tup', ms + (('d', g.rand_fn_safe()),)) if rng.chance(0.5) or len(ms) == 1 else ('tup', ms[:-1])
            note = "shape"
        else:
            i = rng.below(len(ms))
            others = [x for x in ['int', 'string', 'bool', 'float', 'char'] if not ty_eq(x, ms[i][1])]
            t2 = ('tup', ms[:i] + (('d', rng.choice(others)),) + ms[i + 1:])
            note = "member %d" % i
        a, b = g.e_make(resolved(t1), 1), g.e_make(resolved(t2), 1)
        if rng.chance(0.5):
            a, b = b, a
        return self._branches(a, b, t1, 'branch_tuple', site, note)

    def branch_range(self):
        """ranges of different dimension in the branches (b996419)"""
        site = self._site()
        if site is None:
            return None
        a, b = self.g.e_make(('rng', 1), 1), self.g.e_make(('rng', 2), 1)
        if self.rng.chance(0.5):
            a, b = b, a
        return self._branches(a, b, ('rng', 1), 'branch_range', site, "dims")

    def branch_elem(self):
        """arrays of different element type / dimension in the branches"""
        site = self._site()
        if site is None:
            return None
        g, rng = self.g, self.rng
        e1, e2 = rng.choice([('int', 'string'), ('int', 'float'), ('bool', 'int'), ('long', 'double'), ('char', 'string'), ('float', 'double')])
        if rng.chance(0.3):
            a, b = g.e_make(('arr', 'd', e1), 0), g.e_make(('arrn', 2, 'v', e1), 0)
            note = "dims"
        else:
            a, b = g.e_make(('arr', 'd', e1), 0), g.e_make(('arr', 'd', e2), 0)
            note = "%s/%s" % (e1, e2)
        if rng.chance(0.5):
            a, b = b, a
        return self._branches(a, b, ('arr', 'd', e1), 'branch_elem', site, note)

    def tuple_arity(self):
        site = self._site()
        if site is None:
            return None
        g, rng = self.g, self.rng
        t = g.rand_tuple()
        bad = g.e_make(resolved(t), 1)
        if len(bad.a[1]) > 1 and rng.chance(0.5):
            bad.a[1].pop(rng.below(len(bad.a[1])))
        else:
            bad.a[1].append(g.expr(g.rand_scalar(), 0))
        self.insert(site, bad)
        return Mutant('tuple_arity', self.p, bad, 'tupleForm', site.path)

    def tuple_index(self):
        istup = lambda v: isinstance(v.ty, tuple) and v.ty[0] == 'tup'
        site = self.pick_site()
        if site is None:
            return None
        vs = self.visible_at(site, istup)
        if vs and self.rng.chance(0.6):
            x, v = self.rng.choice(vs)
            src, n = N('id', x, ty=v.ty, cst=v.cst), len(v.ty[1])
        else:
            t = self.g.rand_tuple()
            src, n = N('sup', self.g.e_make(resolved(t), 1), ty=t), len(t[1])
        bad = N('proj', src, n + self.rng.below(3), ty='int')
        self.insert(site, bad)
        return Mutant('tuple_index', self.p, bad, 'tupleIndex', site.path)

    def array_ragged(self):
        """a literal whose rows have not all the same length, an empty row included (tcheckarr.c; C01-6 / C12-7)"""
        site = self._site()
        if site is None:
            return None
        g, rng = self.g, self.rng
        et = g.rand_fn_safe()
        k = rng.range(2, 3)
        n = rng.range(1, 3)
        lens = [n] * k
        i = rng.below(k)
        lens[i] = rng.choice([x for x in (0, 0, n - 1, n + 1) if x != n and x >= 0])
        rows = [N('sub', [g.expr(et, 0) for _ in range(m)]) for m in lens]
        note = "rows %s" % lens
        if rng.chance(0.3):
            # one level deeper: the ragged plane next to a rectangular one
            good = N('sub', [N('sub', [g.expr(et, 0) for _ in range(n)]) for _ in range(k)])
            rows = [good, N('sub', rows)] if rng.chance(0.5) else [N('sub', rows), good]
            note += " in a plane"
        bad = N('arr', 'd', et, rows, ty=('arrn', 2, 'd', et))
        self.insert(site, bad)
        marker = N('sub', [])      # a row has no line: the first diagnostic is at line 0
        marker.ln = 0
        return Mutant('array_ragged', self.p, marker, 'arrayShape', site.path, note)

    def forin_iter_assign(self):
        """assignment to the iterator of a for-in over a CONST array or over a range (tcforin.c; C06-6 / C06-9)"""
        g, rng = self.g, self.rng
        okarr = lambda v: isinstance(v.ty, tuple) and v.ty[0] == 'arr' and v.cst == 'const' and \
            (isinstance(v.ty[2], str) or v.ty[2][0] in ('rec', 'enum'))
        site = self.pick_site(lambda s: any(okarr(v) for sc in s.env for v in sc.values())) if rng.chance(0.8) else None
        it = g.fresh('it')
        if site is not None:
            vs = self.visible_at(site, okarr)
            if not vs:
                return None
            x, v = rng.choice(vs)
            src, et, note = N('id', x, ty=v.ty, cst=v.cst), v.ty[2], "array " + x
        else:
            site = self._site()
            if site is None:
                return None
            src, et, note = g.e_make(('rng', 1), 0), 'int', "range"
        g.scopes.append({it: V(et, 'const', 'forin')})
        bad = N('ass', N('id', it, ty=et, cst='const'), g.expr(et, 0), ty=et)
        body = N('seq', [bad, lit('int', rng)], ty='int') if rng.chance(0.5) else bad
        g.scopes.pop()
        site.seq.a[0].insert(site.idx, N('forin', it, src, body, ty='int'))
        return Mutant('forin_iter_assign', self.p, bad, 'assignConst', site.path + ['forin'], note)

    def _pipe_target(self, site, pred):
        fs = [(x, v) for x, v in self._callable(site, True) if pred(resolved(v.ty))]
        return self.rng.choice(fs) if fs else None

    def pipe_arity(self):
        """`a |> f(args)` with too few or with SURPLUS explicit arguments (param_list_expr_expr_list_cmp; C06-5)"""
        site = self.pick_site()
        if site is None:
            return None
        nt = lambda t: not (isinstance(t, tuple) and t[0] == 'tup')
        xv = self._pipe_target(site, lambda ft: nt(ft[1][0][1]))
        if xv is None:
            return None
        x, v = xv
        g, rng = self.g, self.rng
        ft = resolved(v.ty)
        left = atom(g.expr(ft[1][0][1], 1, nonconst=(ft[1][0][0] == 'v')))
        args = [g.expr(pt, 1, nonconst=(pc == 'v')) for pc, pt in ft[1][1:]]
        if args and rng.chance(0.35):
            args.pop()
            note = "too few"
        else:
            for _ in range(rng.range(1, 2)):
                args.append(g.expr(g.rand_scalar(), 0))
            note = "surplus"
        bad = N('pipe', left, N('id', x, ty=v.ty), args, ty=ft[3])
        self.insert(site, N('sup', bad, ty=ft[3]))
        return Mutant('pipe_arity', self.p, bad, 'callMismatch', site.path, note)

    def pipe_tuple_arity(self):
        site = self.pick_site()
        if site is None:
            return None
        simple = lambda t: (isinstance(t, str) and t not in ('long', 'double')) or (isinstance(t, tuple) and t[0] in ('rec', 'enum'))
        xv = self._pipe_target(site, lambda ft: all(simple(pt) for pc, pt in ft[1]))
        if xv is None:
            return None
        x, v = xv
        g, rng = self.g, self.rng
        ft = resolved(v.ty)
        ms = [pt for pc, pt in ft[1]]
        if len(ms) > 1 and rng.chance(0.5):
            ms = ms[:-1]
            note = "a member short"
        else:
            ms = ms + [g.rand_fn_safe()]
            note = "a member more"
        left = N('tuple', [('d', t) for t in ms], [g.expr(t, 0) for t in ms], ty=('tup', tuple(('d', t) for t in ms)))
        bad = N('pipe', left, N('id', x, ty=v.ty), [], ty=ft[3])
        self.insert(site, N('sup', bad, ty=ft[3]))
        return Mutant('pipe_tuple_arity', self.p, bad, 'callMismatch', site.path, note)

    def match_after_else(self):
        """a match without `else` that omits enumerators, checked AFTER a match with `else` that names exactly those
        (the `mark` flag lives in the enum declaration: tcmatch.c; C06-4 / C01-7)"""
        g, rng = self.g, self.rng
        if not g.enums:
            return None
        site = self._site()
        if site is None:
            return None
        en = rng.choice(sorted(g.enums))
        items = list(g.enums[en])
        keep = rng.below(len(items))
        scrut = lambda: (lambda s: s if s.k in ('id', 'call', 'sup') else N('sup', s, ty=s.ty))(g.expr(('enum', en), 0))
        t = g.rand_scalar()
        first = N('match', scrut(), [N('g', en, it, atom(g.expr(t, 0))) for i, it in enumerate(items) if i != keep] +
                  [N('else', atom(g.expr(t, 0)))], ty=t)
        t2 = g.rand_scalar()
        bad = N('match', scrut(), [N('g', en, items[keep], atom(g.expr(t2, 0)))], ty=t2)
        how = rng.below(3)
        if how == 0:
            # the earlier match sits in the arm of the later one (arms are checked before exhaustiveness)
            bad.a[1][0].a[2] = N('seq', [first, bad.a[1][0].a[2]], ty=t2)
            site.seq.a[0].insert(site.idx, bad)
        elif how == 1:
            site.seq.a[0].insert(site.idx, bad)
            site.seq.a[0].insert(site.idx, N('let', g.fresh('z'), first))
        else:
            site.seq.a[0].insert(site.idx, bad)
            site.seq.a[0].insert(site.idx, first)
        return Mutant('match_after_else', self.p, bad, 'matchMissing', site.path, "keeps %s" % items[keep])

    def elem_long_double(self):
        """long where double is declared (or the reverse) INSIDE an array / tuple / function type: element types are compared
        exactly (param_cmp; C06-7)"""
        site = self._site()
        if site is None:
            return None
        g, rng = self.g, self.rng
        a, b = rng.choice([('long', 'double'), ('double', 'long')])
        form = rng.below(3)
        h = g.fresh('h')
        if form == 0:
            pty, aty = ('arr', 'd', a), ('arr', 'd', b)
        elif form == 1:
            pty, aty = ('tup', (('d', a), ('d', 'int'))), ('tup', (('d', b), ('d', 'int')))
        else:
            pty, aty = ('fn', (('d', a),), 'd', a), ('fn', (('d', b),), 'd', b)
        f = F(h, [P(g.vname('p', pty), 'd', pty)], 'd', 'int', N('seq', [lit('int', rng)], body=True))
        arg = g.e_make(resolved(aty), 0)
        bad = N('call', N('id', h), [arg], ty='int')
        site.seq.a[0].insert(site.idx, bad)
        site.seq.a[0].insert(site.idx, f)
        return Mutant('elem_long_double', self.p, bad, 'callMismatch', site.path, "%s as %s, form %d" % (b, a, form))

    # -- enum records
    def _guard(self, en, it, arm, delta=0):
        """a guard for the enumerator: a record guard with as many binds as fields (+ delta) when it is a record"""
        if (en, it) in self.g.erec:
            n = max(0, len(self.g.erec[(en, it)]) + delta)
            return N('grec', en, it, [[self.g.fresh('m'), 0] for _ in range(n)], arm)
        return N('g', en, it, arm)

    def _scrut(self, en):
        s = self.g.expr(('enum', en), 0)
        return s if s.k in ('id', 'call', 'sup', 'ctor') else N('sup', s, ty=s.ty)

    def guard_bind_count(self):
        """a record guard with too few / too many binds, in a match or an if-let (52cb4aa)"""
        g, rng = self.g, self.rng
        if not g.erec:
            return None
        site = self._site()
        if site is None:
            return None
        en, it = rng.choice(sorted(g.erec))
        nf = len(g.erec[(en, it)])
        delta = rng.choice([-1, 1, 2] if nf > 1 else [1, 2])
        t = g.rand_scalar()
        if rng.chance(0.4):
            bad = N('ifletrec', en, it, [[g.fresh('m'), 0] for _ in range(nf + delta)], self._scrut(en),
                    N('seq', [g.expr(t, 0)], ty=t), N('seq', [g.expr(t, 0)], ty=t), ty=t)
            self.insert(site, bad)
            return Mutant('guard_bind_count', self.p, bad, 'guardBinds', site.path, "if-let %+d" % delta)
        gs = [self._guard(en, x, atom(g.expr(t, 0)), delta if x == it else 0) for x in g.enums[en]]
        bad = [x for x in gs if x.a[1] == it][0]
        self.insert(site, N('match', self._scrut(en), gs, ty=t))
        return Mutant('guard_bind_count', self.p, bad, 'guardBinds', site.path, "match %+d" % delta)

    def guard_other_enum(self):
        """a guard (item or record) of another enum than the matched value (enums are different)"""
        g, rng = self.g, self.rng
        if len(g.enums) < 2:
            return None
        site = self._site()
        if site is None:
            return None
        en, other = rng.choice([(a, b) for a in sorted(g.enums) for b in sorted(g.enums) if a != b])
        t = g.rand_scalar()
        gs = [self._guard(en, x, atom(g.expr(t, 0))) for x in g.enums[en]]
        bad = self._guard(other, rng.choice(g.enums[other]), atom(g.expr(t, 0)))
        gs.insert(rng.below(len(gs) + 1), bad)
        if rng.chance(0.3):
            gs.append(N('else', atom(g.expr(t, 0))))
        self.insert(site, N('match', self._scrut(en), gs, ty=t))
        return Mutant('guard_other_enum', self.p, bad, 'matchGuardDiffers', site.path, other)

    def _ctor(self, kind):
        g, rng = self.g, self.rng
        if not g.erec:
            return None
        site = self._site()
        if site is None:
            return None
        en, it = rng.choice(sorted(g.erec))
        fs = g.erec[(en, it)]
        args = [g.expr(f.ty, 1) for f in fs]
        bad = N('ctor', en, it, args, ty=('enum', en))
        if kind == 'arity':
            if len(args) > 1 and rng.chance(0.5):
                args.pop(rng.below(len(args)))
            else:
                args.insert(rng.below(len(args) + 1), g.expr(g.rand_scalar(), 0))
            self.insert(site, bad)
            return Mutant('ctor_arity', self.p, bad, 'enumCreate', site.path, "%s::%s" % (en, it))
        i = rng.below(len(fs))
        badty, how = rng.choice([c for c in incompatible_arg_types(fs[i].ty, g) if c[1] == 'kind'])
        args[i] = g.expr(badty, 1)
        self.insert(site, bad)
        return Mutant('ctor_kind', self.p, args[i], 'paramKind', site.path, "%s::%s arg %d" % (en, it, i))

    def ctor_arity(self):
        return self._ctor('arity')

    def ctor_kind(self):
        return self._ctor('kind')

    def empty_unit(self):
        """every function deleted: a main unit of declarations only (bad4904)"""
        if not self.p.decls:
            return None
        del self.p.funcs[:]
        marker = N('sub', [])
        marker.ln = 1
        return Mutant('empty_unit', self.p, marker, 'emptyMainUnit', ['top'], "%d declarations left" % len(self.p.decls))

    def func_noname(self):
        """a function ITEM (top level or in a block) loses its name (0b116cb)"""
        fs = [(f, path) for f, path in self.g.funcs if f.name]
        if not fs:
            return None
        top = [(f, path) for f, path in fs if any(f is t for t in self.p.funcs)]
        f, path = self.rng.choice(top) if top and self.rng.chance(0.4) else self.rng.choice(fs)
        note = f.name
        f.name = None
        return Mutant('func_noname', self.p, f, 'funcNoName', path[:-1] or ['top'], note)

    # -- known acceptances of the tree (corpus/tc_known), as mutators: KNOWN-FINDING while accepted
    def slice_assign_let(self):
        """an element of a `let` array assigned through a slice of it"""
        ok = lambda v: isinstance(v.ty, tuple) and v.ty[0] == 'arr' and v.cst == 'const' and v.kind in ('let', 'param') and \
            norm_v(v.ty[1]) == 'v' and isinstance(v.ty[2], str)
        site = self.pick_site(lambda s: any(ok(v) for sc in s.env for v in sc.values()))
        if site is None:
            return None
        vs = self.visible_at(site, ok)
        if not vs:
            return None
        x, v = self.rng.choice(vs)
        z = lambda: N('i', '0', ty='int')
        sl = N('slice', N('id', x, ty=v.ty, cst=v.cst), [z(), z()], ty=('slc', 1, v.ty[1], v.ty[2]))
        if self.rng.chance(0.5):
            bad = N('ass', N('proj', sl, 0, ty=v.ty[2]), self.g.expr(v.ty[2], 0), ty=v.ty[2])
            site.seq.a[0].insert(site.idx, bad)
        else:
            it = self.g.fresh('it')
            bad = N('ass', N('id', it, ty=v.ty[2]), self.g.expr(v.ty[2], 0), ty=v.ty[2])
            site.seq.a[0].insert(site.idx, N('forin', it, sl, bad, ty='int'))
        return Mutant('slice_assign_let', self.p, bad, 'assignConst', site.path, x)

    def pipe_tuple_const_to_var(self):
        """members of a `let` tuple piped into `var` parameters"""
        site = self.pick_site()
        if site is None:
            return None
        simple = lambda t: (isinstance(t, str) and t not in ('long', 'double')) or (isinstance(t, tuple) and t[0] in ('rec', 'enum'))
        xv = self._pipe_target(site, lambda ft: all(simple(pt) for pc, pt in ft[1]) and any(pc == 'v' for pc, pt in ft[1]))
        if xv is None:
            return None
        x, v = xv
        g = self.g
        ft = resolved(v.ty)
        ms = [pt for pc, pt in ft[1]]
        t = g.fresh('t')
        tup = N('tuple', [('d', m) for m in ms], [g.expr(m, 0) for m in ms], ty=('tup', tuple(('d', m) for m in ms)))
        left = N('id', t, ty=tup.ty, cst='const')
        bad = N('pipe', left, N('id', x, ty=v.ty), [], ty=ft[3])
        site.seq.a[0].insert(site.idx, N('sup', bad, ty=ft[3]))
        site.seq.a[0].insert(site.idx, N('let', t, tup))
        return Mutant('pipe_tuple_const_to_var', self.p, left, 'constToVarParam', site.path, x)

    # -- catch
    def unknown_exc(self):
        g, rng = self.g, self.rng
        f, path = rng.choice(g.funcs)
        name = rng.choice(["no_such_exception", "division_by_0", "unknown_exception", "Overflow"])
        named = [x for x in f.excs if x.name]
        if named and rng.chance(0.5):
            x = rng.choice(named)
            x.name = name
            return Mutant('unknown_exc', self.p, x, 'unknownException', path + ['catch'], "renamed")
        # a new clause in front, with a body of the right type
        g.scopes = [{}]
        g.path = path + ['catch']
        body = N('seq', [g.expr(f.rty, 0)], body=True) if isinstance(resolved(f.rty), str) or resolved(f.rty)[0] in ('enum',) else None
        if body is None:
            return None
        x = X(name, body)
        f.excs.insert(0, x)
        return Mutant('unknown_exc', self.p, x, 'unknownException', path + ['catch'], "added")


# ------------------------------------------------------------------ generic syntactic mutants
# No oracle of their own: they only widen the correspondence (model vs compiler on the SAME input:
# accept/reject, line and kind of the first error) to the rules outside the property's catalogue
# (branch kinds, array elements, indices, qualifiers, redefinitions, constness of bindings, …).

EXPR_KINDS = {'b', 'i', 'l', 'f', 'd', 'c', 's', 'id', 'ev', 'un', 'bin', 'sup', 'cond', 'ass', 'while', 'forin', 'call',
              'fun', 'seq', 'attr', 'match', 'arr', 'deref', 'lc', 'tuple', 'proj', 'range', 'slice', 'pipe', 'iflet', 'ifletrec', 'ctor'}


def expr_slots(prog):
    """every (container, key) such that container[key] is an expression node"""
    out = []

    def node(n):
        if isinstance(n, F):
            func(n)
            return
        k = n.k
        if k in ('let', 'var'):
            out.append((n.a, 1)); node(n.a[1]); return
        if k in ('g',):
            out.append((n.a, 2)); node(n.a[2]); return
        if k == 'grec':
            out.append((n.a, 3)); node(n.a[3]); return
        if k == 'ifletrec':
            for i in (3, 4, 5):
                out.append((n.a, i)); node(n.a[i])
            return
        if k == 'ctor':
            for j, x in enumerate(n.a[2]):
                out.append((n.a[2], j)); node(x)
            return
        if k in ('else', 'flt'):
            out.append((n.a, 0)); node(n.a[0]); return
        if k == 'gen':
            out.append((n.a, 1)); node(n.a[1]); return
        if k == 'fun':
            func(n.a[0]); return
        if k == 'seq':
            for i, it in enumerate(n.a[0]):
                if isinstance(it, F):
                    func(it)
                elif it.k in ('let', 'var'):
                    node(it)
                else:
                    out.append((n.a[0], i)); node(it)
            return
        for i, c in enumerate(n.a):
            if isinstance(c, N) and c.k in EXPR_KINDS:
                out.append((n.a, i)); node(c)
            elif isinstance(c, N):
                node(c)
            elif isinstance(c, list):
                for j, x in enumerate(c):
                    if isinstance(x, N) and x.k in EXPR_KINDS:
                        out.append((c, j)); node(x)
                    elif isinstance(x, N):
                        node(x)

    def func(f):
        node(f.body)
        for x in f.excs:
            node(x.body)

    for f in prog.funcs:
        func(f)
    return out


def all_funcs(prog):
    out = []

    def node(n):
        if isinstance(n, F):
            out.append(n); node(n.body)
            for x in n.excs:
                node(x.body)
        elif isinstance(n, N):
            for c in n.a:
                node(c)
        elif isinstance(n, list):
            for c in n:
                node(c)
    for f in prog.funcs:
        node(f)
    return out


def all_seqs(prog):
    out = []

    def node(n):
        if isinstance(n, F):
            node(n.body)
            for x in n.excs:
                node(x.body)
        elif isinstance(n, N):
            if n.k == 'seq':
                out.append(n)
            for c in n.a:
                node(c)
        elif isinstance(n, list):
            for c in n:
                node(c)
    for f in prog.funcs:
        node(f)
    return out


GENERIC = ['lit_swap', 'id_rename', 'drop_item', 'flip_bind', 'dup_bind', 'param_cst', 'swap_args', 'type_typo', 'ret_cst']


def generic_mutate(kind, gen, prog, rng):
    """-> description or None; mutates prog in place"""
    if kind == 'lit_swap':
        slots = expr_slots(prog)
        if not slots:
            return None
        c, k = rng.choice(slots)
        old = c[k]
        t = rng.choice(SCAL)
        c[k] = lit(t, rng)
        return "%s -> %s literal" % (old.k, t)
    if kind == 'id_rename':
        slots = [(c, k) for c, k in expr_slots(prog) if c[k].k == 'id']
        if not slots:
            return None
        # never rename TO a tuple-typed name (they start with 't'): `x[i + 1]` on a tuple needs the constant folder
        names = sorted(set(c[k].a[0] for c, k in slots if not c[k].a[0].startswith('t')))
        if not names:
            return None
        c, k = rng.choice(slots)
        new = rng.choice(names)
        if new == c[k].a[0]:
            return None
        d = "%s -> %s" % (c[k].a[0], new)
        c[k] = N('id', new)
        return d
    if kind in ('drop_item', 'flip_bind', 'dup_bind'):
        seqs = [q for q in all_seqs(prog) if len(q.a[0]) >= 2]
        if not seqs:
            return None
        q = rng.choice(seqs)
        items = q.a[0]
        if kind == 'drop_item':
            i = rng.below(len(items) - 1)
            d = "dropped item %d (%s)" % (i, getattr(items[i], 'k', '?'))
            del items[i]
            return d
        binds = [i for i, it in enumerate(items[:-1]) if isinstance(it, N) and it.k in ('let', 'var')]
        if not binds:
            return None
        i = rng.choice(binds)
        if kind == 'flip_bind':
            items[i].k = 'var' if items[i].k == 'let' else 'let'
            return "bind %s is now %s" % (items[i].a[0], items[i].k)
        items.insert(i + 1, N(items[i].k, items[i].a[0], lit('int', rng)))
        return "bind %s twice" % items[i].a[0]
    if kind in ('param_cst', 'type_typo', 'ret_cst'):
        fs = all_funcs(prog)
        f = rng.choice(fs)
        if kind == 'ret_cst':
            f.rc = 'v' if f.rc != 'v' else 'd'
            return "result of %s is now %s" % (f.name, f.rc)
        if not f.params:
            return None
        p = rng.choice(f.params)
        if kind == 'param_cst':
            p.cst = 'v' if p.cst != 'v' else 'd'
            return "param %s is now %s" % (p.name, p.cst)
        p.ty = ('rec', 'NoSuchType')
        return "param %s : NoSuchType" % p.name
    if kind == 'swap_args':
        slots = [(c, k) for c, k in expr_slots(prog) if c[k].k == 'call' and len(c[k].a[1]) >= 2]
        if not slots:
            return None
        c, k = rng.choice(slots)
        a = c[k].a[1]
        a[0], a[-1] = a[-1], a[0]
        return "swapped first and last argument"
    return None
