"""Position classes of self calls (C13 / C02): which calls does the tail-call marker front/tailrec.c retag, and does a
program compute the same whether or not its frame was replaced?

Generated programs put a self call `f(n - 1, …)` under a random chain of contexts.  TAIL contexts keep tail position
(branch of ?: / if-else, last expression of a block after let / var / function items, match arm by item / record / else guard,
branch of if-let, parentheses); NON-TAIL contexts do not (operand, unary minus, argument of another call, argument of a self
call, condition, binding right side, assignment right side, non-last item of a block, body of while / for / do-while / for-in,
array element, record field, builtin argument, list-comprehension body).  The call is in tail position iff every context of
its chain is a TAIL context.  Special functions cover what the chain grammar cannot type: scrutinee of match and of if-let,
`!f(…)`, string concatenation, a self call inside a catch clause, a nested function's own tail call, a block function / a
let-bound function / a match-bound or if-let-bound name that shadows the function's name, a tail call in a function WITH catch clauses.

Three opinions are compared per function:
  (1) the generator's own expectation (how many self calls are in tail position),
  (2) the MODEL: `nmdrv tail` = `markedInBody cTab` of Model/TailRec.lean over every path of the body (and the rule `SelfTailCall`),
  (3) the IMPLEMENTATION: last calls in the function's region of the dumped code (`SLIDE q m; CALL`, no MARK).
and the program's output and result on the implementation (h_run, ASan/UBSan) against the reference evaluator (`nmdrv src`).
All-tail programs are also run at N and 10·N iterations on a 200-slot stack: the peak stack pointer must not depend on N."""
import os, re, subprocess, shutil
from common import *
import nevast

PRELUDE = """enum St { Go, Stop }
enum Opt { Some { v : int; }, None }
record R { x : int; y : int; }
func go(n : int) -> St { n > 0 ? St::Go : St::Stop }
func some(n : int) -> Opt { n > 0 ? Opt::Some(n) : Opt::None }
func inc(x : int) -> int { x + 1 }
"""

# ---------------------------------------------------------------- contexts: (name, tail?, template with {H} hole, {K} fresh number, {X} alternative, extra self calls at the context's own position)
TAIL_CTX = [
    ("cond_then", "(n > 0 ? {H} : {X})"),
    ("cond_else", "(n <= 0 ? {X} : {H})"),
    ("if_then", "if (n > 0) {{ {H} }} else {{ {X} }}"),
    ("if_else", "if (n <= 0) {{ {X} }} else {{ {H} }}"),
    ("block_let", "{{ let t{K} = acc % 7; {H} }}"),
    ("block_var", "{{ var u{K} = 1; u{K} = u{K} + 1; {H} }}"),
    ("block_func", "{{ func h{K}(z : int) -> int {{ z + 1 }}; {H} }}"),
    ("block_stmt", "{{ inc(acc); {H} }}"),
    ("match_item", "match go(n) {{ St::Go -> {H}; St::Stop -> {X}; }}"),
    ("match_else", "match go(n) {{ St::Stop -> {X}; else -> {H}; }}"),
    ("match_record", "match some(n) {{ Opt::Some(m{K}) -> {H}; Opt::None -> {X}; }}"),
    ("iflet_then", "if let (Opt::Some(m{K}) = some(n)) {{ {H} }} else {{ {X} }}"),
    ("iflet_else", "if let (Opt::None = some(n)) {{ {X} }} else {{ {H} }}"),
    ("paren", "({H})"),
]
NONTAIL_CTX = [
    ("operand_right", "(1 + {H})"),
    ("operand_left", "({H} + 1)"),
    ("neg", "(0 - (-{H}))"),
    ("arg_other", "inc({H})"),
    ("arg_self", "{F}(n - n, {H})"),          # the OUTER call is a self call at the context's position
    ("condition", "({H} % 2 == 0 ? 10 : 20)"),
    ("bind_rhs", "{{ let r{K} = {H}; r{K} + 1 }}"),
    ("assign_rhs", "{{ var r{K} = 0; r{K} = {H}; r{K} + 0 }}"),
    ("assign_last", "{{ var r{K} = 0; r{K} = {H} }}"),
    ("block_nonlast", "{{ {H}; acc + 100 }}"),
    ("while_body", "{{ var i{K} = 0; while (i{K} < 1) {{ i{K} = i{K} + 1; {H} }}; acc + 100 }}"),
    ("while_assign", "{{ var i{K} = 0; var r{K} = 0; while (i{K} < 1) {{ r{K} = {H}; i{K} = i{K} + 1 }}; r{K} }}"),
    ("for_body", "{{ var i{K} = 0; var r{K} = 0; for (i{K} = 0; i{K} < 1; i{K} = i{K} + 1) {{ r{K} = {H} }}; r{K} }}"),
    ("dowhile_body", "{{ var r{K} = 0; do {{ r{K} = {H} }} while (r{K} < 0); r{K} }}"),
    ("forin_body", "{{ var r{K} = 0; for (e{K} in [ 1 ] : int) {{ r{K} = {H} + e{K} }}; r{K} }}"),
    ("array_elem", "([ {H}, 7 ] : int)[0]"),
    ("record_field", "R({H}, 1).x"),
    ("builtin_arg", "print({H})"),
    ("listcomp_body", "([ {H} | e{K} in [ 1 ] : int ] : int)[0]"),
    ("and_operand", "({H} > 0 && n > 0 ? 1 : 0)"),
]
TAIL_NAMES = [c[0] for c in TAIL_CTX]
NONTAIL_NAMES = [c[0] for c in NONTAIL_CTX]

def chain_function(rng, fname, chain, kbase):
    """chain: list of (name, is_tail, template); innermost last.  -> (source lines, expected marked self calls, class label)"""
    step = rng.range(1, 5)
    hole = "%s(n - 1, (acc * 3 + n + %d) %% 10007)" % (fname, step)
    expr, k = hole, kbase
    # from the innermost context outwards; track whether the hole is still in tail position of what has been built
    tail_inner = True        # is the ORIGINAL self call in tail position of `expr`
    extra = []               # for each extra self call (arg_self's outer call): is it in tail position of `expr`
    for (name, is_tail, tmpl) in reversed(chain):
        k += 1
        alt = "(acc + %d)" % (1000 + k)
        new = tmpl.format(H=expr, K=k, X=alt, F=fname)
        if not new.startswith("(") and len(chain) > 1:
            new = "(" + new + ")"       # if / match / if-let / blocks as operands: keep the grouping explicit
        if not is_tail:
            tail_inner = False
            extra = [False for _ in extra]
        if name == "arg_self":
            extra.append(True)
        expr = new
    marked = (1 if tail_inner else 0) + sum(1 for e in extra if e)
    src = "func %s(n : int, acc : int) -> int\n{\n    n <= 0 ? acc : %s\n}\n" % (fname, expr)
    label = "/".join(c[0] for c in chain)
    return src, marked, label, k

SPECIALS = {}
def special(name, core=True):
    def deco(fn):
        SPECIALS[name] = (fn, core)
        return fn
    return deco

# each special returns (declarations+functions text, [(function name, expected marked)], main statements)
@special("scrut_match")
def sp_scrut_match(rng, t):
    return ("#decl enum E%s { one, two }\nfunc flip%s(n : int) -> E%s\n{\n    n <= 0 ? E%s::one : match flip%s(n - 1) { E%s::one -> E%s::two; E%s::two -> E%s::one; }\n}\n" % ((t,) * 9),
            [("flip%s" % t, 0)], ["print(flip%s(n) == E%s::one ? 1 : 2);" % (t, t), "print(flip%s(n + 1) == E%s::one ? 1 : 2);" % (t, t)])

@special("scrut_match_record")
def sp_scrut_match_record(rng, t):
    return ("func wrap%s(n : int) -> Opt\n{\n    n <= 0 ? Opt::None : match wrap%s(n - 1) { Opt::None -> Opt::Some(n); Opt::Some(v) -> Opt::Some(v + n); }\n}\n" % (t, t) +
            "func unwrap%s(o : Opt) -> int\n{\n    match o { Opt::None -> 0 - 1; Opt::Some(v) -> v; }\n}\n" % t,
            [("wrap%s" % t, 0), ("unwrap%s" % t, 0)], ["print(unwrap%s(wrap%s(n)));" % (t, t)])

@special("scrut_iflet")
def sp_scrut_iflet(rng, t):
    return ("func depth%s(n : int) -> Opt\n{\n    n <= 0 ? Opt::Some(0) : if let (Opt::Some(v) = depth%s(n - 1)) { Opt::Some(v + 1) } else { Opt::None }\n}\n" % (t, t) +
            "func val%s(o : Opt) -> int\n{\n    match o { Opt::None -> 0 - 1; Opt::Some(v) -> v; }\n}\n" % t,
            [("depth%s" % t, 0), ("val%s" % t, 0)], ["print(val%s(depth%s(n)));" % (t, t)])

@special("not_operand")
def sp_not(rng, t):
    return ("func par%s(n : int) -> bool\n{\n    n <= 0 ? true : !par%s(n - 1)\n}\n" % (t, t),
            [("par%s" % t, 0)], ["print(par%s(n) ? 1 : 0);" % t, "print(par%s(n + 1) ? 1 : 0);" % t])

@special("or_operand")
def sp_or(rng, t):
    return ("func any%s(n : int, k : int) -> bool\n{\n    n <= 0 ? false : (n == k || any%s(n - 1, k))\n}\n" % (t, t),
            [("any%s" % t, 0)], ["print(any%s(n, 1) ? 1 : 0);" % t, "print(any%s(n, 0 - 1) ? 1 : 0);" % t])

@special("str_concat")
def sp_str(rng, t):
    return ("func rep%s(n : int) -> string\n{\n    n <= 0 ? \"\" : \"a\" + rep%s(n - 1)\n}\n" % (t, t) +
            "func per%s(n : int) -> string\n{\n    n <= 0 ? \"\" : per%s(n - 1) + \"b\"\n}\n" % (t, t),
            [("rep%s" % t, 0), ("per%s" % t, 0)], ["print(length(rep%s(n)));" % t, "print(length(per%s(n)));" % t])

@special("catch_clause")
def sp_catch(rng, t):
    # the self call of the catch clause is in tail position OF THE CLAUSE: never marked (the handler runs in the function's frame)
    return ("func div%s(n : int, d : int) -> int\n{\n    n <= 0 ? 100 / d : 1 + div%s(n - 1, d)\n}\ncatch (division_by_zero)\n{\n    div%s(n, 1)\n}\n" % (t, t, t),
            [("div%s" % t, 0)], ["print(div%s(n, 0));" % t, "print(div%s(n, 2));" % t])

@special("catch_clause_tail_body")
def sp_catch_tail(rng, t):
    # tail call in the BODY of a function with catch clauses, handler completes normally: both sides agree
    return ("func safe%s(n : int, d : int) -> int\n{\n    n <= 0 ? 100 / d : safe%s(n - 1, d)\n}\ncatch (division_by_zero)\n{\n    0 - 7\n}\n" % (t, t),
            [("safe%s" % t, 1)], ["print(safe%s(n, 0));" % t, "print(safe%s(n, 5));" % t])

@special("nested_own_tail")
def sp_nested(rng, t):
    return ("func outer%s(n : int, acc : int) -> int\n{\n    func in%s(m : int, a : int) -> int\n    {\n        m <= 0 ? a : in%s(m - 1, a + 2)\n    };\n    n <= 0 ? acc : in%s(n, acc) + outer%s(n - 1, 0)\n}\n" % ((t,) * 5),
            [("outer%s" % t, 0), ("in%s" % t, 1)], ["print(outer%s(n, 1));" % t])

@special("nested_calls_outer")
def sp_nested_outer(rng, t):
    # the nested function's tail call of the OUTER function is not a self call of the nested one
    return ("func up%s(n : int, acc : int) -> int\n{\n    func back%s(m : int) -> int\n    {\n        up%s(m, acc + 1)\n    };\n    n <= 0 ? acc : back%s(n - 1)\n}\n" % ((t,) * 4),
            [("up%s" % t, 0), ("back%s" % t, 0)], ["print(up%s(n, 0));" % t])

@special("shadow_block_func")
def sp_shadow_func(rng, t):
    # line of the inner function differs from the outer's: both are told apart by their definition lines; same NAME -> keyed by line
    return ("func sh%s(n : int, acc : int) -> int\n{\n    func loc%s(m : int, a : int) -> int\n    {\n        func loc%s(q : int) -> int\n        {\n            q + 1\n        };\n        m <= 0 ? a : loc%s(m)\n    };\n    n <= 0 ? acc : sh%s(n - 1, loc%s(n, acc))\n}\n" % ((t,) * 6),
            None, ["print(sh%s(n, 0));" % t])      # duplicate names: compared through totals only

@special("shadow_let_lambda")
def sp_shadow_let(rng, t):
    return ("func lam%s(n : int, acc : int) -> int\n{\n    n <= 0 ? acc : { let lam%s = let func (a : int, b : int) -> int { a + b }; lam%s(n - 1, acc + 1) }\n}\n" % ((t,) * 3),
            [("lam%s" % t, 0)], ["print(lam%s(n, 0));" % t])

@special("shadow_match_bind")
def sp_shadow_match(rng, t):
    # a name bound by a record guard hides the function's name (the arm is visited with the guard's table since fix f0e3e9c): the
    # call of the bound function is NOT a self call.  The bound function takes MORE arguments than the enclosing one, so a wrong
    # mark slides three arguments over a one-parameter frame (the pinned tree crashed here)
    return ("#decl enum Fn%s { Has { mb%s(int, int, int) -> int; }, No }\nfunc plus%s(a : int, b : int, c : int) -> int { a + b * 10 + c * 100 }\n" % (t, t, t) +
            "func mb%s(e : Fn%s) -> int\n{\n    match e { Fn%s::Has(mb%s) -> mb%s(1, 2, 3); Fn%s::No -> 0 - 1; }\n}\n" % ((t,) * 6),
            [("plus%s" % t, 0), ("mb%s" % t, 0)], ["print(mb%s(Fn%s::Has(plus%s)));" % (t, t, t), "print(mb%s(Fn%s::No) + n);" % (t, t)])

@special("shadow_match_bind_locals")
def sp_shadow_match_locals(rng, t):
    # the same with locals and a second payload field in the frame
    return ("#decl enum Kn%s { Has { kb%s(int, int, int, int) -> int; k : int; }, No }\nfunc four%s(a : int, b : int, c : int, d : int) -> int { a + b + c + d }\n" % (t, t, t) +
            "func kb%s(e : Kn%s, n : int) -> int\n{\n    let z = n * 2;\n    match e { Kn%s::Has(kb%s, k) -> kb%s(k, z, n, 1); Kn%s::No -> 0 - 1; }\n}\n" % ((t,) * 6),
            [("four%s" % t, 0), ("kb%s" % t, 0)], ["print(kb%s(Kn%s::Has(four%s, 10), n));" % (t, t, t), "print(kb%s(Kn%s::No, n));" % (t, t)])

@special("shadow_match_bind_block")
def sp_shadow_match_block(rng, t):
    # the same arm written as a block
    return ("#decl enum Hn%s { Has { bb%s(int, int, int) -> int; k : int; }, No }\nfunc minus%s(a : int, b : int, c : int) -> int { a - b - c }\n" % (t, t, t) +
            "func bb%s(e : Hn%s, n : int) -> int\n{\n    let z = n * 2;\n    match e { Hn%s::Has(bb%s, k) -> { bb%s(k, z, 1) }; Hn%s::No -> 0 - 1; }\n}\n" % ((t,) * 6),
            [("minus%s" % t, 0), ("bb%s" % t, 0)], ["print(bb%s(Hn%s::Has(minus%s, 10), n));" % (t, t, t), "print(bb%s(Hn%s::No, n));" % (t, t)])

@special("shadow_iflet_bind")
def sp_shadow_iflet(rng, t):
    # a name bound by a record `if let` (more arguments than the enclosing function)
    return ("#decl enum Gn%s { Has { ib%s(int, int, int) -> int; }, No }\nfunc times%s(a : int, b : int, c : int) -> int { a * b + c }\n" % (t, t, t) +
            "func ib%s(e : Gn%s) -> int\n{\n    if let (Gn%s::Has(ib%s) = e) { ib%s(4, 5, 6) } else { 0 - 1 }\n}\n" % ((t,) * 5),
            [("times%s" % t, 0), ("ib%s" % t, 0)], ["print(ib%s(Gn%s::Has(times%s)));" % (t, t, t), "print(ib%s(Gn%s::No) + n);" % (t, t)])

@special("match_bind_not_shadowing")
def sp_match_bind_other(rng, t):
    # a record arm that binds OTHER names: the self call in the arm is still a self tail call (the guard's table leads on to the function's)
    return ("#decl enum Ln%s { Step { by : int; left : int; }, Done }\nfunc lcmd%s(n : int) -> Ln%s { n <= 0 ? Ln%s::Done : Ln%s::Step(2, n - 1) }\n" % ((t,) * 5) +
            "func lrun%s(c : Ln%s, acc : int) -> int\n{\n    match c { Ln%s::Done -> acc; Ln%s::Step(by, left) -> lrun%s(lcmd%s(left), acc + by); }\n}\n" % ((t,) * 6) +
            "func lif%s(c : Ln%s, acc : int) -> int\n{\n    if let (Ln%s::Step(by, left) = c) { lif%s(lcmd%s(left), acc + by) } else { acc }\n}\n" % ((t,) * 5),
            [("lcmd%s" % t, 0), ("lrun%s" % t, 1), ("lif%s" % t, 1)], ["print(lrun%s(lcmd%s(n), 0));" % (t, t), "print(lif%s(lcmd%s(n), 1));" % (t, t)])

def build_program(rng, nchain=4, nspecial=3, all_tail=False, only=None, force=None):
    """-> dict(src, funcs=[(name, line, expected)], labels, dup_names)"""
    parts, mains, funcs, labels = [PRELUDE], [], [], []
    k = 0
    for i in range(nchain):
        depth = rng.range(1, 3)
        chain = []
        want_tail = all_tail or rng.chance(0.45)
        for d in range(depth):
            if want_tail or rng.chance(0.5):
                c = rng.choice(TAIL_CTX); chain.append((c[0], True, c[1]))
            else:
                c = rng.choice(NONTAIL_CTX); chain.append((c[0], False, c[1]))
        if not want_tail and all(c[1] for c in chain):
            c = rng.choice(NONTAIL_CTX); chain[rng.below(len(chain))] = (c[0], False, c[1])
        if only is not None:
            chain = only[i % len(only)]
        fname = "f%d" % i
        src, marked, label, k = chain_function(rng, fname, chain, k)
        parts.append(src)
        funcs.append((fname, marked))
        labels.append(label)
        mains.append("print(%s(n, %d));" % (fname, rng.range(0, 9)))
    dup = False
    if not all_tail:
        names = sorted(SPECIALS)
        rng.shuffle(names)
        chosen = list(force) if force is not None else names[:nspecial]
        for j, nm in enumerate(chosen):
            fn, core = SPECIALS[nm]
            text, fl, ms = fn(rng, "%d" % j)
            parts.append(text)
            if fl is None:
                dup = True
            else:
                funcs += fl
            labels.append("special:" + nm)
            mains += ms
    parts.append("func main(n : int) -> int\n{\n    " + "\n    ".join(mains) + "\n    0\n}\n")
    body = "".join(parts)
    # declarations (enum / record) go before every function
    decls = [l[len("#decl "):] for l in body.split("\n") if l.startswith("#decl ")]
    rest = [l for l in body.split("\n") if not l.startswith("#decl ")]
    src = "\n".join(decls + rest)
    # definition line of every function (1-based): `func name(` at the start of a line, possibly indented
    lines = {}
    for ln, l in enumerate(src.split("\n"), 1):
        m = re.match(r"\s*func (\w+)\(", l)
        if m:
            lines.setdefault(m.group(1), []).append(ln)
    return dict(src=src, funcs=funcs, labels=labels, lines=lines, dup=dup)

# ---------------------------------------------------------------- the three opinions

def model_marks(jobs):
    """jobs: [(id, sexpr)] -> {id: {fname: dict(marked, spec, catch, selfcalls, paths)}}"""
    inp = "".join("tail %s\n%s\n" % (jid, se) for jid, se in jobs)
    r = subprocess.run([NMDRV, "tail"], input=inp.encode(), stdout=subprocess.PIPE, stderr=subprocess.PIPE, timeout=300)
    out = {}
    for line in r.stdout.decode("latin1").split("\n"):
        w = line.split(" ")
        if w[0] == "FN" and len(w) >= 9:
            d = dict(fid=int(w[2]))
            for x in w[4:]:
                kx, _, v = x.partition("=")
                d[kx] = v if kx == "paths" else int(v)
            out.setdefault(w[1], {}).setdefault(w[3], []).append(d)
        elif w[0] == "ERROR":
            out[w[1]] = None
    return out

def impl_marks(dump_path, opc):
    """-> {definition line: last calls in the function's code}, total, problems"""
    ins = []
    fns = []
    for l in open(dump_path):
        w = l.split()
        if not w:
            continue
        if w[0] == "i":
            ins.append((int(w[1]), int(w[2]), int(w[3]), int(w[4])))
        elif w[0] == "fn":
            fns.append(int(w[1]))
    fns = sorted(set(fns))
    code = {a: (o, x, y) for a, o, x, y in ins}
    # definition line of the function at address a: FUNC_OBJ; LINE n; (GLOBAL_VEC | COPYGLOB …); ID_FUNC_ADDR a
    defline = {}
    addrs = sorted(code)
    for idx, a in enumerate(addrs):
        o, x, y = code[a]
        if o == opc["ID_FUNC_ADDR"]:
            back = [code[b] for b in addrs[max(0, idx - 6):idx]]
            ops = [b[0] for b in back]
            if opc["FUNC_OBJ"] in ops:
                j = len(ops) - 1 - ops[::-1].index(opc["FUNC_OBJ"])
                lines = [b[1] for b in back[j:] if b[0] == opc["LINE"]]
                if lines:
                    defline.setdefault(x, lines[-1])
    per_line, total = {}, 0
    for i, start in enumerate(fns):
        end = fns[i + 1] if i + 1 < len(fns) else (addrs[-1] + 1 if addrs else 0)
        n, prev = 0, None
        for a in addrs:
            if a < start or a >= end:
                continue
            o, x, y = code[a]
            if prev is not None and prev[0] == opc["SLIDE"] and o == opc["CALL"] and prev[2] > 0:
                n += 1
            prev = (o, x, y)
        if start in defline:
            per_line[defline[start]] = per_line.get(defline[start], 0) + n
            total += n
    return per_line, total

def load_opcodes():
    src = open(os.path.join(LEAN, "NeverModel", "Gen", "Opcodes.lean")).read()
    return {n: i for i, n in enumerate(re.findall(r"^  \| (\w+)$", src, re.M))}

def peak(r):
    for l in r["lines"]:
        m = re.search(r"peak_sp=(-?\d+)", l)
        if l.startswith("end ") and m:
            return int(m.group(1))
    return None

def run(rep, tier, seed, semantic=True, marks=True, constant_stack=True, nprog=None, quiet=False):
    """the whole comparison; violations are reported through `rep` (None: collected only).  -> stats"""
    import vm_corr, src_corr
    rng = Rng(seed * 1000003 + 77)
    nprog = nprog or (10 if tier == "quick" else 80)
    opc = load_opcodes()
    st = dict(programs=0, functions=0, marks_agree=0, marks_bad=0, semantic_agree=0, semantic_bad=0, semantic_skipped=0, constant_stack_ok=0, constant_stack_bad=0,
              classes={}, specials={}, known=0)
    found = []
    def violation(tag, text, has_input=True):
        found.append(text)
        if rep is not None and len(found) <= 4:
            rep.violation(tag, text, has_input)
    h = vm_corr.VmHarness()
    d = scratch_dir("tailpos")
    try:
        exe = src_corr.build_harness(d) if semantic else None
        progs = []
        for i in range(nprog):
            p = build_program(rng.fork())
            p["id"] = "p%d" % i
            p["arg"] = rng.range(3, 9)
            progs.append(p)
        # one program holding every context once, alone in its chain (so that every class is seen whatever the seed)
        singles = [[(c[0], True, c[1])] for c in TAIL_CTX] + [[(c[0], False, c[1])] for c in NONTAIL_CTX]
        allsp = sorted(SPECIALS)
        per = -(-len(allsp) // -(-len(singles) // 6))      # every special function at least once, whatever the seed
        for j in range(0, len(singles), 6):
            k0 = (j // 6) * per
            p = build_program(rng.fork(), nchain=len(singles[j:j + 6]), only=singles[j:j + 6], force=allsp[k0:k0 + per])
            p["id"] = "s%d" % j
            p["arg"] = rng.range(3, 7)
            progs.append(p)
        # ---- parse for the model
        mjobs = []
        for p in progs:
            try:
                p["ast"] = nevast.parse_program(p["src"])
                p["sexpr"] = nevast.prog_sexpr(p["ast"])
                mjobs.append((p["id"], p["sexpr"]))
            except (nevast.Unsupported, nevast.ParseError) as e:
                p["ast"] = None
                violation("tailpos_parse_%s" % p["id"], "# checks/nevast.py cannot read a generated position-class program (%r): the model side has no opinion\n%s" % (e, p["src"]), False)
        mm = model_marks(mjobs) if (marks and mjobs) else {}
        # ---- implementation: dump + run
        for p in progs:
            st["programs"] += 1
            for lab in p["labels"]:
                for part in lab.split("/"):
                    key = "specials" if part.startswith("special:") else "classes"
                    st[key][part] = st[key].get(part, 0) + 1
            r = h.run(src=p["src"], args=[str(p["arg"])], trace=False, timeout=120, mem=20000, stack=4000)
            io = vm_corr.impl_outcome(r)
            if not io["kind"].startswith("return"):
                violation("tailpos_run_%s" % p["id"], "# a position-class program does not run to completion on the implementation: %s\n# stderr: %s\n# run: h_vm -e <program> %d\n%s"
                          % (io["kind"], r["err"][-400:].replace("\n", "\n# "), p["arg"], p["src"]), True)
                h.cleanup(r)
                continue
            if marks:
                per_line, total = impl_marks(r["dump"], opc)
                model = mm.get(p["id"]) if p["ast"] is not None else None
                bad = []
                exp_total = 0
                for (fname, expected) in p["funcs"]:
                    st["functions"] += 1
                    exp_total += expected
                    ln = p["lines"].get(fname, [None])[0]
                    got = per_line.get(ln)
                    mod = model.get(fname, [None])[0] if model else None
                    if got is None:
                        bad.append("%s (line %s): no code region found in the dump" % (fname, ln))
                        continue
                    if got != expected:
                        bad.append("%s: the implementation emitted %d last call(s), the position classes say %d" % (fname, got, expected))
                    if mod is not None and mod["marked"] != got:
                        bad.append("%s: the implementation emitted %d last call(s), the model of tailrec.c marks %d (%s)" % (fname, got, mod["marked"], mod["paths"]))
                    if mod is not None and mod["catch"] != 0:
                        bad.append("%s: the model marks a call inside a catch clause" % fname)
                if p["dup"] and model:
                    mtot = sum(x["marked"] for v in model.values() for x in v)
                    if mtot != total:
                        bad.append("program total: the implementation emitted %d last calls, the model marks %d" % (total, mtot))
                if bad:
                    st["marks_bad"] += 1
                    violation("tailpos_marks_%s" % p["id"], "# front/tailrec.c and its model / the rule of tail position disagree on which calls are last calls\n# %s\n# classes: %s\n# see: h_vm -D <dump> -e <program> (SLIDE; CALL without MARK), nmdrv tail\n%s"
                              % ("\n# ".join(bad), "; ".join(p["labels"]), p["src"]), True)
                else:
                    st["marks_agree"] += 1
            h.cleanup(r)
        if marks:
            pipe_stage(h, opc, rng.fork(), st, violation)
        # ---- semantics: implementation vs reference evaluator
        if semantic:
            pairs = [(p["id"], p["ast"], [("i", p["arg"])]) for p in progs if p["ast"] is not None]
            res = src_corr.run_pairs(exe, pairs)
            for p in progs:
                if p["ast"] is None:
                    continue
                c, det, ir, mr = res[p["id"]]
                if c == "agree":
                    st["semantic_agree"] += 1
                elif c == "disagree":
                    st["semantic_bad"] += 1
                    violation("tailpos_sem_%s" % p["id"], src_corr.replay_text("position-class program: the implementation and the reference evaluator disagree (classes: %s)" % "; ".join(p["labels"]),
                                                                              p["ast"], [("i", p["arg"])], det), True)
                else:
                    st["semantic_skipped"] += 1
                    if c in ("model_gap", "unsupported", "rejected"):
                        violation("tailpos_gap_%s" % p["id"], "# position-class program outside the reference evaluator / rejected (%s: %s)\n%s" % (c, det, p["src"]), False)
            known_stage(rep, exe, st)
        # ---- constant stack for all-tail programs
        if constant_stack:
            n1, n2 = (300, 3000)
            for i in range(2 if tier == "quick" else 10):
                p = build_program(rng.fork(), nchain=3, nspecial=0, all_tail=True)
                pk = []
                for n in (n1, n2):
                    r = h.run(src=p["src"], args=[str(n)], trace=False, timeout=300, mem=5000, stack=200)
                    io = vm_corr.impl_outcome(r)
                    pk.append((peak(r), io["kind"]))
                    h.cleanup(r)
                if not all(k.startswith("return 0") for _, k in pk) or pk[0][0] != pk[1][0]:
                    st["constant_stack_bad"] += 1
                    violation("tailpos_stack_%d" % i, "# an all-tail program (classes: %s) does not run in constant stack: N=%d -> peak_sp %s (%s), N=%d -> peak_sp %s (%s)  [stack 200]\n%s"
                              % ("; ".join(p["labels"]), n1, pk[0][0], pk[0][1], n2, pk[1][0], pk[1][1], p["src"]), True)
                else:
                    st["constant_stack_ok"] += 1
    finally:
        h.close()
        shutil.rmtree(d, ignore_errors=True)
    st["found"] = found
    return st

# ---------------------------------------------------------------- known finding: tail call under the function's own catch clauses

KNOWN_TAIL_UNDER_CATCH = """func f(n : int, d : int) -> int
{
    n == 0 ? 10 / d : f(n - 1, d)
}
catch (division_by_zero)
{
    print(n);
    n > 1 ? 100 + n : 10 / d
}
func g(n : int, d : int) -> int
{
    n == 0 ? 10 / d : 0 + g(n - 1, d)
}
catch (division_by_zero)
{
    print(n);
    n > 1 ? 100 + n : 10 / d
}
func main(k : int) -> int
{
    print(g(k, 0));
    print(f(k, 0));
    0
}
"""

def known_stage(rep, exe, st):
    """a self call in the body of a function WITH catch clauses is retagged although the function's handlers guard it: when the
    handler itself raises, the frames that a by-the-rules evaluation would still have (each with its own handler invocation) are
    gone.  `f` and `g` differ only by `0 +` in front of the recursive call."""
    import src_corr
    prog = nevast.parse_program(KNOWN_TAIL_UNDER_CATCH)
    res = src_corr.run_pairs(exe, [("k", prog, [("i", 3)])])
    c, det, ir, mr = res["k"]
    if c != "agree":
        st["known"] += 1
        if rep is not None:
            rep.finding("tail-call-under-own-catch-clauses", src_corr.replay_text("a self tail call in a function with catch clauses loses the handlers of the replaced frames", prog, [("i", 3)], det))

def pipe_stage(h, opc, rng, st, violation):
    """`|>` is outside the reference evaluator's core: the expected marks and the expected output are computed here.
    `x |> f(y)` IS the call f(x, y): its right side keeps tail position, its left side does not."""
    k = rng.range(1, 9)
    n = rng.range(3, 9)
    a = rng.range(0, 9)
    src = ("func addk(x : int, y : int) -> int { x + y }\n"
           "func p1(n : int, acc : int) -> int\n{\n    n <= 0 ? acc : (n - 1) |> p1(acc + %d)\n}\n"
           "func p2(n : int, acc : int) -> int\n{\n    n <= 0 ? acc : 1 + ((n - 1) |> p2(acc + %d))\n}\n"
           "func p3(n : int, acc : int) -> int\n{\n    n <= 0 ? acc : p3(n - 1, acc) |> addk(%d)\n}\n"
           "func p4(n : int, acc : int) -> int\n{\n    n <= 0 ? acc : { let t = acc + %d; ((n - 1) |> p4(t)) }\n}\n"
           "func main(n : int) -> int\n{\n    print(p1(n, %d));\n    print(p2(n, %d));\n    print(p3(n, %d));\n    print(p4(n, %d));\n    0\n}\n"
           % (k, k, k, k, a, a, a, a))
    exp_out = "".join("%d\r\n" % v for v in (a + n * k, a + n * k + n, a + n * k, a + n * k))
    exp_marks = dict(p1=1, p2=0, p3=0, p4=1, addk=0)
    import vm_corr
    r = h.run(src=src, args=[str(n)], trace=False, timeout=60)
    io = vm_corr.impl_outcome(r)
    out = r["out"].decode("latin1")
    bad = []
    if not io["kind"].startswith("return 0") or out != exp_out:
        bad.append("expected output %r, observed %s %r" % (exp_out, io["kind"], out))
    per_line, total = impl_marks(r["dump"], opc)
    for ln, l in enumerate(src.split("\n"), 1):
        m = re.match(r"func (\w+)\(", l)
        if m and m.group(1) in exp_marks and per_line.get(ln) != exp_marks[m.group(1)]:
            bad.append("%s: the implementation emitted %s last call(s), the position classes say %d" % (m.group(1), per_line.get(ln), exp_marks[m.group(1)]))
    h.cleanup(r)
    st["pipe_programs"] = st.get("pipe_programs", 0) + 1
    if bad:
        st["pipe_bad"] = st.get("pipe_bad", 0) + 1
        violation("tailpos_pipe", "# `|>`: the right side keeps tail position, the left side does not (expectations computed by the generator)\n# %s\n# run: h_vm -e <program> %d\n%s" % ("\n# ".join(bad), n, src), True)

def search():
    """after a broken proof or tie: a concrete program on which the implementation is wrong, if the generator finds one"""
    st = run(None, "quick", 4242, constant_stack=False, nprog=6)
    return st["found"][0] if st["found"] else None
