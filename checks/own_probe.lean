import NeverModel.Model.OwnSem
/-! Diagnosis script of checks/c16.py (not part of the library): when a table theorem of Props/C16.lean no longer checks,
this prints WHICH rows of the regenerated table fail WHICH Boolean check of Model/Own.lean, one `FAIL` line each. -/
open Never.Gen.OwnTab Never.Own Never.OwnSem

def tagName (t : Nat) : String := if t == 0 then "-" else tagNames.getD t "?"
def fnName (g : Nat) : String := fnNames.getD g "?"

def main : IO Unit := do
  for d in dels do
    if !d.isOpaque then
      for tag in tagsOf d do
        let ct := ctorsFor d tag
        if reachable ct tag then
          let rs := relsAt d tag
          for f in d.fields do
            if holds ct f && !fieldOk rs f tag then
              IO.println s!"FAIL owned_fields_released | {d.name} | tag {tagName tag} | member {f.name} is owned, can be filled ({(ct.filter fun c => c.inits.any fun i => i.field == f.id).map (·.name)}), and is not released by {fnName (releaseFn f)} on that arm"
        if !noDoubleIn (relsAt d tag) then
          IO.println s!"FAIL no_double_release | {d.name} | tag {tagName tag} | releases: {(relsAt d tag).map (·.text)}"
        for r in relsAt d tag do
          if !relKeptOk r tag then
            IO.println s!"FAIL borrowed_never_released | {d.name} | tag {tagName tag} | {r.text} releases a member classified borrowed / released elsewhere"
      if !rightFunctionOk d then
        for r in allRels d do
          match d.fields.find? (fun f => f.id == r.field) with
          | some f => if !(f.off == r.off && (r.deep || r.fn == releaseFn f)) then
              IO.println s!"FAIL releases_use_the_deleter_of_the_type | {d.name} | {r.text}: member {f.name} is released by {fnName (releaseFn f)}"
          | none => IO.println s!"FAIL releases_use_the_deleter_of_the_type | {d.name} | {r.text}: no such member"
      if !ctorsKnownOk d then
        IO.println s!"FAIL constructors_fill_only_known_fields | {d.name} | a constructor stores to a member that is not in the table"
      if !ctorsFreshOk d then
        for c in d.ctors do
          for i in c.inits do
            if isFresh i.src && (if c.tags.isEmpty then [0] else c.tags).any (isBorrowed i.field) then
              IO.println s!"FAIL fresh_allocations_go_to_released_fields | {c.name} | {i.arg}: a fresh allocation is stored into a borrowed member"
      if !edgesMatchOk d then
        for tag in tagsOf d do
          if inScope d tag && !List.isPerm ((relEdges d tag).filter fun e => heldOff d tag e.off) (ownedEdges d tag) then
            IO.println s!"FAIL table_edges_match | {d.name} | tag {tagName tag} | released (offset, type, link): {((relEdges d tag).filter fun e => heldOff d tag e.off).map fun e => (e.off, typeNames.getD e.ty "?", e.link)} owned: {(ownedEdges d tag).map fun e => (e.off, typeNames.getD e.ty "?", e.link)}"
      if !unguardedOk d then
        IO.println s!"FAIL unguarded_releases_never_null | {d.name} | an unguarded delete of a member that a constructor sets to NULL"
  for l in lates do
    if !lateFreshOk l then
      IO.println s!"FAIL fresh_allocations_go_to_released_fields | {l.fns} | a fresh allocation is stored into a borrowed member"
  for r in specialRules do
    if !elsewhereOk r then
      IO.println s!"FAIL elsewhere_released_there | member #{r.field} | the function named by the discipline does not release it"
  for r in retags do
    if !retagReviewed r && !retagOk r then
      IO.println s!"FAIL retag_keeps_ownership_partial | {r.name} | a member owned under the old tag is neither released by the retagging block nor by the arm of the new tag ({tagName r.tag}) of the delete function"
  if !(rowsFrom dels 0 && idsFrom fields 0 && fields.length == nFields && borrowedAlways.all (· < nFields)) then
    IO.println "FAIL own_table_consistent | layout of the generated table"
  for r in localAllocs do
    if r.lost then
      IO.println s!"FAIL local_allocations_handed_on | {r.name}"
  for p in problems do
    IO.println s!"FAIL own_table_consistent | translator: {p}"
  for w in wildStores do
    IO.println s!"WILD {w.1} | {w.2}"
  IO.println s!"PROBE dels={dels.length} fields={nFields} ctors={ctors.length} retag_shapes={retags.length} retag_sites={(retags.map (·.count)).sum} lates={lates.length}"
