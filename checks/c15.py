"""C15 — the embedding API is repeatable, isolated and deterministic over any history."""
import re, hashlib
from common import *
import vm_corr, vm_checks, progs

PROP_MODULE = "NeverModel.Props.C15"
REQUIRED = ["Never.C15.mark_ret_roundtrip", "Never.C15.execute_restores_sp", "Never.C15.first_execute_initialises_once", "Never.C15.failed_execute_restores_sp", "Never.C15.compile_state_accounted", "Never.C15.globals_translated",
            "Never.C15.call_restores_sp", "Never.C15.history_restores_sp", "Never.C15.history_then_begin_restores_sp"]

API_PROG = """
var total = %d;
var log = "";
func reset_all(k : int) -> int { total = 0; log = ""; 0 - 1 }
func reset(k : int) -> int { total = k; total }
func add(k : int) -> int { total = total + k; log = log + "a" + k; total }
func fail(k : int) -> int { 10 / (k - k) }
func safe(k : int) -> int { 100 / k } catch (division_by_zero) { 0 - 7 }
func deep(k : int) -> int { k <= 0 ? total : 1 + deep(k - 1) }
func len(k : int) -> int { length(log) + k }
func main(k : int) -> int { add(k) + add(1) }
"""
ENTRIES = ["reset_all", "reset", "add", "fail", "safe", "deep", "len", "main"]

PRE_POOL = [
    "func main() -> int { 1 }",
    "func main() -> int { 1 } /* never closed",
    "func main() -> int { prints(\"never closed); 1 }",
    "func main( -> int { 1 }",
    "func main() -> int { undefined_name + 1 }",
    "func f(a : int) -> int { a } func main() -> int { f(1, 2) }",
    "use nosuchmodule_xyz func main() -> int { 1 }",
    "enum E { A, B } func main() -> int { match E::A { E::A -> 1; } }",
    "func main() -> int { let s = \"abc\"; s + 1 ; 0 }",
    "",
]

def digest(path):
    try:
        return hashlib.sha256(open(path, "rb").read()).hexdigest()[:16]
    except IOError:
        return "none"

def check(tier, seed):
    rep = Report("C15", tier, seed, "proof")
    proof_stage(rep, PROP_MODULE, required=REQUIRED)
    h = vm_corr.VmHarness()
    rng = Rng(seed)
    stats, samples = {}, []
    nhist = 40 if tier == "quick" else 600
    viol = 0
    slot_leak = 0
    # (1) call histories on one VM, replayed in lockstep on the model
    for hi in range(nhist):
        r0 = rng.fork()
        if hi % 4 == 3:
            # entry names that are prefixes of one another (the longer one declared first), few enough to share hash chains
            stems = r0.choice([["reset", "get"], ["a", "b", "c"], ["run", "step", "x"], ["reset"]])
            body = "".join("func %s_all(k : int) -> int { %d }\nfunc %s(k : int) -> int { %d + k }\n" % (st, 1000 + i, st, 10 * i) for i, st in enumerate(stems))
            src = body + "func main(k : int) -> int { k }\n"
            names = [x for st in stems for x in (st, st + "_all")]
            calls = ["%s:%d" % (r0.choice(names), r0.range(0, 9)) for _ in range(r0.range(2, 6))]
        else:
            src = API_PROG % r0.range(0, 50)
            ncalls = r0.range(2, 8)
            calls = []
            for c in range(ncalls):
                e = r0.choice(ENTRIES) if not (c == 0 and r0.chance(0.35)) else "fail"
                calls.append("%s:%d" % (e, r0.choice([0, 1, 2, 5, 30]) if e != "deep" else r0.choice([0, 3, 20])))
        cs = ";".join(calls)
        r = h.run(src=src, calls=cs, gc=r0.choice([0, 0, 1]), mem=r0.choice([5000, 1500]), stack=r0.choice([200, 400]))
        ml, me = h.model(r)
        st, det = vm_corr.compare(r, ml, me)
        stats[st] = stats.get(st, 0) + 1
        io = vm_corr.impl_outcome(r)
        if len(samples) < 3:
            samples.append(dict(calls=cs, execs=[e.split(" ", 2)[2] for e in io["execs"]][:4]))
        # entry lookup: prepared address = the function table's entry with exactly that name
        ftab = {}
        try:
            for l in open(r["dump"]):
                w = l.split()
                if w and w[0] == "func":
                    ftab[w[1]] = int(w[2])
        except IOError:
            pass
        for l in r["lines"]:
            m = re.match(r"prepare 0 entry_addr=(\d+) .*name=(\w+)", l)
            if m and ftab and ftab.get(m.group(2)) != int(m.group(1)) and viol < 3:
                viol += 1
                rep.violation("c15_entry_%d" % hi, "# nev_prepare(\"%s\") selected address %s, the function table says %s\n# calls: %s\n%s" % (m.group(2), m.group(1), ftab.get(m.group(2)), cs, src), True)
        # stack use per call
        for e in io["execs"]:
            m = re.search(r"ret=(\d+) sp_before=(-?\d+) sp_after=(-?\d+)", e)
            # every call on an initialised machine — successful or ended by an unhandled exception — must return with the
            # stack pointer it found ("repeatable over any history": a leaked slot per call ends in 'stack too large')
            if m and int(m.group(2)) >= 0:
                d = int(m.group(3)) - int(m.group(2))
                if d == 1 and m.group(1) == "0":
                    slot_leak += 1
                elif d != 0 and viol < 3:
                    viol += 1
                    rep.violation("c15_sp_%d" % hi, "# a nev_execute call (ret=%s) on a reused machine changed vm.sp by %d\n# calls: %s\n%s" % (m.group(1), d, cs, src), True)
        if st not in ("ok", "both-crash") and viol < 3:
            viol += 1
            crashed = io["kind"].startswith(("sanitizer", "signal", "assert", "crash"))
            rep.violation("c15_hist_%d" % hi, "# API history diverges from the model (%s): calls %s gc=%s\n# %s\n# I: %s %s\n%s" % (st, cs, r["cfg"], det.replace("\n", "\n# "), io["kind"], r["err"][-300:].replace("\n", " "), src), crashed)
        h.cleanup(r)
    if slot_leak:
        rep.finding("execute-leaves-result-slot", "%d successful nev_execute calls returned with sp = sp_before + 1 (Never.C15.execute_leaves_result_slot_counterexample)" % slot_leak)
    # (2) compile determinism: same source, whatever was compiled before it in the process (and still alive)
    targets = [API_PROG % 3] + [p[1] for p in progs.generate(seed, 1)[:6 if tier == "quick" else 18]]
    ndet = 0
    for t in targets:
        base = h.run(src=t, trace=False, calls="main:1")
        bkey = (tuple(l for l in base["lines"] if l.startswith(("compile", "msg"))), digest(base["dump"]))
        h.cleanup(base)
        pres = [[p] for p in PRE_POOL] + [[rng.choice(PRE_POOL), rng.choice(PRE_POOL), rng.choice(PRE_POOL)] for _ in range(2 if tier == "quick" else 12)]
        for pre in pres:
            r = h.run(src=t, trace=False, calls="main:1", pre=pre)
            key = (tuple(l for l in r["lines"] if l.startswith(("compile", "msg"))), digest(r["dump"]))
            ndet += 1
            if key != bkey and viol < 3:
                viol += 1
                rep.violation("c15_compile_det_%d" % ndet, "# compiling the same source gives a different result after other compilations in the same process\n# alone: %s\n# after %r: %s\n# stderr: %s\n%s" % (bkey[0][:3], pre, key[0][:3], r["err"][-300:].replace("\n", " "), t), True)
            h.cleanup(r)
    # (3) the diagnostics of a failing compile belong to THAT compile: a file that cannot be opened, a syntax error, a type error —
    # alone, after a longer program that is still alive, and after one that was deleted: same lines (same line numbers), all of them
    # in the failing program's own message array, none added to an earlier program's, no access to a deleted one (ASan)
    LONG = "".join("func a%d() -> int { %d }\n" % (i, i) for i in range(8)) + "func main() -> int { a0() }\n"
    fails = [dict(file="/nonexistent_dir_verif/missing.nev"), dict(src="func main( -> int { 1 }"), dict(src="\n\nfunc main() -> int { nosuch + 1 }")]
    nown = 0
    for tgt in fails:
        base = h.run(trace=False, calls="main:1", **tgt)
        bkey = tuple(l for l in base["lines"] if l.startswith(("compile", "msg")))
        h.cleanup(base)
        if not any(l.startswith("msg ") for l in bkey) and viol < 3:
            viol += 1
            rep.violation("c15_diag_not_recorded_%d" % nown, "# a failing compile left no diagnostic in its own program's message array\n# target %r\n# result lines %r\n# stderr %s" % (tgt, bkey, base["err"][-300:]), True)
        for pre in ([LONG], ["@del:" + LONG], ["@del:" + LONG, "func main() -> int { 2 }"], ["@file:/nonexistent_dir_verif/other.nev", LONG]):
            r = h.run(trace=False, calls="main:1", pre=pre, **tgt)
            io = vm_corr.impl_outcome(r)
            key = tuple(l for l in r["lines"] if l.startswith(("compile", "msg")))
            prec = {l.split()[1]: l.split()[3] for l in r["lines"] if l.startswith("precompile ")}
            post = {l.split()[1]: "msgs=" + l.split()[2] for l in r["lines"] if l.startswith("premsgs ")}
            grew = [k for k in post if prec.get(k) != post[k]]
            nown += 1
            crashed = io["kind"].startswith(("sanitizer", "signal", "assert", "crash"))
            if (key != bkey or grew or crashed) and viol < 3:
                viol += 1
                rep.violation("c15_diag_owner_%d" % nown, "# the diagnostics of a failing compile depend on / leak into earlier compilations\n# target %r after %r\n# alone: %r\n# now:   %r\n# earlier programs whose message count changed: %s\n# outcome %s\n# stderr: %s"
                              % (tgt, [p[:40] for p in pre], bkey, key, grew, io["kind"], r["err"][-600:].replace("\n", "\n# ")), True)
            h.cleanup(r)
    # (3b) the working directory of the process is state as well: module search along a relative NEVER_PATH (found in the first
    # element, in the last, nowhere) must leave the process where it was — a later compile resolves relative names from there
    USES = ["use nosuchmodule_xyz\nfunc main() -> int { 1 }\n", "use vshapes\nfunc main() -> int { 1 }\n", "func main() -> int { 1 }\n"]
    lk = os.path.join(VERIF, "corpus", "leak")
    ncwd = 0
    for np in ("modules", ".:modules", "modules:.", "nonexistent_dir_verif:modules", "modules:nonexistent_dir_verif"):
        for pre in ([USES[0]], [USES[1]], [USES[0], USES[1]], [USES[1], USES[0]]):
            r = h.run(src=USES[1], trace=False, calls="main", pre=pre, cwd=lk, never_path=np)
            ncwd += 1
            moved = [l for l in r["lines"] if l.startswith("cwd_after") and l.endswith(" 1")]
            comp = [l for l in r["lines"] if l.startswith("compile ")]
            if (moved or not comp or not comp[0].startswith("compile 0")) and viol < 3:
                viol += 1
                rep.violation("c15_cwd_%d" % ncwd, "# a compilation left the process in another working directory, or a module that is on the (relative) search path is no longer found after an earlier compilation\n# NEVER_PATH=%s (relative to %s)\n# pre-compiles: %r\n# result lines: %r\n# stderr: %s"
                              % (np, lk, pre, [l for l in r["lines"] if l.startswith(("cwd", "compile", "precompile", "msg"))], r["err"][-300:]), True)
            h.cleanup(r)
    stats["cwd_cases"] = ncwd
    # (3c) run-time diagnostics belong to the program that is executing: two programs alive, faults of each on own and shared machines,
    # a compile in between (harness h_leak's API histories; the ownership test is C16's `message_owner_violations`)
    import c16, leak_stream as ls, shutil as _sh
    d16 = scratch_dir("c15own")
    try:
        exe16 = ls.build(d16)
        hist = c16.api_histories()[-1][1]
        item = dict(name="own", cls="history", history=hist, src="\n".join(" ".join(repr(x) if isinstance(x, str) and " " in x else str(x) for x in st) for st in hist))
        hres, _ = ls.run_stream(exe16, [item], d16, REPO, tag="own")
        tr = (hres[0].get("res") or {}).get("trace", "")
        stats["msg_owner_steps"] = len(re.findall(r" m\d+=", " " + tr))
        bad = c16.message_owner_violations(hist, tr)
        if (bad or hres[0].get("crash") or stats["msg_owner_steps"] < 8) and viol < 3:
            viol += 1
            rep.violation("c15_msg_owner", "# a run-time diagnostic went to another program's message array (or the history did not run)\n# %s\n# trace: %s\n# crash: %s\n%s" % (bad[:3], tr, (hres[0].get("crash") or "")[-300:], item["src"]), True)
    finally:
        _sh.rmtree(d16, ignore_errors=True)
    # (3d) the LABEL of a run-time diagnostic is the running program's own name, whatever was compiled after it (a string, a file whose
    # name buffer is gone): `<stdin>:3: error: cannot divide by zero`, stored in the running program, nothing in the other one
    LBL = "func safe(a : int) -> int\n{\n    10 / a\n}\nfunc main() -> int { 0 }\n"
    other = os.path.join(VERIF, "corpus", "src", "loops.nev")
    nlbl = 0
    for post in (None, "func main() -> int { 2 }\n", "@file:" + other, "func main( -> int { 2 }\n"):
        r = h.run(src=LBL, trace=False, calls="safe:0;safe:5;safe:0", post=post)
        nlbl += 1
        em = [bytes.fromhex(l.split()[1]).decode("latin1") for l in r["lines"] if l.startswith("emsg ") and len(l.split()) > 1]
        pm = [l for l in r["lines"] if l.startswith(("postcompile", "postmsgs"))]
        io = vm_corr.impl_outcome(r)
        okl = len(em) == 2 and all(m.startswith("<stdin>:3: error: cannot divide by zero") for m in em)
        grew = len(pm) == 2 and pm[0].split()[2] != "msgs=" + pm[1].split()[1]
        if (not okl or grew or io["kind"].startswith(("sanitizer", "signal", "crash"))) and viol < 3:
            viol += 1
            rep.violation("c15_msg_label_%d" % nlbl, "# run-time diagnostics of a program compiled from a string must read `<stdin>:3: error: cannot divide by zero` (twice) and stay out of a program compiled later\n# compiled afterwards: %r\n# messages of the running program: %r\n# later program: %r\n# outcome %s stderr %s\n%s"
                          % (post, em, pm, io["kind"], r["err"][-300:], LBL), True)
        h.cleanup(r)
    stats["msg_label_cases"] = nlbl
    # (4) a machine whose global initialisation FAILED: every later call must behave like the same call on a fresh machine (which
    # runs the initialisation again and fails again) — not return values computed from globals that were never built
    GINIT = "var z = 0; var a = 5; var b = 10 / z; var c = 7;\nfunc get(x : int) -> int { a + c + x }\nfunc main() -> int { get(1) }\n"
    r = h.run(src=GINIT, trace=False, calls="get:1;get:1;get:2")
    ex = [l for l in r["lines"] if l.startswith("exec ")]
    fresh = h.run(src=GINIT, trace=False, calls="get:2")
    fx = [l for l in fresh["lines"] if l.startswith("exec ")]
    stats["failed_init_calls"] = len(ex)
    if len(ex) == 3 and fx and " ret=1 " in ex[0] and " ret=1 " in fx[0]:
        later_ok = [l for l in ex[1:] if " ret=0 " in l]
        if later_ok:
            rep.finding("failed-global-init-leaves-machine-initialised", "# first nev_execute fails inside the global initialisation (10 / z); later calls on the same machine\n# %s\n# the same call on a fresh machine\n# %s\n%s" % ("\n# ".join(ex), fx[0], GINIT))
    elif viol < 3:
        viol += 1
        rep.violation("c15_failed_init_shape", "# the failing-initialisation history did not run as expected\n# %r\n# %r\n%s" % (ex, fx, r["err"][-400:]), False)
    h.cleanup(r); h.cleanup(fresh)
    # (5) many entry points: every top-level function of a program with dozens of them is found by name (the entry table grows
    # through several capacities; names chosen so that many collide), prepared and executed on one machine, in a seeded order
    stats["entry_points_called"] = 0
    for pi, (prefix, nchain) in enumerate([("", 0)] + [(pf, nc) for pf in ("q", "r", "s", "t", "u", "v") for nc in (12, 20, 32, 48)]):
        if prefix == "":
            names = ["e%d" % i for i in range(40)] + ["on_key", "on_tick", "on_exit", "main2", "a", "b", "ab", "ba", "entry_with_a_rather_long_name_%d" % rng.range(0, 9)]
        else:
            # 32 names with ONE value of the identifier hash (two-character blocks "az" / "bY" contribute equally): one long probe
            # chain that every growth of the table has to move; a different prefix puts the chain elsewhere in the table
            names = [prefix + "".join("az" if (i >> k) & 1 else "bY" for k in range(6)) for i in range(nchain)]
        msrc = "".join("func %s(x : int) -> int { x + %d }\n" % (nm, 10 * i) for i, nm in enumerate(names)) + "func main() -> int { 0 }\n"
        order = list(range(len(names))); rng.shuffle(order)
        order = order[:60]
        r = h.run(src=msrc, trace=False, calls=";".join("%s:%d" % (names[i], i % 7) for i in order))
        ex = [l for l in r["lines"] if l.startswith("exec ")]
        pr = [l for l in r["lines"] if l.startswith("prepare ")]
        stats["entry_points_called"] += len(ex)
        want = ["I%d" % (i % 7 + 10 * i) for i in order]
        got = [(re.search(r"result=(\S+)", l) or [None, "?"])[1] for l in ex]
        if (got != want or any(not l.startswith("prepare 0") for l in pr)) and viol < 3:
            viol += 1
            badk = next((k for k in range(len(order)) if k >= len(got) or got[k] != want[k]), None)
            rep.violation("c15_entry_lookup_%d" % pi, "# an entry point of a program with %d top-level functions was not found / ran another function: call %s -> %s (expected %s)\n# prepare lines: %s\n# stderr: %s\n%s"
                          % (len(names) + 1, names[order[badk]] if badk is not None else "?", got[badk] if badk is not None and badk < len(got) else "missing", want[badk] if badk is not None else "?",
                             [l for l in pr if not l.startswith("prepare 0")][:3], r["err"][-300:], msrc), True)
        h.cleanup(r)
    r = None
    h.close()
    stats["diagnostic_owner_cases"] = nown
    rep.cov.update(trusted_base=["Lean 4.33 kernel", "axioms: propext, Classical.choice, Quot.sound", "h_vm.c (call lists, pre-compiles) + comparator", "gcc/ASan"],
                   evaluations=nhist + ndet, distinct_nontrivial=nhist,
                   rule="seeded histories of 2..8 nev_prepare/nev_execute calls over 8 entry points (incl. a failing first call) on one VM, replayed in lockstep on the Lean VM; entry addresses checked against the function table; each target source compiled alone and after 1..3 other (valid and invalid) compilations kept alive, code dump and diagnostics compared",
                   samples=samples, statuses=stats, compile_determinism_cases=ndet, executes_leaving_a_slot=slot_leak)
    rep.assumptions = ["compile_resets_all_globals (table of file-scope variables) is not built: the compile-determinism half is differential testing only",
                       "program_delete / vm_delete interleavings are exercised by C16's API histories"]
    return rep.finish()

def replay(path):
    print(open(path).read()); return 0
