#!/bin/bash
# wave_eval.sh <seed-id> [extra check ids...] : evaluate one staged seeded change (seeded/<id>/ must exist in /verif with patch.diff, demo.sh):
#   1. independent confirmation in a scratch worktree (confirm_seed.sh)   2. the property's quick check (and the extra ones) against the patched tree,
#   from a private copy of /verif and a private build cache.  Output: /var/tmp/wave/<id>.log ; scratch removed afterwards.
id=$1; shift; extra="$@"
V=/verif; W=/var/tmp/wave; mkdir -p $W
log=$W/$id.log; prop=${id%%-*}
if [ -n "$WAVE_APPEND" ]; then prop=""; else : > $log; echo "== confirm" >> $log; bash $V/checks/confirm_seed.sh $V/seeded/$id >> $log 2>&1; fi
cp=$W/verif-$id$WAVE_APPEND; wt=/tmp/wave-wt-$id$WAVE_APPEND
rm -rf $cp; mkdir -p $cp; (cd $V && git ls-files -z | xargs -0 cp --parents -t $cp) ; cp -r $V/lean/.lake $cp/lean/.lake
git -C /repo worktree remove --force $wt >/dev/null 2>&1; rm -rf $wt
git -C /repo worktree add -q --detach $wt HEAD
if git -C $wt apply $V/seeded/$id/patch.diff 2>/dev/null || git -C $wt apply --3way $V/seeded/$id/patch.diff; then
  for c in $prop $extra; do
    s=$(date +%s)
    out=$(cd $cp && NEVER_REPO=$wt NEVER_VERIF_CACHE=$W/cache-$id$WAVE_APPEND NEVER_VERIF_SCRATCH=$W/scratch-$id$WAVE_APPEND timeout 2400 python3 checks/check.py $c --tier quick 2>&1 | grep -v "^KNOWN")
    nv=$(echo "$out" | grep -c "^VIOLATION"); nf=$(echo "$out" | grep "^VIOLATION" | grep -vc "no-failing-input-found")
    echo "== check $c violations=$nv with_input=$nf wall=$(( $(date +%s) - s ))s" >> $log
    echo "$out" | grep "^VIOLATION" | head -3 | cut -c1-200 >> $log
    first=$(echo "$out" | grep "^VIOLATION" | head -1 | sed 's/.*replay=//; s/ .*//')
    [ -n "$first" ] && [ -f "$first" ] && head -c 1500 "$first" >> $log && echo >> $log
  done
else
  echo "== PATCH DOES NOT APPLY" >> $log
fi
git -C /repo worktree remove --force $wt >/dev/null 2>&1; rm -rf $wt $cp $W/cache-$id$WAVE_APPEND $W/scratch-$id$WAVE_APPEND
echo "== done" >> $log
