#!/usr/bin/env python3
"""Entry point: check.py <Cxx> [--tier quick|thorough] [--replay file]"""
import argparse, importlib, os, sys
sys.path.insert(0, os.path.dirname(os.path.abspath(__file__)))
import common

def main():
    ap = argparse.ArgumentParser()
    ap.add_argument("pid")
    ap.add_argument("--tier", default=os.environ.get("VERIF_TIER", "quick"))
    ap.add_argument("--replay")
    a = ap.parse_args()
    tier = a.tier if a.tier in ("quick", "thorough") else "quick"
    mod = importlib.import_module(a.pid.lower())
    seed = common.seed_from_env()
    if a.replay:
        sys.exit(mod.replay(a.replay))
    sys.exit(mod.check(tier, seed))

if __name__ == "__main__":
    main()
