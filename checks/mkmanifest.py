#!/usr/bin/env python3
"""Regenerates MANIFEST.json from the table below (keeps it valid at all times)."""
import json, os, subprocess
V = os.path.dirname(os.path.dirname(os.path.abspath(__file__)))
props = [json.loads(l) for l in open(os.path.join(V, "properties.jsonl"))]
ids = [p["id"] for p in props]
CHECKS = {}
def claim(pid, cat, text, note, technique, ref):
    CHECKS[pid] = dict(property_id=pid,
        quick_cmd="python3 checks/check.py %s --tier quick" % pid,
        thorough_cmd="python3 checks/check.py %s --tier thorough" % pid,
        evidence_file="/verif/evidence/%s.json" % pid,
        replay_cmd_template="python3 checks/check.py %s --replay {path}" % pid,
        engine="lean-proof+correspondence",
        level_claimed=dict(category=cat, text=text, design_ref=ref),
        level_note=note, technique=technique)

exec(open(os.path.join(V, "checks", "claims.py")).read())

hooks_commits = subprocess.run(["git", "-C", "/repo", "log", "--format=%H", "--grep=^verif hooks"], stdout=subprocess.PIPE, text=True).stdout.split()
m = dict(version=1,
    setup_cmd="cd /verif/lean && lake build NeverModel nmdrv",
    hooks=dict(guard="NEVER_VERIF", enable="checks/buildimpl.py compiles a scratch copy of /repo's working tree with gcc -DNEVER_VERIF -fwrapv -fsanitize=address,undefined (asserts on)",
               baseline_off_cmd="cmake --build /repo/_build && ctest --test-dir /repo/_build -j8 --timeout 900",
               source_commits=hooks_commits, add_only=True),
    engines=[dict(name="lean-proof+correspondence", path="/verif/lean", serves_properties=sorted(CHECKS),
                  kind_free_text="Lean 4 theorems over an executable model (lean/NeverModel), tied to /repo by translators (gen/) and by correspondence harnesses (harness/, compiled Lean driver nmdrv)")],
    checks=[CHECKS[i] for i in ids if i in CHECKS],
    not_applicable=[dict(property_id=i, reason=NOT_YET.get(i, "check not built yet in this session; see DESIGN.md for the plan")) for i in ids if i not in CHECKS],
    notes="see DESIGN.md; known_findings.json lists genuine defects of the pinned tree")
json.dump(m, open(os.path.join(V, "MANIFEST.json"), "w"), indent=1)
print("claimed:", sorted(CHECKS), "not:", [i for i in ids if i not in CHECKS])
