"""C05 — the compiler is total: any input is accepted or diagnosed, never crashes.

Decided in three layers (DESIGN.md §3 C05; the headline claim is PARTIAL and says so):
  proof   Props/C05.lean over Model/Diag.lean: the diagnostic buffer and message array of print_msg, the
          scanner's use stack / module table / scanner_destroy, the stage pipeline of nev_compile;
  tie     T: constants and shapes extracted from utils.c / scanner.l instantiate the (parametric)
          theorems; X: print_msg grid, use graphs, lexer re-entry, per-stage (rc, errors) of every
          compiled input against `nmdrv diag`;
  hunt    a seeded malformed stream compiled in-process under ASan/UBSan, one forked child per input;
          the property's own observable decides; failures grouped by signature."""
import shutil
from common import *
import cc_corr

PROP_MODULE = "NeverModel.Props.C05"
REQUIRED = ["Never.C05.diag_buffer_in_bounds", "Never.C05.diag_buffer_in_bounds_partial", "Never.C05.diag_buffer_in_bounds_counterexample",
            "Never.C05.msg_array_in_bounds", "Never.C05.use_stack_bounded", "Never.C05.use_stack_balanced",
            "Never.C05.status_reflects_diagnostics", "Never.C05.status_reflects_diagnostics_counterexample",
            "Never.C05.lexer_reentry_after_eof_counterexample"]
PINNED = dict(M=1024, mode="full", grow=10, MAX_USE_DEPTH=16, dim=16, lim=16)

def check(tier, seed):
    rep = Report("C05", tier, seed, "proof")
    work = scratch_dir("c05")
    consts, bad = cc_corr.extract_consts()
    def search():
        try:
            return cc_corr.search_failing_input(cc_corr.Impl(work), dict(PINNED, **consts))
        except Exception as e:
            return None
    try:
        proof_stage(rep, PROP_MODULE, search=search, required=REQUIRED)
        if bad:
            found = search()
            rep.violation("tie_broken", "# translator tie broken: the text of print_msg / the <USE> rule is no longer the one the theorems of Props/C05.lean are instantiated with\n# "
                          + "\n# ".join(bad) + ("\n# a failing input was found:\n" + found if found else "\n# no failing input found with the targeted search (long identifiers, use chains around the guard)"), bool(found))
        try:
            st = cc_corr.run_correspondence(rep, tier, seed, dict(PINNED, **{k: v for k, v in consts.items() if v is not None}), work)
        except RuntimeError as e:
            rep.violation("build_failed", "# the implementation or the harness does not build from the current tree; nothing can be checked\n# " + str(e)[-3000:].replace("\n", "\n# "), False)
            st = {}
        n3 = st.get("x3_inputs", 0)
        rep.cov.update(
            trusted_base=["Lean 4.33 kernel", "axioms: propext, Classical.choice, Quot.sound",
                          "extractor of constants/shapes (regular text over utils.c, scanner.l) in cc_corr.extract_consts",
                          "harness h_cc.c (ld --wrap on the stage functions and fopen/fclose; stderr parsing) + cc_corr.py generators and signature function",
                          "gcc, ASan/UBSan runtimes, bison, flex, glibc snprintf/vsnprintf semantics as modelled (C11 7.21.6.5)",
                          "protocol assumption named in use_stack_bounded: no <USE> rule after the final <<EOF>>"],
            evaluations=st.get("x1_cases", 0) + st.get("x2_graphs", 0) + st.get("x2_reentry_cases", 0) + n3,
            distinct_nontrivial=st.get("x3_distinct_inputs", 0),
            rule="X1: grid of (file-name length, line, message length around the buffer edge, earlier messages); X2: seeded use graphs (chain/deep/self/cycle/missing/random), lexer re-entry sources; "
                 "X3: corpus + deep nesting (constructs x depths) + samples + seeded byte/token/semantic mutations, truncations, splices, long tokens, garbage, unterminated literals, use text; an input is distinct by its bytes",
            samples=[dict(kind=k, count=v) for k, v in sorted(st.get("x3_kinds", {}).items())][:12],
            consts_today=consts, tie_problems=bad, correspondence=st)
        rep.assumptions = ["HEADLINE PARTIAL: memory safety and termination of the flex/bison automata, the semantic actions, the typechecker and the emitter on arbitrary bytes are NOT proved; they are only hunted by the seeded stream (testing)",
                           "M-Diag is a hand model of print_msg, the <USE>/<<EOF>> rules, scanner_destroy and nev_compile, tied by T (constants, shapes) and X (grids, graphs, per-stage results)",
                           "snprintf/vsnprintf write min(len, n-1) characters and a NUL and return len; unsigned int is 32 bits"]
    finally:
        shutil.rmtree(work, ignore_errors=True)
    return rep.finish()

def replay(path):
    work = scratch_dir("c05replay")
    try:
        failing, text = cc_corr.replay_file(path, work)
    finally:
        shutil.rmtree(work, ignore_errors=True)
    print(text)
    print("property C05: %s" % ("FAILS on this input (new failure)" if failing else "no new failure on this input (holds, or a listed known finding)"))
    return 1 if failing else 0
