"""C03 — run-time faults become exceptions delivered to the right catch clause."""
import re
from common import *
import exc_corr, vm_corr, vm_checks, progs

PROP_MODULE = "NeverModel.Props.C03"
REQUIRED = ["Never.C03.fault_enters_the_block_handler", "Never.C03.exctab_search_correct", "Never.C03.exctab_block_unique", "Never.C03.exctab_search_in_bounds",
            "Never.C03.clear_stack_resets_frame", "Never.C03.rethrow_pops_one_frame", "Never.C03.pp_discipline"]

def exctab_audit(dump_path):
    """static audit of an emitted module: table well-formed (first block 0, strictly increasing, sentinel) and every
    handler entry is CLEAR_STACK, RETHROW or UNHANDLED_EXCEPTION"""
    code, exc = {}, []
    try:
        for l in open(dump_path):
            w = l.split()
            if not w: continue
            if w[0] == "i": code[int(w[1])] = int(w[2])
            elif w[0] == "x": exc.append((int(w[1]), int(w[2])))
    except IOError:
        return None
    if not exc:
        return "empty exception table"
    if exc[0][0] != 0: return "first block is not 0"
    if exc[-1][0] != 4294967295: return "sentinel missing"
    for (a, _), (b, _) in zip(exc, exc[1:]):
        if not a < b: return "blocks not strictly increasing at %d" % a
    ok = {OPC.get("CLEAR_STACK"), OPC.get("RETHROW"), OPC.get("UNHANDLED_EXCEPTION")}
    for (b, hnd) in exc[:-1]:
        # the handler address is a LABEL followed by the handler instruction
        ops = [code.get(hnd), code.get(hnd + 1)]
        if not (ops[0] in ok or (ops[0] == OPC.get("LABEL") and ops[1] in ok)):
            return "handler %d of block %d starts with opcode %s/%s" % (hnd, b, ops[0], ops[1])
    return ""

OPC = {}
def load_opcodes():
    src = open(os.path.join(LEAN, "NeverModel", "Gen", "Opcodes.lean")).read()
    for i, n in enumerate(re.findall(r"^  \| (\w+)$", src, re.M)):
        OPC[n] = i

def check(tier, seed):
    rep = Report("C03", tier, seed, "proof")
    run([sys.executable, os.path.join(VERIF, "gen", "opcodes.py")])
    proof_stage(rep, PROP_MODULE, required=REQUIRED)
    load_opcodes()
    res = exc_corr.run_correspondence(rep, tier, seed)
    # VM part: fault-heavy programs and every sample that has a catch clause, in lockstep
    h = vm_corr.VmHarness()
    stats = {}
    samples_catch = [j for j in vm_checks.sample_jobs() if "catch" in open(j["file"]).read()]
    fam = []
    for (n, s, m) in progs.generate(seed, 1 if tier == "quick" else 6):
        if m.get("exc"):
            for a in (("0",), ("1",), ("3",), ("9",)):
                fam.append(dict(name="%s_a%s" % (n, a[0]), src=s, args=list(a), meta=m))
    audits = {"ok": 0, "bad": 0}
    def on_result(j, r, st, det, io):
        a = exctab_audit(r["dump"])
        if a is None or st in ("no-run", "compile-crash"):
            return st in ("no-run", "compile-crash", "skipped-ffi", "impl-timeout", "model-timeout")
        if a == "":
            audits["ok"] += 1
        else:
            audits["bad"] += 1
            rep.violation("c03_audit_%s" % j["name"], "# emitted exception table / handler shape is not canonical: %s\n%s" % (a, j.get("src") or j.get("file")), False)
        return st == "skipped-ffi"
    configs = [dict(), dict(gc=1, mem=3000)] if tier == "quick" else [dict(), dict(gc=1, mem=3000), dict(gc=0, mem=900, stack=150)]
    out = []
    for cfg in configs:
        out += vm_checks.sweep(h, rep, [dict(j, **cfg) for j in samples_catch + fam], "c03vm", stats, on_result)
    h.close()
    # (4) the right clause, by the language's rules: the lockstep runs the code the emitter produced on both sides, so a wrong clause
    # ORDER or a wrong handler chain is invisible to it.  Two independent oracles: programs with generator-computed expectations
    # (a fault inside a clause is offered to the clauses after it, in source order), and the reference evaluator S on every
    # fault-family program inside its core (result, printed text, identity of an unhandled exception)
    expst = vm_checks.expectation_stage(rep, tier, seed, "c03rule", want=lambda m: m.get("exc"))
    import srcjudge
    jd = srcjudge.Judge()
    jst = dict(judged=0, agree=0, disagree=0, outside_core=0)
    try:
        for j in fam:
            c, d = jd.judge(j["src"], j["args"])
            jst["judged"] += 1
            if c == "agree": jst["agree"] += 1
            elif c == "disagree":
                jst["disagree"] += 1
                if jst["disagree"] <= 3:
                    rep.violation("c03_rule_%s" % j["name"], "# the real pipeline and the reference evaluator disagree on a fault-family program (args %s)\n# %s\n%s" % (j["args"], d, j["src"]), True)
            else: jst["outside_core"] += 1
    finally:
        jd.close()
    rep.cov.update(rule_expectations=expst, reference_evaluator_on_fault_family=jst)
    rep.cov.update(trusted_base=["Lean 4.33 kernel", "axioms: propext, Classical.choice, Quot.sound",
                                 "correspondence harnesses h_exc.c, h_vm.c + comparators", "gcc/ASan"],
                   evaluations=res["queries"] + len(out), distinct_nontrivial=res["tables"] + stats.get("ok", 0),
                   rule="(1) seeded/exhaustive exception tables x boundary addresses against exctab.c and a linear-scan spec; (2) every sample with a catch clause and the fault-heavy families (faults at each argument position of nested calls, nested handlers, second fault inside a handler, rethrow through callers, unhandled kinds, libm faults) replayed in lockstep on the Lean VM; (3) table/handler shape audited on every dumped module",
                   samples=res["samples"], exctab=dict((k, v) for k, v in res.items() if k != "samples"),
                   vm_statuses={k: v for k, v in stats.items() if not k.startswith("_")}, table_audits=audits,
                   instructions_replayed=stats.get("_steps", 0))
    rep.assumptions = ["that the emitter yields a well-formed table and canonical handler entries for ALL programs is checked per emitted module, not proved",
                       "delivery to the *first matching* clause relies on the emitted PUSH_EXCEPT/OP_EQ_INT/JUMPZ chain, validated by lockstep replay and by C02's reference evaluator"]
    return rep.finish()

def replay(path):
    print(open(path).read()); return 0
