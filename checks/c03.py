"""C03 — run-time faults become exceptions delivered to the right catch clause."""
from common import *
import exc_corr

PROP_MODULE = "NeverModel.Props.C03"
REQUIRED = ["Never.C03.exctab_search_correct", "Never.C03.exctab_block_unique", "Never.C03.exctab_search_in_bounds"]

def check(tier, seed):
    rep = Report("C03", tier, seed, "proof")
    proof_stage(rep, PROP_MODULE, required=REQUIRED)
    res = exc_corr.run_correspondence(rep, tier, seed)
    rep.cov.update(trusted_base=["Lean 4.33 kernel", "axioms: propext, Classical.choice, Quot.sound",
                                 "correspondence harness h_exc.c + exc_corr.py", "gcc/ASan"],
                   evaluations=res["queries"], distinct_nontrivial=res["tables"],
                   rule="seeded tables (80% sorted as the emitter builds them, 20% arbitrary) x boundary/random addresses; S-level = linear scan",
                   samples=res["samples"], exctab=dict((k, v) for k, v in res.items() if k != "samples"))
    rep.assumptions = ["part 1 only: handler lookup; unwinding is decided by the VM model (see DESIGN.md)"]
    return rep.finish()

def replay(path):
    print(open(path).read()); return 0
