"""C05 correspondence: M-Diag (Lean, `nmdrv diag`) <-> back/utils.c, front/scanner.l, back/nev.c, and
the fault-hunting stream over the whole compiler (harness/h_cc.c, one forked child per input).

Four parts, all seeded by Rng(seed):
  T  extract_consts   today's constants and shapes of print_msg / the <USE> guard from the source
                      text; they parametrise the model (theorems are stated for every M, grow,
                      lim <= dim).  An unrecognised shape or a violated hypothesis = broken tie.
  X1 print_msg grid   (file-name length, line, message length, earlier messages) -> sanitizer verdict,
                      stored length, array size, vs the model's writes under today's shape.
  X2 use graphs       generated module graphs (self use, cycles, missing, depth > MAX) -> files opened
                      in order, files closed, lexer diagnostics, use_stack_ptr, vs the model.
  X3 malformed stream byte/token mutations of the samples, truncations, deep nesting, long tokens,
                      garbage, NUL/high bytes, unterminated strings/comments, use graphs: per input
                      (ret, #error lines, per-stage (rc, errors), signal/sanitizer, timeout); the stage
                      list is run through the pipeline model; the property's own observable is checked;
                      failures are grouped by signature (known finding or VIOLATION, shrunk)."""
import os, re, shutil, subprocess, sys, time
from common import *
import buildimpl

WRAPS = ["scan_string", "scan_file", "yyparse", "main_check_type", "module_decl_optimize",
         "module_decl_tailrec", "main_emit", "fopen", "fclose"]
STAGES = ["scan", "parse", "typecheck", "optimize", "tailrec", "emit"]
TIMEOUT_S = 10.0

# ------------------------------------------------------------------ T: constants and shapes

def _norm(s):
    return re.sub(r"\s+", "", s)

def extract_consts():
    """returns (consts dict, problems list)"""
    c, bad = {}, []
    u = open(os.path.join(REPO, "back", "utils.c")).read()
    m = re.search(r"#define\s+MAX_MSG_SIZE\s+(\d+)", u)
    if m: c["M"] = int(m.group(1))
    else: bad.append("utils.c: MAX_MSG_SIZE not found")
    i = u.find("static void print_msg(")
    body = u[i:u.find("\nvoid print_error_msg", i)] if i >= 0 else ""
    nb = _norm(body)
    if "charmsg_buf[MAX_MSG_SIZE]" not in nb:
        bad.append("utils.c: msg_buf is not char[MAX_MSG_SIZE]")
    if 'msg_len=snprintf(msg_buf,MAX_MSG_SIZE,"%s:%d:%s:",utils_file_name,line_no,type);' not in nb:
        bad.append("utils.c: prefix snprintf not recognised")
    m = re.search(r"msg_len\+=vsnprintf\(msg_buf\+msg_len,(.*?),format,args_copy\);", nb)
    clamp = re.search(r'type\);if\(msg_len(>=MAX_MSG_SIZE|>MAX_MSG_SIZE-1)\)\{?msg_len=MAX_MSG_SIZE-1;\}?(va_copy\(args_copy,args\);)?msg_len\+=', nb) is not None
    if not m:
        bad.append("utils.c: message vsnprintf not recognised")
    else:
        sz = m.group(1)
        if sz == "MAX_MSG_SIZE" and not clamp: c["mode"] = "full"
        elif sz in ("MAX_MSG_SIZE-msg_len", "sizeof(msg_buf)-msg_len") and clamp: c["mode"] = "clamped"
        elif sz in ("MAX_MSG_SIZE-msg_len", "sizeof(msg_buf)-msg_len"): c["mode"] = "remaining"
        else: bad.append("utils.c: size argument %r of the message vsnprintf not recognised" % sz)
    m = re.search(r"if\(\*utils_msg_count>=\*utils_msg_array_size\)\{\*utils_msg_array_size=\*utils_msg_array_size\+(\d+);"
                  r"\*utils_msg_array=realloc\(\*utils_msg_array,\*utils_msg_array_size\*sizeof\(char\*\)\);\}", nb)
    if m: c["grow"] = int(m.group(1))
    else: bad.append("utils.c: message-array growth not recognised")
    if "(*utils_msg_array)[*utils_msg_count]=strdup(msg_buf);(*utils_msg_count)++;" not in nb:
        bad.append("utils.c: message store not recognised")
    s = open(os.path.join(REPO, "front", "scanner.l")).read()
    ns = _norm(s)
    m = re.search(r"#define\s+MAX_USE_DEPTH\s+(\d+)", s)
    if m: c["MAX_USE_DEPTH"] = int(m.group(1))
    else: bad.append("scanner.l: MAX_USE_DEPTH not found")
    m = re.search(r"use_descruse_stack\[(\w+)\];", ns)
    if m and "MAX_USE_DEPTH" in c:
        c["dim"] = c["MAX_USE_DEPTH"] if m.group(1) == "MAX_USE_DEPTH" else (int(m.group(1)) if m.group(1).isdigit() else None)
        if c["dim"] is None: bad.append("scanner.l: dimension of use_stack[] not recognised")
    else: bad.append("scanner.l: use_stack[] declaration not recognised")
    m = re.search(r"if\(use_stack_ptr(>=|>)MAX_USE_DEPTH\)\{print_error_msg\(line_no,\"moduleusesarenestedtoodeep\"\);", ns)
    if m and "MAX_USE_DEPTH" in c: c["lim"] = c["MAX_USE_DEPTH"] + (0 if m.group(1) == ">=" else 1)
    else: bad.append("scanner.l: <USE> depth guard not recognised")
    for frag, what in (("use_stack[use_stack_ptr++]=descr;", "push"), ("if(--use_stack_ptr<0){yyterminate();}", "<<EOF>> pop"),
                       ("while(--use_stack_ptr>=0){", "scanner_destroy loop"), ("use_stack_ptr=0;set_utils_file_name(\"<stdin>\");", "scan_string reset"),
                       ("use_stack_ptr=0;set_utils_file_name(file);", "scan_file reset"),
                       ("moduletab_entry*entry=moduletab_lookup_module(modtab,yytext);if(entry!=NULL){", "module-table lookup before open")):
        if frag not in ns: bad.append("scanner.l: %s not recognised" % what)
    if not bad:
        if c["M"] < 1: bad.append("MAX_MSG_SIZE = 0: hypothesis 0 < M of the buffer theorems fails")
        if c["grow"] < 1: bad.append("array growth 0: hypothesis 0 < g of msg_array_in_bounds fails")
        if c["lim"] > c["dim"]: bad.append("<USE> guard bound %d > dimension %d of use_stack[]: hypothesis lim <= dim of use_stack_bounded fails" % (c["lim"], c["dim"]))
    return c, bad

# ------------------------------------------------------------------ running I and M

class Impl:
    def __init__(self, workdir, mode="asan"):
        self.info = buildimpl.build(mode)
        self.dir = workdir
        self.exe = buildimpl.link_harness(self.info, os.path.join(VERIF, "harness", "h_cc.c"), os.path.join(workdir, "h_cc"),
                                          extra=["-Wl," + ",".join("--wrap=" + w for w in WRAPS)])
        self.mods = os.path.join(workdir, "mods")
        os.makedirs(self.mods, exist_ok=True)
        os.makedirs(os.path.join(workdir, "in"), exist_ok=True)
        self.env = dict(os.environ, ASAN_OPTIONS="detect_leaks=0:abort_on_error=0:allocator_may_return_null=1:detect_stack_use_after_return=0",
                        UBSAN_OPTIONS="print_stacktrace=1", NEVER_PATH="%s:%s:%s" % (self.mods, os.path.join(REPO, "sample", "lib"), os.path.join(REPO, "sample")))

    def run(self, reqs, workers=4):
        """reqs: list of request lines; returns list of dicts (same order)"""
        if not reqs:
            return []
        workers = max(1, min(workers, len(reqs) // 8 or 1))
        chunks = [reqs[i::workers] for i in range(workers)]
        procs = []
        import resource
        def lim():
            # a fixed 8 MB stack: the depth at which deep recursion dies must not depend on the caller's ulimit
            soft, hard = resource.getrlimit(resource.RLIMIT_STACK)
            want = 8 << 20 if hard == resource.RLIM_INFINITY else min(8 << 20, hard)
            resource.setrlimit(resource.RLIMIT_STACK, (want, hard))
            resource.setrlimit(resource.RLIMIT_CORE, (0, 0))
        for ch in chunks:
            p = subprocess.Popen([self.exe, str(TIMEOUT_S), self.dir], stdin=subprocess.PIPE, stdout=subprocess.PIPE,
                                 stderr=subprocess.DEVNULL, env=self.env, cwd=self.dir, preexec_fn=lim)
            procs.append(p)
        import threading
        outs = [None] * workers
        def feed(i):
            outs[i] = procs[i].communicate(("\n".join(chunks[i]) + "\nq\n").encode())[0].decode("latin-1")
        ths = [threading.Thread(target=feed, args=(i,)) for i in range(workers)]
        for t in ths: t.start()
        for t in ths: t.join()
        res = [None] * len(reqs)
        for w in range(workers):
            lines = [l for l in outs[w].split("\n") if l.startswith("r ")]
            for j, idx in enumerate(range(w, len(reqs), workers)):
                res[idx] = parse_result(lines[j]) if j < len(lines) else dict(status="harness-died", done=0)
        return res

_DICT = None
def error_words():
    """words of the compiler's own diagnostics (format strings of print_error_msg, bison's texts)"""
    global _DICT
    if _DICT is None:
        w = set("syntax error memory exhausted unexpected expecting".split())
        for sub in ("front", "back"):
            dd = os.path.join(REPO, sub)
            for f in os.listdir(dd):
                if f.endswith((".c", ".l", ".y")) and f not in ("parser.c", "scanner.c"):
                    txt = open(os.path.join(dd, f), errors="replace").read()
                    for m in re.finditer(r"print_error_msg\s*\((?:[^;\"]*?)((?:\"(?:\\.|[^\"\\])*\"\s*)+)", txt):
                        for lit in re.findall(r"\"((?:\\.|[^\"\\])*)\"", m.group(1)):
                            for x in re.findall(r"[A-Za-z]+", re.sub(r"%[-0-9.]*[a-z]+|\\.", " ", lit)):
                                w.add(x)
        _DICT = w
    return _DICT

def error_class(first):
    if first in ("-", None, ""):
        return "-"
    ws = [x for x in first.split("_") if x in error_words()]
    return "_".join(ws[:3]) or "other"

def parse_result(line):
    d = {}
    for t in line.split()[1:]:
        if "=" in t:
            k, v = t.split("=", 1)
            d[k] = v
    for k in ("code", "done", "ret", "msgs", "errs", "warns", "fmt", "usp", "asz", "len", "fcloses", "dclose", "stderr_errs"):
        if k in d:
            try: d[k] = int(d[k])
            except ValueError: d[k] = None
    st = []
    if d.get("stages", "-") != "-":
        for s in d["stages"].split(","):
            p = s.split(":")
            if len(p) == 3:
                st.append((p[0], int(p[1]), int(p[2])))
    d["stages"] = st
    d["opens"] = [] if d.get("opens", "-") == "-" else d["opens"].split(",")
    d["first"] = error_class(d.get("first", "-"))
    return d

def run_model(lines):
    p = subprocess.run([NMDRV, "diag"], input="\n".join(lines) + "\n", stdout=subprocess.PIPE, stderr=subprocess.PIPE, text=True)
    out = p.stdout.split("\n")
    res = []
    for i in range(len(lines)):
        l = out[i] if i < len(out) else ""
        res.append(dict(t.split("=", 1) for t in l.split() if "=" in t))
    return res

# ------------------------------------------------------------------ X1: print_msg

def dec_len(n):
    return len(str(n))

def msg_grid(rng, tier, c):
    M = c["M"]
    Fs = [0, 1, 7, 40, 255] + ([M // 2, M - 40, M - 17, M - 16, M - 15, M + 76] if tier == "thorough" else [M - 30, M + 76])
    cases = set()
    for F in Fs:
        for line in (1, 1234567):
            p = F + 1 + dec_len(line) + 2 + 5 + 2
            edge = M - 1 - p
            Ls = {0, 1, 50, M - 1, M, M + 100, 3 * M}
            for e in (edge - 1, edge, edge + 1, edge + 2):
                if e >= 0: Ls.add(e)
            for L in Ls:
                cases.add((F, line, L, 0))
    if tier == "thorough":
        for L in range(0, M + 177):
            cases.add((7, 1, L, 0))
    for k in (0, 1, 9, 10, 11, 19, 20, 21, 57):
        cases.add((7, 3, 10, k))
    for _ in range(40 if tier == "quick" else 400):
        cases.add((rng.below(M + 100) if rng.chance(0.3) else rng.below(64), rng.choice([1, 9, 10, 99, 100, 65535, 2147483647]),
                   rng.below(M + 200), rng.below(35) if rng.chance(0.3) else 0))
    return sorted(cases)

MAX_REPORTS = 3      # per kind of divergence

def x1_print_msg(rep, impl, rng, tier, c, st):
    grid = msg_grid(rng, tier, c)
    ires = impl.run(["m %d %d %d %d" % g for g in grid], workers=4)
    mres = run_model(["m %d %d %s %d %d 5 %d %d" % (c["M"], c["grow"], c["mode"], F, line, L, k) for (F, line, L, k) in grid])
    oob_seen = inb_seen = 0
    for g, a, b in zip(grid, ires, mres):
        F, line, L, k = g
        p = F + 1 + dec_len(line) + 2 + 5 + 2
        crashed = a.get("done") != 1
        model_inb = b.get("inb") == "1"
        desc = "print_msg file-name length %d, line %d, message length %d, %d earlier messages (prefix %d, buffer %d, shape %s)\nI: %s\nM: %s" % (
            F, line, L, k, p, c["M"], c["mode"], {x: a.get(x) for x in ("status", "code", "done", "len", "msgs", "asz", "san", "frame")}, b)
        replay = "kind: printmsg\nargs: %d %d %d %d\n" % g
        if crashed:
            if a.get("san") not in ("stack-buffer-overflow", "-", None) or (a.get("san") == "-" and a.get("status") == "exit"):
                pass
            oob_seen += 1
            if model_inb:
                # the model says in bounds, the implementation died: the property fails here and M != I
                st["x1_div"] += 1
                if st["x1_div"] <= MAX_REPORTS: rep.violation("printmsg_crash_%d_%d_%d" % (F, line, L), "# print_msg crashed where the model (today's shape) stays in bounds\n# " + desc.replace("\n", "\n# ") + "\n" + replay, True)
            else:
                st["x1_known_overflows"] += 1
                # two defects: the message does not fit behind the prefix / the prefix alone does not fit (file name ~ buffer size)
                rep.finding("print_msg-overflow" if p < c["M"] else "print_msg-overflow-long-file-name", desc)
        else:
            inb_seen += 1
            straddle = p <= c["M"] - 1     # the write starts inside the buffer: ASan must see it leave
            if not model_inb and straddle:
                st["x1_div"] += 1
                if st["x1_div"] <= MAX_REPORTS: rep.violation("printmsg_silent_%d_%d_%d" % (F, line, L), "# correspondence M-Diag<->print_msg broken: model writes out of bounds, no sanitizer report on I\n# " + desc.replace("\n", "\n# ") + "\n" + replay, False)
            elif not model_inb:
                st["x1_oob_unobserved"] += 1   # write lands far beyond the red zone: not observable with ASan
            elif (str(a.get("len")), str(a.get("msgs")), str(a.get("asz"))) != (b.get("len"), b.get("count"), b.get("size")):
                st["x1_div"] += 1
                if st["x1_div"] <= MAX_REPORTS: rep.violation("printmsg_len_%d_%d_%d_%d" % g, "# correspondence M-Diag<->print_msg broken (stored length / count / capacity differ)\n# " + desc.replace("\n", "\n# ") + "\n" + replay, False)
    st["x1_cases"] = len(grid); st["x1_in_bounds"] = inb_seen; st["x1_out_of_bounds"] = oob_seen
    st["x1_exhaustive_lengths"] = (tier == "thorough")

# ------------------------------------------------------------------ X2: use graphs

LETTERS = "abcdefghijklmnopqrstuvwxyz"
def letters(n):
    s = ""
    n += 1
    while n > 0:
        n -= 1
        s = LETTERS[n % 26] + s
        n //= 26
    return s

class Graph:
    """main source + module files; names are letters only (the <USE> rule's alphabet)"""
    def __init__(self, tag, main_uses, mods, filemode):
        self.tag, self.main_uses, self.mods, self.filemode = tag, main_uses, mods, filemode   # mods: {name: [uses]}; the use name "!" = an unterminated string (the lexer stops there)
    @staticmethod
    def uses_text(us, ind=""):
        return "".join((ind + "\"abc\n") if u == "!" else (ind + "use %s\n" % u) for u in us)
    def main_text(self):
        return self.uses_text(self.main_uses) + "func main() -> int { 0 }\n"
    def mod_text(self, n):
        return "module %s {\n%s    func f%s() -> int { 1 }\n}\n" % (n, self.uses_text(self.mods[n], "    "), n)
    def aborts(self):
        return "!" in self.main_uses or any("!" in us for us in self.mods.values())
    def write(self, impl, idx):
        for n in self.mods:
            with open(os.path.join(impl.mods, n + ".nev"), "w") as fh:
                fh.write(self.mod_text(n))
        p = os.path.join(impl.dir, "in", "g%05d%s.nev" % (idx, self.tag))
        with open(p, "w") as fh:
            fh.write(self.main_text())
        return p
    def model_line(self, lim, path):
        main = os.path.basename(path) if self.filemode else "main"
        return "u %d %s %s=%s %s" % (lim, "file" if self.filemode else "str", main, ",".join(self.main_uses),
                                     " ".join("%s=%s" % (n, ",".join(us)) for n, us in self.mods.items()))

def gen_graph(rng, idx, c):
    pre = "q" + letters(idx) + "x"
    kind = rng.weighted([("chain", 3), ("random", 5), ("self", 1), ("cycle", 2), ("deep", 2), ("missing", 2), ("abort", 4)])
    mods = {}
    nm = lambda i: pre + letters(i)
    if kind == "chain" or kind == "deep":
        n = rng.choice([c["lim"] - 1, c["lim"], c["lim"] + 1, c["lim"] + 4]) if kind == "deep" else rng.range(1, 6)
        for i in range(n):
            mods[nm(i)] = [nm(i + 1)] if i + 1 < n else []
        main = [nm(0)]
        if rng.chance(0.3): main.append(nm(rng.below(n)))
    elif kind == "abort":
        # scanning stops inside the innermost of a chain: scanner_destroy has to release the rest
        n = rng.range(1, 5)
        for i in range(n):
            mods[nm(i)] = ([nm(i + 1)] if i + 1 < n else []) + (["!"] if i + 1 == n or rng.chance(0.2) else [])
        main = [nm(0)] if rng.chance(0.8) else [nm(0), "!"]
    elif kind == "self":
        mods[nm(0)] = [nm(0)]; main = [nm(0)]
    elif kind == "cycle":
        n = rng.range(2, 5)
        for i in range(n):
            mods[nm(i)] = [nm((i + 1) % n)]
        main = [nm(0)]
    elif kind == "missing":
        mods[nm(0)] = [nm(7), nm(1)]; mods[nm(1)] = []
        main = [nm(9), nm(0), nm(8)]
    else:
        n = rng.range(1, 7)
        names = [nm(i) for i in range(n)] + [nm(20)]     # nm(20) never exists
        for i in range(n):
            mods[nm(i)] = [rng.choice(names) for _ in range(rng.below(4))]
        main = [rng.choice(names) for _ in range(rng.range(1, 4))]
    return Graph(kind, main, mods, rng.chance(0.5)), kind

def small_graphs():
    """every graph over modules {a,b} (+ a missing name) with use lists of length <= 2 per file"""
    import itertools
    names = ["qa", "qb", "qz"]
    lists = [[]] + [[x] for x in names] + [[x, y] for x in names for y in names]
    for lm, la, lb in itertools.product(lists, lists, lists):
        yield lm, la, lb

def x2_use_graphs(rep, impl, rng, tier, c, st):
    os.makedirs(os.path.join(impl.dir, "in"), exist_ok=True)
    graphs = []
    n = 120 if tier == "quick" else 1500
    for i in range(n):
        g, kind = gen_graph(rng.fork(), i, c)
        graphs.append(g)
    if tier == "thorough":
        # exhaustive small scope: needs per-graph module files under distinct names
        for j, (lm, la, lb) in enumerate(small_graphs()):
            pre = "e" + letters(j)
            ren = lambda x: pre + x
            graphs.append(Graph("small", [ren(x) for x in lm], {ren("qa"): [ren(x) for x in la], ren("qb"): [ren(x) for x in lb]}, j % 2 == 0))
    paths = [g.write(impl, i) for i, g in enumerate(graphs)]
    ires = impl.run(["c %s %s" % ("f" if g.filemode else "s", p) for g, p in zip(graphs, paths)], workers=4)
    mres = run_model([g.model_line(c["lim"], p) for g, p in zip(graphs, paths)])
    kinds = {}
    for g, p, a, b in zip(graphs, paths, ires, mres):
        kinds[g.tag] = kinds.get(g.tag, 0) + 1
        desc = "use graph (%s, %s): main uses %s; modules %s\nI: %s\nM: %s" % (g.tag, "file" if g.filemode else "string", g.main_uses, g.mods,
                {x: a.get(x) for x in ("status", "done", "ret", "usp", "opens", "fcloses", "dclose", "stages", "san", "frame", "first")}, b)
        replay = "kind: usegraph\nfilemode: %d\nmain: %s\n%s" % (g.filemode, ",".join(g.main_uses), "".join("module %s: %s\n" % (k, ",".join(v)) for k, v in g.mods.items()))
        if a.get("done") != 1:
            st["x2_div"] += 1
            if st["x2_div"] > 3: continue
            rep.violation("usegraph_crash_%s" % os.path.basename(p), "# compilation of a use graph did not terminate normally\n# " + desc.replace("\n", "\n# ") + "\n" + replay, True)
            continue
        opens_i = [o[:-4] for o in a["opens"]]
        if g.filemode:
            opens_i = opens_i[1:]        # the main file itself
        parse_errs = dict((s[0], s[2]) for s in a["stages"]).get("parse", -1)
        if g.aborts():
            parse_errs -= 2          # `unterminated string` from the lexer + the parser's `syntax error` at the premature end
            st["x2_destroyed_entries"] = st.get("x2_destroyed_entries", 0) + int(b.get("destroyed", 0))
        want = (b.get("opens", "").split(",") if b.get("opens") else [], int(b.get("errs", -1)), int(b.get("dptr", 0)), int(b.get("files", -1)))
        got = (opens_i, parse_errs, a.get("usp"), a.get("fcloses"))
        if got != want or a.get("dclose") != 0:
            st["x2_div"] += 1
            if st["x2_div"] > 3: continue
            # is the property's own observable broken (sanitizer/crash no; a file left open or closed twice, a slot outside the array)?
            prop_broken = a.get("dclose") != 0 or a.get("fcloses") != len(a["opens"])
            rep.violation("usegraph_div_%s" % os.path.basename(p), "# correspondence M-Diag<->scanner use stack broken (files opened in order, lexer diagnostics, use_stack_ptr after scanner_destroy, files closed)\n# want %s\n# got  %s\n# %s\n%s" % (want, got, desc.replace("\n", "\n# "), replay), prop_broken)
        # lexer diagnostics with return value 0: the known contract violation of the <USE> rule
        sg = signature(a, dict(kind="usegraph", sub=g.tag))
        if sg is not None:
            st["x2_rc0"] += 1
            st.setdefault("x2_sigs", {}).setdefault(sg, []).append(desc)
    # the same graphs under unusual module search paths: an over-long first directory (the name built from it does not fit the
    # path buffer), empty entries, a missing first directory, a trailing colon — the search must skip what it cannot use and give the
    # same answer (files opened, diagnostics, status) as with the plain path; a hang is caught by the harness' per-request timeout
    import copy
    plain = impl.env["NEVER_PATH"]
    # (name, path, same): same = the answer must equal the plain one.  NEVER_PATH is copied into a MAX_NEVER_PATH_LEN buffer, so a
    # path longer than that loses its tail: modules are then reported missing (a diagnosed error, which is all C05 asks for) —
    # for those variants only the contract is checked: terminates, no sanitizer report, every opened file closed exactly once
    variants = [("overlong-first", "d" * 1015 + ":" + plain, False), ("overlong-two", "e" * 1100 + ":" + "f" * 1030 + ":" + plain, False),
                ("overlong-short-tail", "g" * 1010 + ":" + impl.mods, False), ("empty-entries", "::" + plain + "::", True),
                ("missing-first", "/nonexistent_dir_verif_a:/nonexistent_dir_verif_b:" + plain, True), ("trailing-colon", plain + ":", True)]
    sub = list(range(0, min(len(graphs), 120), 4 if tier == "quick" else 1))
    st["x2_path_variants"] = 0
    for vname, vpath, same in variants:
        imp2 = copy.copy(impl)
        imp2.env = dict(impl.env, NEVER_PATH=vpath)
        res2 = imp2.run(["c %s %s" % ("f" if graphs[i].filemode else "s", paths[i]) for i in sub], workers=4)
        for i, a2 in zip(sub, res2):
            a = ires[i]
            st["x2_path_variants"] += 1
            key = lambda x: (x.get("done"), x.get("ret"), x.get("usp"), [o for o in (x.get("opens") or [])], x.get("fcloses"), x.get("dclose"), x.get("san"))
            contract = a2.get("done") == 1 and a2.get("dclose") == 0 and a2.get("fcloses") == len(a2.get("opens") or []) and a2.get("san") in (None, "-")
            if (key(a2) != key(a)) if same else (not contract):
                st["x2_div"] += 1
                if st["x2_div"] > 3: continue
                g = graphs[i]
                rep.violation("usegraph_path_%s_%s" % (vname, os.path.basename(paths[i])), "# the module search gives another answer (or does not terminate) under NEVER_PATH variant `%s`\n# plain:   %s\n# variant: %s\n# use graph (%s): main uses %s; modules %s\nkind: usegraph\nfilemode: %d\nmain: %s\nNEVER_PATH=%s\n"
                              % (vname, key(a), key(a2), g.tag, g.main_uses, g.mods, g.filemode, ",".join(g.main_uses), vpath[:80] + "..."), True)
    report_signatures(rep, st, "x2", {k: [(None, d) for d in v] for k, v in st.pop("x2_sigs", {}).items()}, None)
    st["x2_graphs"] = len(graphs); st["x2_kinds"] = kinds
    st["x2_exhaustive_small_scope"] = (tier == "thorough")

def x2b_reentry(rep, impl, rng, tier, c, st):
    """the lexer protocol: sources ending inside `func NAME` make bison discard YYEOF (yyclearin) and call
    the lexer again; the model predicts use_stack_ptr and, in file mode, a read through the closed yyin"""
    os.makedirs(os.path.join(impl.dir, "in"), exist_ok=True)
    srcs = [b"func out", b"func a() -> int { 0 }\nfunc b", b"\n\nfunc m", b"func main() -> int { 0 }\n", b"func", b"func f 1", b"func f\n"]
    reqs, meta = [], []
    for i, src in enumerate(srcs):
        for mode in ("s", "f"):
            p = os.path.join(impl.dir, "in", "r%02d%s.nev" % (i, mode))
            with open(p, "wb") as fh: fh.write(src)
            reqs.append("c %s %s" % (mode, p)); meta.append((src, mode))
    ires = impl.run(reqs, workers=2)
    n_re = 0
    for (src, mode), a in zip(meta, ires):
        # number of re-entries is read off the string-mode twin (same parser actions): -(usp) - 2
        twin = next(b for (s2, m2), b in zip(meta, ires) if s2 == src and m2 == "s")
        if twin.get("done") != 1:
            rep.violation("reentry_twin", "# string-mode compile of %r did not return: %s" % (src, twin), True); st["x2_div"] += 1; continue
        k = -twin["usp"] - 2
        b = run_model(["r %d %s %d" % (c["lim"], "file" if mode == "f" else "str", max(k, 0))])[0]
        desc = "source %r (%s mode): lexer entered %d time(s) after YYEOF\nI: %s\nM: %s" % (src, "file" if mode == "f" else "string", k,
                {x: a.get(x) for x in ("status", "done", "ret", "usp", "san", "frame", "at")}, b)
        if k > 0: n_re += 1
        if b.get("nullread") == "1":
            if a.get("done") == 1:
                # repaired (or flex no longer refills): no alarm
                st["x2_reentry_fixed"] = st.get("x2_reentry_fixed", 0) + 1
            else:
                rep.finding(signature(a, dict(kind="reentry", sub="-")), desc)
        else:
            if a.get("done") != 1 or str(a.get("usp")) != b.get("dptr"):
                st["x2_div"] += 1
                rep.violation("reentry_div_%s" % mode, "# correspondence M-Diag<->scanner broken on lexer re-entry after YYEOF\n# " + desc.replace("\n", "\n# ") +
                              "\nkind: source\nmode: %s\nhex: %s\n" % (mode, src.hex()), a.get("done") != 1)
    st["x2_reentry_cases"] = len(reqs); st["x2_reentry_sources"] = n_re

# ------------------------------------------------------------------ X3: malformed stream

KEYWORDS = ["func", "let", "var", "if", "else", "for", "in", "while", "do", "match", "enum", "record", "use", "module", "extern",
            "catch", "throw", "int", "long", "float", "double", "char", "string", "bool", "void", "true", "false", "nil", "range", "c_ptr", "const"]
POOL = KEYWORDS + list("(){}[];,:.+-*/%<>=!&|?^~#@$\\'\"") + ["->", "::", "..", "|>", "==", "!=", "<=", ">=", "&&", "||", "<<", ">>", "/*", "*/",
        "0", "1", "2147483647", "2147483648", "99999999999999999999", "9223372036854775807L", "0x", "0xffffffffff", "1.", "1.0f", "1.0d", ".5",
        "(0-2147483647-1)", "(0-1)", "\"s\"", "\"\\777\"", "\"\\9\"", "'a'", "''", "main", "x", "E::A", "m.f"]
TOKEN_RE = re.compile(rb"[A-Za-z_][A-Za-z0-9_]*|\d+\.\d+[fFdD]?|\d+[lL]?|\"(?:\\.|[^\"\\\n])*\"|'.'|\s+|.", re.S)

def load_samples():
    d = os.path.join(REPO, "sample")
    out = []
    for f in sorted(os.listdir(d)):
        if f.endswith(".nev"):
            with open(os.path.join(d, f), "rb") as fh:
                out.append((f, fh.read()))
    return out

def mutate_bytes(rng, src):
    b = bytearray(src)
    for _ in range(rng.range(1, 8)):
        op = rng.below(5)
        pos = rng.below(len(b) + 1) if b else 0
        if op == 0 and b: del b[min(pos, len(b) - 1)]
        elif op == 1: b.insert(pos, rng.below(256))
        elif op == 2 and b: b[min(pos, len(b) - 1)] = rng.below(256)
        elif op == 3 and b: b[min(pos, len(b) - 1)] ^= 1 << rng.below(8)
        else:
            ins = rng.choice(POOL).encode()
            b[pos:pos] = ins
    return bytes(b)

def mutate_tokens(rng, src):
    toks = TOKEN_RE.findall(src)
    idx = [i for i, t in enumerate(toks) if not t.isspace()]
    if not idx:
        return src
    for _ in range(rng.range(1, 6)):
        op = rng.below(6)
        i = rng.choice(idx)
        if op == 0: toks[i] = b""
        elif op == 1: toks[i] = toks[i] + b" " + toks[i]
        elif op == 2:
            j = rng.choice(idx); toks[i], toks[j] = toks[j], toks[i]
        elif op == 3: toks[i] = rng.choice(POOL).encode()
        elif op == 4: toks[i] = toks[i] + b" " + rng.choice(POOL).encode()
        else: toks[i] = toks[rng.choice(idx)]
    return b"".join(toks)

TYPES = [b"int", b"long", b"float", b"double", b"char", b"string", b"bool", b"void", b"c_ptr"]
OPS = [b"+", b"-", b"*", b"/", b"%", b"<", b">", b"<=", b">=", b"==", b"!=", b"&&", b"||", b"=", b"&", b"|", b"^", b"<<", b">>", b"::", b".", b"->", b"|>", b".."]
LITS = [b"0", b"1", b"2147483647", b"3000000000", b"1L", b"1.5", b"1.5d", b"'c'", b"\"s\"", b"true", b"false", b"nil", b"[1, 2] : int", b"{[2]} : int"]
ID_RE = re.compile(rb"[A-Za-z_][A-Za-z0-9_]*$")
NUM_RE = re.compile(rb"\d")

def mutate_semantic(rng, src):
    """mutations that tend to keep the program syntactically valid: same-class token replacement,
    deletion / duplication of a top-level declaration"""
    toks = TOKEN_RE.findall(src)
    kw = set(k.encode() for k in KEYWORDS)
    ids = [i for i, t in enumerate(toks) if ID_RE.match(t) and t not in kw]
    tys = [i for i, t in enumerate(toks) if t in TYPES]
    nums = [i for i, t in enumerate(toks) if NUM_RE.match(t) or t[:1] in (b'"', b"'")]
    ops = [i for i, t in enumerate(toks) if t in OPS]
    for _ in range(rng.range(1, 4)):
        k = rng.below(7)
        if k == 0 and ids:
            toks[rng.choice(ids)] = toks[rng.choice(ids)]
        elif k == 1 and ids:
            toks[rng.choice(ids)] = rng.choice([b"undefined_name", b"main", b"x", b"print", b"E", b"R"])
        elif k == 2 and tys:
            toks[rng.choice(tys)] = rng.choice(TYPES + [b"Undefined", b"[_] : int", b"(int) -> int"])
        elif k == 3 and nums:
            toks[rng.choice(nums)] = rng.choice(LITS)
        elif k == 4 and ops:
            toks[rng.choice(ops)] = rng.choice(OPS)
        elif k == 5:
            # delete or duplicate one top-level declaration (text from a line starting with a keyword to the next such line)
            text = b"".join(toks)
            starts = [m.start() for m in re.finditer(rb"(?m)^(func|enum|record|extern|use|let|var)\b", text)]
            if len(starts) >= 1:
                j = rng.below(len(starts))
                a, b = starts[j], (starts[j + 1] if j + 1 < len(starts) else len(text))
                text = text[:a] + text[b:] if rng.chance(0.6) else text[:b] + text[a:b] + text[b:]
                toks = TOKEN_RE.findall(text)
                ids = [i for i, t in enumerate(toks) if ID_RE.match(t) and t not in kw]
                tys = [i for i, t in enumerate(toks) if t in TYPES]
                nums = [i for i, t in enumerate(toks) if NUM_RE.match(t) or t[:1] in (b'"', b"'")]
                ops = [i for i, t in enumerate(toks) if t in OPS]
        elif ids:
            # rename one identifier everywhere but at one place
            i = rng.choice(ids); old = toks[i]
            occ = [j for j in ids if toks[j] == old]
            keep = rng.choice(occ)
            for j in occ:
                if j != keep: toks[j] = old + b"_r"
    return b"".join(toks)

NEST = {
    "paren":   lambda d: "func main() -> int { %s1%s }" % ("(" * d, ")" * d),
    "block":   lambda d: "func main() -> int { %s1%s }" % ("{ " * d, " }" * d),
    "call":    lambda d: "func f(x : int) -> int { x }\nfunc main() -> int { %s1%s }" % ("f(" * d, ")" * d),
    "neg":     lambda d: "func main() -> int { %s1%s }" % ("-(" * d, ")" * d),
    "not":     lambda d: "func main() -> bool { %strue }" % ("!" * d),
    "array":   lambda d: "func main() -> int { var a = %s1%s : int; 0 }" % ("[" * d, "]" * d),
    "index":   lambda d: "func main() -> int { var a = [1] : int; %s0%s }" % ("a[" * d, "]" * d),
    "ifelse":  lambda d: "func main() -> int { %s1%s }" % ("if (1 == 1) { " * d, " } else { 0 }" * d),
    "cond":    lambda d: "func main() -> int { %s1%s }" % ("(1 == 1) ? (" * d, ") : 0" * d),
    "chain":   lambda d: "func main() -> int { 1%s }" % (" + 1" * d),
    "strcat":  lambda d: "func main() -> string { \"a\"%s }" % (" + \"a\"" * d),
    "seq":     lambda d: "func main() -> int { %s1 }" % ("1; " * d),
    "funcnest": lambda d: "func main() -> int { %s1%s }" % ("".join("func f%d() -> int { " % i for i in range(d)), "".join(" }; f%d()" % i for i in reversed(range(d)))),
    "let":     lambda d: "func main() -> int { %s1%s }" % ("let x = (" * d, ")" * d),
    "openparen": lambda d: "func main() -> int { %s" % ("(" * d),
    "openbrace": lambda d: "func main() -> int { %s" % ("{" * d),
    "openbracket": lambda d: "func main() -> int { %s" % ("[" * d),
    "closeparen": lambda d: "func main() -> int { 1 %s }" % (")" * d),
    "params":  lambda d: "func f(%s) -> int { 0 }\nfunc main() -> int { f(%s) }" % (", ".join("a%d : int" % i for i in range(d)), ", ".join("1" for _ in range(d))),
    "funcs":   lambda d: "".join("func f%d() -> int { %d }\n" % (i, i) for i in range(d)) + "func main() -> int { 0 }",
    "enumitems": lambda d: "enum E { %s }\nfunc main() -> int { 0 }" % ", ".join("I%d" % i for i in range(d)),
    "recordfields": lambda d: "record R { %s }\nfunc main() -> int { 0 }" % " ".join("f%d : int;" % i for i in range(d)),
    "matcharms": lambda d: "enum E { %s }\nfunc main() -> int { match E::I0 { %s } }" % (", ".join("I%d" % i for i in range(d)), " ".join("E::I%d -> %d;" % (i, i) for i in range(d))),
    "functype": lambda d: "func main() -> int { let f = %s1%s; 0 }" % ("let func () -> int { " * min(d, 3000), " }" * min(d, 3000)),
    "comment": lambda d: "func main() -> int { %s 1 %s }" % ("/* " * d, " */" * d),
}

OPERANDS = [("int", "i"), ("long", "l"), ("float", "fl"), ("double", "d"), ("char", "c"), ("string", "s"), ("bool", "b"), ("enumvar", "e"),
            ("enumlit", "E::A"), ("enumrec", "E::C(1)"), ("cenumvar", "se"), ("cenumlit", "S::P"), ("record", "r"), ("array", "a"), ("func", "f"), ("nil", "nil"), ("range", "[1..2]"), ("call", "f()"), ("literal", "2147483647")]
BINOPS = ["+", "-", "*", "/", "%", "<", ">", "<=", ">=", "==", "!=", "&&", "||", "&&&", "|||", "^^^", "<<<", ">>>", "=", "|>", ".."]
FORMS = ["-X", "!X", "~~~X", "if (X) { 1 } else { 2 }", "X ? 1 : 2", "X[Y]", "X(Y)", "X.x", "while (X) { 0 }", "for (v in X) { 0 }", "X[Y..Y]",
         "match X { E::A -> 1; E::B -> 2; E::C(v) -> 3; }", "let q = X; q", "X; Y", "[ v | v in X ] : int", "[X, Y] : int", "if let (E::C(v) = X) { v } else { 0 }"]
OPGRID_PRELUDE = ("enum E { A, B, C { v : int; } }\nenum S { P, Q }\nrecord R { x : int; }\nfunc f() -> int { 0 }\nfunc main() -> int {\n"
                  " var i = 1; var l = 1L; var fl = 1.5; var d = 1.5d; var c = 'c'; var s = \"s\"; var b = true;\n"
                  " var e = E::A; var se = S::P; var r = R(1); var a = [1, 2] : int;\n %s;\n 0\n}\n")

def opgrid_all():
    out = []
    for kx, x in OPERANDS:
        for ky, y in OPERANDS:
            for op in BINOPS:
                out.append(("%s%s%s" % (kx, op, ky), "(%s) %s (%s)" % (x, op, y)))
    for kx, x in OPERANDS:
        for ky, y in [OPERANDS[0], OPERANDS[5], OPERANDS[7], (kx, x)]:
            for fm in FORMS:
                out.append(("%s/%s/%s" % (fm, kx, ky), fm.replace("X", x).replace("Y", y)))
    return out

def gen_long(rng):
    n = rng.choice([255, 256, 257, 981, 982, 983, 984, 1023, 1024, 1100, 4096, 70000])
    k = rng.below(12)
    a = "a" * n
    if k == 0: return "longid-undefined", "func main() -> int { %s }" % a
    if k == 1: return "longid-func", "func %s() -> int { 0 }\nfunc main() -> int { %s() + zz }" % (a, a)
    if k == 2: return "longstring", "func main() -> string { \"%s\" }" % a
    if k == 3: return "longnumber", "func main() -> int { %s }" % ("9" * n)
    if k == 4: return "longfloat", "func main() -> float { %s.%s }" % ("9" * n, "9" * n)
    if k == 5: return "longcomment", "/* %s */ func main() -> int { 0 }" % a
    if k == 6: return "longuse", "use %s\nfunc main() -> int { 0 }" % a
    if k == 7: return "longid-param", "func f(%s : int) -> int { %s + \"x\" }\nfunc main() -> int { f(1) }" % (a, a)
    if k == 8: return "longid-enum", "enum %s { A }\nfunc main() -> int { %s::B }" % (a, a)
    if k == 9: return "longid-dup", "func main() -> int { var %s = 1; var %s = 2; 0 }" % (a, a)
    if k == 10: return "longid-record", "record R { x : int; }\nfunc main() -> int { var r = R(1); r.%s }" % a
    return "longline", "func main() -> int { 0 } # %s" % a

def gen_unterminated(rng):
    base = "func main() -> int { 0 }\n"
    k = rng.below(10)
    if k == 0: return "func main() -> string { \"abc"
    if k == 1: return "func main() -> string { \"abc\n\" }"
    if k == 2: return base + "\"tail"
    if k == 3: return base + "/* never closed"
    if k == 4: return "/* func main() -> int { 0 }"
    if k == 5: return "func main() -> string { \"a\\"
    if k == 6: return base + "\"\\%d\"" % rng.choice([400, 777, 8, 9, 99])
    if k == 7: return "func main() -> char { '"
    if k == 8: return "func main() -> string { \"\\400\" }"
    return base + "\"a\\%d" % rng.below(10)

def gen_garbage(rng):
    n = rng.choice([1, 2, 5, 20, 100, 1000, 5000])
    k = rng.below(3)
    if k == 0: return bytes(rng.range(32, 126) for _ in range(n))
    if k == 1: return bytes(rng.below(256) for _ in range(n))
    return " ".join(rng.choice(POOL) for _ in range(n)).encode()

CORPUS = [
    ("corpus:longid", b"func main() -> int { " + b"a" * 1100 + b" }\n"),
    ("corpus:use-missing", b"use nosuchmodule\nfunc main() -> int { 0 }\n"),
    ("corpus:fold-intmin-div", b"func main() -> int { (0-2147483647-1) / (0-1) }\n"),
    ("corpus:fold-intmin-mod", b"func main() -> int { (0-2147483647-1) % (0-1) }\n"),
    ("corpus:match-unknown-module-enum", b"use zzmissing\nfunc main() -> int {\n match (zzmissing.two()) {\n zzmissing.E::ONE -> 1;\n };\n 0 }\n"),
    ("corpus:ok", b"func main() -> int { 0 }\n"),
    ("corpus:anonymous-extern", b"func main() -> int\n{\n    let system = let extern \"6\" func (cmd : string) -> float; system(\"unaa\");  0\n}\n"),
    ("corpus:match-bind-count", b"enum E { A { x : int; y : int; }, B }\nfunc main() -> int { let e = E::A(1, 2); match (e) { E::A(p) -> p; E::B -> 0; } }\n"),
    ("corpus:match-unknown-enumerator", b"enum E { A, B }\nfunc main() -> int { let e = E::A; match (e) { E::A -> 1; E::C -> 2; } }\n"),
    ("corpus:ffi-tuple-unknown-record", b"extern \"libc.so.6\" func f(t : (int, Nosuch)) -> int\nfunc main() -> int { 0 }\n"),
    ("corpus:empty", b""),
    ("corpus:trailing-unterminated-string", b"func main() -> int { 0 } \"abc\n"),
    ("corpus:trailing-bad-octal", b"func main() -> int { 0 } \"a\\400b\""),
    ("corpus:trailing-bad-escape", b"func main() -> int { 0 } \"a\\9b\""),
    ("corpus:syntax", b"func main() -> int { 0 \n"),
    ("corpus:func-recovery", b"func f 1 2 3\nfunc main() -> int { 0 }\n"),
    ("corpus:nul", b"func main() -> int { 0 }\x00 garbage ((("),
    # constants the reducer may fold: parenthesised string / char constants, literal operands of && and ||, arithmetic identities
    ("corpus:fold-paren-strings", b"func greet(name : string) -> string { (\"Hello, \" + \"dear \") + name }\nfunc main() -> int { let c = ('x'); let s = ((\"abc\")); prints(greet(\"w\") + s + c + (\"a\" + (\"b\" + \"c\")) + \"\\n\"); 0 }\n"),
    ("corpus:fold-literal-operands", b"func say(m : string) -> bool { prints(m); true }\nfunc n(s : string) -> int { length(s) }\nfunc main() -> int { let a = false && say(\"x\" + \"y\"); let b = true || say(\"z\"); let c = say(\"p\") && false; let d = say(\"q\") || true; 0 * n(\"ab\" + \"cd\") + n(\"e\") * 0 + (n(\"f\") - n(\"f\")) }\n"),
    ("corpus:let-func-header-error", b"func main() -> int { let f = let func g( -> int { 1 }; 0 }\n"),
    ("corpus:let-func-header-error2", b"func main() -> int\n{\n    let func inner(a : int, -> int { a };\n    0\n}\n"),
]

def gen_inputs(rng, tier, samples, c):
    """list of dicts(kind, sub, data(bytes), mode, graph?)"""
    n = 7000 if tier == "quick" else 200000
    depths = [10, 100, 1000, 3000] if tier == "quick" else [10, 30, 100, 300, 1000, 2000, 3000, 5000, 10000, 20000]
    out = []
    for name, data in CORPUS:
        out.append(dict(kind="corpus", sub=name, data=data, mode="s"))
    for cons in sorted(NEST):
        # bracketed nesting far beyond bison's stack limit must end in a diagnostic ("memory exhausted"), never in a crash
        for d in depths + ([200000] if cons in ("chain", "strcat") else []) + ([400000] if cons in ("paren", "block", "neg", "array") else []):
            if cons == "strcat" and 20000 < d < 200000:
                continue                      # quadratic folding: seconds under load, neither hang nor crash
            out.append(dict(kind="nest", sub=cons, depth=d, data=NEST[cons](d).encode(), mode="s"))
    grid = opgrid_all()
    same = [g for g in grid if g[0].split("/")[0] in FORMS or any(g[0] == "%s%s%s" % (k, op, k) for k, _ in OPERANDS for op in BINOPS)]
    pick = grid if tier == "thorough" else same + [rng.choice(grid) for _ in range(500)]
    for sub, expr in pick:
        out.append(dict(kind="opgrid", sub=sub, data=(OPGRID_PRELUDE % expr).encode(), mode="s"))
    if tier == "thorough":
        for name, data in samples:
            out.append(dict(kind="sample", sub=name, data=data, mode="f"))
    else:
        for _ in range(60):
            name, data = rng.choice(samples)
            out.append(dict(kind="sample", sub=name, data=data, mode="f"))
    while len(out) < n:
        r = rng.fork()
        k = r.weighted([("byte", 20), ("token", 22), ("semantic", 30), ("trunc", 8), ("long", 6), ("garbage", 8), ("unterminated", 5), ("splice", 5), ("usetext", 4)])
        mode = "f" if r.chance(0.35) else "s"
        if k == "byte":
            name, data = r.choice(samples); out.append(dict(kind=k, sub=name, data=mutate_bytes(r, data), mode=mode))
        elif k == "token":
            name, data = r.choice(samples); out.append(dict(kind=k, sub=name, data=mutate_tokens(r, data), mode=mode))
        elif k == "semantic":
            name, data = r.choice(samples); out.append(dict(kind=k, sub=name, data=mutate_semantic(r, data), mode=mode))
        elif k == "trunc":
            name, data = r.choice(samples); out.append(dict(kind=k, sub=name, data=data[:r.below(len(data) + 1)], mode=mode))
        elif k == "long":
            sub, txt = gen_long(r); out.append(dict(kind=k, sub=sub, data=txt.encode(), mode=mode))
        elif k == "garbage":
            out.append(dict(kind=k, sub="-", data=gen_garbage(r), mode=mode))
        elif k == "unterminated":
            out.append(dict(kind=k, sub="-", data=gen_unterminated(r).encode(), mode=mode))
        elif k == "splice":
            (n1, d1), (n2, d2) = r.choice(samples), r.choice(samples)
            out.append(dict(kind=k, sub=n1 + "+" + n2, data=d1[:r.below(len(d1) + 1)] + d2[r.below(len(d2) + 1):], mode=mode))
        else:
            names = ["mtwo", "mone", "nosuch", "a/b", "../lib/mtwo", ".", "..", "/", "lib/mtwo", "mtwo.E", "x" * 300]
            txt = "".join("use %s%s" % (r.choice(names), r.choice(["\n", " ", ";", "\n\n", ""])) for _ in range(r.range(1, 4)))
            name, data = r.choice(samples)
            out.append(dict(kind=k, sub="-", data=txt.encode() + (data if r.chance(0.5) else b"func main() -> int { 0 }\n"), mode=mode))
    return out

def signature(a, inp):
    """None when the property's observable holds on this outcome; otherwise the failure's signature"""
    st = a.get("status", "?")
    if st == "timeout":
        return "timeout:" + (inp.get("sub") if inp["kind"] == "nest" else inp["kind"])
    if a.get("done") != 1:
        san, frame = a.get("san", "-"), a.get("frame", "-")
        top = frame.split("<")[0]
        if san == "stack-overflow" and inp["kind"] == "nest":
            return "deep-nesting-stack-overflow:" + inp["sub"]
        if top == "print_msg" and san in ("stack-buffer-overflow", "dynamic-stack-buffer-overflow"):
            return "print_msg-overflow"
        if san not in ("-", None):
            return "crash:%s:%s:%s" % (san, a.get("at", "-"), top)
        return "crash:%s:code%s" % (st, a.get("code"))
    errs = a.get("stderr_errs", 0)
    ret = a.get("ret")
    if a.get("san") not in ("-", None):
        return "sanitizer-report:%s:%s" % (a.get("san"), a.get("frame", "-").split("<")[0])
    if ret == 0 and errs > 0:
        stage = next((s[0] for s in a["stages"] if s[1] == 0 and s[2] > 0), None)
        if stage is None:     # every reporting stage did fail: its value was dropped on the way up
            stage = next((s[0] + "-value-dropped" for s in a["stages"] if s[2] > 0), "before-stages")
        if a.get("first") == "cannot_open_module" and stage == "parse":
            return "use-missing-module-rc0"
        return "rc0-with-error:%s:%s" % (stage, a.get("first"))
    if ret != 0 and errs == 0:
        stage = next((s[0] for s in a["stages"] if s[1] != 0), "?")
        return "rc!=0-without-diagnostic:" + stage
    if a.get("usp") is None or a.get("usp") > -1 or a.get("dclose") != 0 or a.get("fcloses") != len(a["opens"]):
        return "use-stack-imbalance"
    scan_errs = sum(s[2] for s in a["stages"] if s[0] == "scan")
    if a.get("fmt") != a.get("errs") or a.get("errs") != errs - scan_errs:
        return "diagnostic-format"
    return None

def write_input(impl, i, inp):
    p = os.path.join(impl.dir, "in", "i%06d.nev" % i)
    with open(p, "wb") as fh:
        fh.write(inp["data"])
    return p

def run_one(impl, data, mode, tag="t"):
    p = os.path.join(impl.dir, "in", "%s.nev" % tag)
    with open(p, "wb") as fh:
        fh.write(data)
    return impl.run(["c %s %s" % (mode, p)], workers=1)[0]

def shrink(impl, inp, sig, budget=160):
    """delta debugging (ddmin) on bytes, keeping the signature"""
    data = inp["data"]
    tests = [0]
    def bad(d):
        tests[0] += 1
        return signature(run_one(impl, d, inp["mode"], "shrink"), dict(inp, data=d)) == sig
    n = 2
    while len(data) >= 2 and tests[0] < budget:
        chunk = max(1, len(data) // n)
        parts = [data[i:i + chunk] for i in range(0, len(data), chunk)]
        reduced = False
        for i in range(len(parts)):
            if tests[0] >= budget: break
            cand = b"".join(parts[:i] + parts[i + 1:])
            if cand != data and bad(cand):
                data, n, reduced = cand, max(n - 1, 2), True
                break
        if not reduced:
            if chunk == 1: break
            n = min(len(data), n * 2)
    return data, tests[0]

def replay_text(sig, inp, a, data):
    return ("# C05: the compiler must terminate and either return 0 without an `error:` line or return non-zero after at least one `file:line: error:` line, with no sanitizer report\n"
            "# signature: %s\n# generator: %s / %s\n# outcome: %s\nkind: source\nmode: %s\nhex: %s\n" % (
                sig, inp["kind"], inp.get("sub"), {k: a.get(k) for k in ("status", "code", "done", "ret", "stderr_errs", "errs", "first", "stages", "usp", "san", "frame")},
                inp["mode"], data.hex()))

MAX_NEW_SIGS = 10     # new signatures reported in full (the rest are counted in evidence)
MAX_SHRUNK = 5        # of which shrunk by delta debugging

def report_signatures(rep, st, part, sigs, impl):
    """sigs: {signature: [(input|None, outcome-or-text)]}.  Known -> KNOWN-FINDING, new -> VIOLATION (shrunk replay)."""
    known = {k["signature"] for k in rep.kf.get("known", []) if k["property"] == rep.pid}
    new = 0
    for sg, lst in sorted(sigs.items()):
        if sg in known:
            inp, a = min(lst, key=lambda x: len(x[0]["data"]) if x[0] else 0)
            if inp is None:
                rep.finding(sg, "%d cases; first:\n%s" % (len(lst), a))
            else:
                rep.finding(sg, "%d inputs; smallest (%s/%s, %d bytes): %r\noutcome: %s" % (len(lst), inp["kind"], inp.get("sub"), len(inp["data"]), inp["data"][:200],
                            {k: a.get(k) for k in ("status", "code", "ret", "stderr_errs", "first", "stages", "san", "frame", "at")}))
            continue
        new += 1
        if new > MAX_NEW_SIGS:
            continue
        inp, a = min(lst, key=lambda x: len(x[0]["data"]) if x[0] else 0)
        if inp is None:
            rep.violation("new_%s_%s" % (part, sg), "# signature: %s\n# %d cases; first:\n# %s\n" % (sg, len(lst), str(a).replace("\n", "\n# ")), True)
            continue
        data, tests = inp["data"], 0
        if new <= MAX_SHRUNK and impl is not None:
            data, tests = shrink(impl, inp, sg)
            a = run_one(impl, data, inp["mode"], "final")
        rep.violation("new_%s_%s" % (part, sg), replay_text(sg, inp, a, data), True)
        st.setdefault(part + "_shrunk", {})[sg] = dict(from_bytes=len(inp["data"]), to_bytes=len(data), tests=tests, inputs=len(lst))
    st[part + "_new_signatures"] = new

def x3_stream(rep, impl, rng, tier, c, st):
    os.makedirs(os.path.join(impl.dir, "in"), exist_ok=True)
    samples = load_samples()
    inputs = gen_inputs(rng, tier, samples, c)
    paths = [write_input(impl, i, inp) for i, inp in enumerate(inputs)]
    t0 = time.time()
    reqs = ["c %s %s" % (inp["mode"], p) for inp, p in zip(inputs, paths)]
    head = 600
    res = impl.run(reqs[:head], workers=6)
    ncrash = sum(1 for a in res if a.get("done") != 1)
    if ncrash > head // 3:
        # the tree is broken wholesale (every diagnostic crashes, say): the first inputs show it, the rest would only cost sanitizer reports
        st["x3_truncated_after"] = head; st["x3_crashes_in_head"] = ncrash
        inputs, paths = inputs[:head], paths[:head]
    else:
        res += impl.run(reqs[head:], workers=6)
    st["x3_wall_s"] = round(time.time() - t0, 1)
    # pipeline model on every input that returned
    plines, pidx = [], []
    for i, a in enumerate(res):
        if a.get("done") == 1 and a["stages"]:
            plines.append("p " + " ".join("%d:%d" % (s[2], s[1]) for s in a["stages"]))
            pidx.append(i)
    mres = run_model(plines) if plines else []
    kinds, outcomes, sigs, classes = {}, {}, {}, {}
    stage_fail = {}
    pdiv = 0
    for j, i in enumerate(pidx):
        a, b = res[i], mres[j]
        names = [s[0] for s in a["stages"]]
        if names != STAGES[:len(names)] or str(a.get("ret")) != b.get("ret") or str(a.get("stderr_errs")) != b.get("errs") or int(b.get("ran", -1)) != len(names):
            pdiv += 1
            if pdiv <= 3:
                sg = signature(a, inputs[i])
                rep.violation("pipeline_div_%d" % i, "# correspondence M-Diag<->nev_compile broken: stages %s, I returned %s with %s error lines, the pipeline model gives %s\n%s" % (
                    a["stages"], a.get("ret"), a.get("stderr_errs"), b, replay_text(sg or "pipeline-model-divergence", inputs[i], a, inputs[i]["data"])), sg is not None)
        if a.get("ret") != 0:
            f = names[-1] if names else "?"
            stage_fail[f] = stage_fail.get(f, 0) + 1
    for inp, a in zip(inputs, res):
        kinds[inp["kind"]] = kinds.get(inp["kind"], 0) + 1
        sg = signature(a, inp)
        if a.get("status") == "timeout": oc = "timeout"
        elif a.get("done") != 1: oc = "crash"
        elif a.get("ret") == 0: oc = "accepted" if sg is None else "accepted-with-error-line"
        else: oc = "diagnosed" if sg is None else "rejected-without-diagnostic"
        outcomes[oc] = outcomes.get(oc, 0) + 1
        if a.get("done") == 1 and a.get("first", "-") != "-":
            classes[a["first"]] = classes.get(a["first"], 0) + 1
        if sg is not None:
            sigs.setdefault(sg, []).append((inp, a))
    report_signatures(rep, st, "x3", sigs, impl)
    st["x3_inputs"] = len(inputs); st["x3_kinds"] = kinds; st["x3_outcomes"] = outcomes
    st["x3_signatures"] = {k: len(v) for k, v in sigs.items()}
    st["x3_first_error_classes"] = dict(sorted(classes.items(), key=lambda kv: -kv[1])[:25])
    st["x3_distinct_error_classes"] = len(classes)
    st["x3_failing_stage"] = stage_fail
    st["x3_pipeline_lines"] = len(plines); st["x3_pipeline_div"] = pdiv
    st["x3_nest_depths"] = sorted({inp["depth"] for inp in inputs if inp["kind"] == "nest"})
    st["x3_nest_constructs"] = len(NEST)
    deep = {}
    for inp, a in zip(inputs, res):
        if inp["kind"] == "nest" and signature(a, inp) is not None:
            deep.setdefault(inp["sub"], []).append(inp["depth"])
    st["x3_nest_first_failing_depth"] = {k: min(v) for k, v in deep.items()}
    st["x3_distinct_inputs"] = len({inp["data"] for inp in inputs})

# ------------------------------------------------------------------ search after a broken proof / tie

def search_failing_input(impl, c):
    """looks for a concrete input on which the PROPERTY fails, guided by what broke"""
    found = []
    M = c.get("M", 1024)
    cand = []
    for n in (M // 4, M // 2, M - 60, M - 41, M, M + 76, 4 * M):
        cand.append(dict(kind="long", sub="longid-undefined", data=("func main() -> int { %s }" % ("a" * max(n, 1))).encode(), mode="s"))
    known = {k["signature"] for k in load_known_findings().get("known", []) if k["property"] == "C05"}
    for inp in cand:
        a = run_one(impl, inp["data"], inp["mode"], "search")
        sg = signature(a, inp)
        if sg is not None and sg not in known:
            return replay_text(sg, inp, a, inp["data"])
    # use chains around the guard
    dim = c.get("dim", 16)
    for depth in (dim, dim + 1, dim + 2, dim + 8):
        mods = {}
        nm = lambda i: "zsearch" + letters(i)
        for i in range(depth):
            mods[nm(i)] = [nm(i + 1)] if i + 1 < depth else []
        g = Graph("search", [nm(0)], mods, False)
        p = g.write(impl, 99000 + depth)
        a = impl.run(["c s " + p], workers=1)[0]
        sg = signature(a, dict(kind="usegraph", sub="chain"))
        if sg is not None and sg not in known:
            return "# use chain of depth %d\n# signature: %s\n# outcome: %s\nkind: usegraph\nfilemode: 0\nmain: %s\n%s" % (
                depth, sg, {k: a.get(k) for k in ("status", "ret", "san", "frame", "usp")}, nm(0), "".join("module %s: %s\n" % (k, ",".join(v)) for k, v in mods.items()))
    return None

# ------------------------------------------------------------------ entry points

def run_correspondence(rep, tier, seed, consts, workdir):
    impl = Impl(workdir)
    rng = Rng(seed)
    st = dict(x1_div=0, x1_known_overflows=0, x1_oob_unobserved=0, x2_div=0, x2_rc0=0)
    x1_print_msg(rep, impl, rng.fork(), tier, consts, st)
    x2_use_graphs(rep, impl, rng.fork(), tier, consts, st)
    x2b_reentry(rep, impl, rng.fork(), tier, consts, st)
    x3_stream(rep, impl, rng.fork(), tier, consts, st)
    return st

def replay_file(path, workdir):
    """re-runs a replay file; returns (failing?, text)"""
    impl = Impl(workdir)
    os.makedirs(os.path.join(impl.dir, "in"), exist_ok=True)
    kv, mods = {}, {}
    for l in open(path):
        l = l.rstrip("\n")
        if l.startswith("#") or not l.strip(): continue
        if l.startswith("module "):
            n, us = l[7:].split(":", 1); mods[n.strip()] = [x for x in us.strip().split(",") if x]
        elif ":" in l:
            k, v = l.split(":", 1); kv[k.strip()] = v.strip()
    kind = kv.get("kind")
    known = {k["signature"] for k in load_known_findings().get("known", []) if k["property"] == "C05"}
    verdict = lambda sg: sg is not None and sg not in known
    note = lambda sg: " (known finding of the pinned tree)" if sg in known else ""
    if kind == "source":
        inp = dict(kind="replay", sub="-", data=bytes.fromhex(kv["hex"]), mode=kv.get("mode", "s"))
        a = run_one(impl, inp["data"], inp["mode"], "replay")
        sg = signature(a, inp)
        return verdict(sg), "signature=%s%s outcome=%s" % (sg, note(sg), a)
    if kind == "usegraph":
        g = Graph("replay", [x for x in kv.get("main", "").split(",") if x], mods, kv.get("filemode") == "1")
        p = g.write(impl, 98000)
        a = impl.run(["c %s %s" % ("f" if g.filemode else "s", p)], workers=1)[0]
        sg = signature(a, dict(kind="usegraph", sub="-"))
        c, _ = extract_consts()
        b = run_model([g.model_line(c.get("lim", 16), p)])[0]
        return verdict(sg), "signature=%s%s outcome=%s model=%s" % (sg, note(sg), a, b)
    if kind == "printmsg":
        a = impl.run(["m " + kv["args"]], workers=1)[0]
        c, _ = extract_consts()
        F, line, L, k = [int(x) for x in kv["args"].split()]
        b = run_model(["m %d %d %s %d %d 5 %d %d" % (c.get("M", 1024), c.get("grow", 10), c.get("mode", "full"), F, line, L, k)])[0]
        crashed = a.get("done") != 1
        agree = (crashed and b.get("inb") == "0") or (not crashed and (str(a.get("len")), str(a.get("msgs")), str(a.get("asz"))) == (b.get("len"), b.get("count"), b.get("size")))
        return (not agree) or (crashed and "print_msg-overflow" not in known), "outcome=%s model=%s agree=%s" % (a, b, agree)
    return False, "unrecognised replay file"
