# table of claimed checks; exec'd by mkmanifest.py
NOT_YET = {}
claim("C09", "proof",
      "Lean theorems over M-Heap (mirror of gc.c): invariant preserved by every operation over any history, a collection keeps exactly the reachable cells; M-Heap tied to gc.c by state-for-state correspondence on seeded histories",
      "Lean kernel + propext/Classical.choice/Quot.sound; the hand model is tied to gc.c only on the histories the correspondence explores; malloc/free trusted",
      "Lean 4 invariant induction + refinement to a reachability spec; model<->C differential correspondence", "DESIGN.md §3 C09")
claim("C03", "proof",
      "part 1 of C03: Lean theorems that the handler lookup (binary search over the exception table) returns the unique block containing the fault address, terminates and stays in bounds, tied to exctab.c by correspondence on seeded and exhaustive small tables; unwinding/delivery theorems over the VM model are added as the VM model lands",
      "Lean kernel + standard axioms; hand model tied by correspondence; emitter's table shape checked per module (see C07)",
      "Lean 4 proof of binary search (soundness, completeness, uniqueness, bounds) + model<->C correspondence", "DESIGN.md §3 C03")
claim("C12", "proof",
      "Lean theorems over the model of the VM's index arithmetic: row-major exactness/injectivity/bounds, range and slice composition denotation (two levels), string index/slice, shape guards; _partial + _counterexample where the pinned code is wrong; tied to object.c/vmexec.c by running the real handlers as single instructions against the model, exhaustive small scope",
      "Lean kernel + standard axioms; model written by hand (sub-agent) and tied by correspondence; int overflow in slice arithmetic not modelled",
      "Lean 4 proofs by list induction + exhaustive small-scope model<->C correspondence", "DESIGN.md §3 C12")
claim("C17", "proof",
      "Lean theorems over M-FFI (mirror of back/vmffi.c + the descriptor emitter of front/emit.c): the VM's 32-bit offset walk puts every leaf of every nested record at its C offsetof and stays inside sizeof (induction on the type); unpack(pack r) = r; the emitted descriptor of any arity is parsed back as declared and consumed exactly; missing library/symbol never call; nil operand => ffi_fail proved partially (counterexample: nil operand followed by a non-nil record operand). Tied by correspondence: h_ffi includes vmffi.c and runs the static walk functions against nmdrv; emitted descriptors compared with the real front end; generated extern signatures + gcc-compiled callees run end-to-end. Partial: register/memory classification and libffi itself are runtime ABI, observed only end-to-end",
      "Lean kernel + propext/Classical.choice/Quot.sound; hand model tied to vmffi.c/emit.c only on the explored inputs; libffi is outside the model; gcc as layout oracle",
      "Lean 4 mutual structural induction over nested record types; model<->C differential correspondence; generated C callees", "DESIGN.md §3 C17 + docs/DESIGN.add.C17.md")
claim("C01", "proof",
      "every sample and seeded family program is run on the real VM (ASan/UBSan, asserts on) and replayed instruction by instruction on the Lean VM model over the proved heap model; theorems cover the VM's guard logic where stated in Props/C01; known pinned-tree defects are replayed as probes",
      "Lean kernel + standard axioms; M-VM is a hand model tied by lockstep traces on the explored programs; static typing => operand tags is validated dynamically, not proved",
      "Lean 4 model of the VM + per-instruction lockstep correspondence; sanitizer verdict as the failing-input oracle", "DESIGN.md §3 C01")
claim("C04", "proof",
      "heap level proved in Lean for all heaps/roots/histories (a collection keeps every reachable cell bit-identical with its edges, touches nothing else of the machine); VM level: every program is run under several schedules and heap sizes on the real VM and on the Lean VM in lockstep, outcomes compared across schedules",
      "Lean kernel + standard axioms; roots-complete-at-safe-points is validated by lockstep replay, not proved; C-stack depth of the recursive marker is runtime",
      "Lean 4 refinement of the collector to a reachability spec + schedule-differential lockstep correspondence", "DESIGN.md §3 C04")
claim("C13", "proof",
      "Lean theorem on the VM model: the emitted last-call sequence (args; func; SLIDE n+L n+1; CALL, no MARK) re-enters the callee in exactly the fresh-entry configuration (sp = fp + n, same fp, new arguments in the parameter slots) for every machine state, so the entry height is independent of the iteration count; tied by lockstep traces; peak sp measured at N and 10N on the real VM for every tail shape and the marked call checked in the dumped code",
      "Lean kernel + standard axioms; tailrec.c's position analysis is observed (SLIDE;CALL emitted, constant peak sp), not modelled",
      "Lean 4 proof over the SLIDE copy loop + lockstep correspondence + peak-sp measurement", "DESIGN.md §3 C13")
claim("C14", "proof",
      "Lean theorems on the VM model: a checked push is in bounds or reported before any write; MARK is proved in bounds when the frame fits and proved to write before checking when it does not (general counterexample = the pinned-tree defect, replayed under ASan as a known finding); the stack test is monotone in the size; heap exhaustion is reported exactly when all cells are in use; tied by lockstep traces over a grid of stack and heap sizes",
      "Lean kernel + standard axioms; ALLOC/RECORD_UNPACK/DUP write-before-check are covered by trace correspondence and ASan, not by a separate theorem",
      "Lean 4 frame lemmas + size-grid lockstep correspondence under ASan", "DESIGN.md §3 C14")
claim("C15", "proof",
      "VM side: Lean theorem that a MARK…RET frame restores fp/pp/gp exactly and nets one slot, hence every nev_execute returns with sp_before + 1 (counterexample to execute_restores_sp for every program = known finding), first/later execute entry logic; seeded API histories (several entry points, failing first call) replayed in lockstep; entry lookup checked against the function table; compile determinism checked differentially after other compilations kept alive",
      "Lean kernel + standard axioms; the compile-determinism half is differential testing (no table of file-scope globals was extracted)",
      "Lean 4 frame round-trip theorem + API-history lockstep correspondence + differential compile determinism", "DESIGN.md §3 C15")
claim("C16", "proof",
      "Lean theorems (a) over the destructor table of front/parser.y regenerated from the source text on every run: every heap-owning grammar symbol that bison can discard has a releasing destructor of the right type (listed exception: param_seq), values handed to the caller are not destructed, every grammar action takes charge of every owning value it pops; (b) over M-Ledger (malloc/free events of gc.c/object.c on top of M-Heap): over any history no double/invalid free, live blocks = sum over allocated cells, a collection frees exactly the blocks of the unreachable cells each once, gc_delete leaves nothing. Tied by translator (a) and by malloc/free-counting correspondence (b). Partial for the property as a whole: AST teardown, typechecker early returns and program/module/vm teardown are only observed by a seeded compile/run/dispose stream under ASan+LSan (testing)",
      "Lean kernel + propext/Classical.choice/Quot.sound, gen/parsertab.py + bison's XML report, harness shims, sanitizer runtimes",
      "Lean 4 finite-table decision over translator output; invariant induction for the ledger; malloc/free differential correspondence; sanitizer leak stream", "DESIGN.md §3 C16 + docs/DESIGN.add.C16.md")
claim("C10", "proof",
      "Lean theorems over tables REGENERATED from the C source on every run (constred.c/enumred.c clauses, typecheck.c typing rules, emit.c opcode selection, vmexec.c handlers, typed by clang): every folding clause is the same guarded typed C expression as the handler the emitter selects, hence folds to exactly the value the VM computes for ALL operand values, reports division by zero exactly where the VM raises it, and traps only on (MIN,-1) and out-of-range shifts; _partial + _counterexample for 4 pinned defects; whole-compiler literal-vs-variable correspondence ties translator and model",
      "Lean kernel + standard axioms; gen/numtab.py + clang-14 AST; C semantics of Model/CExpr.lean; Lean Float opaque (float statements structural); &&/|| code shape hand-modelled",
      "Lean 4 proof by decidable syntactic agreement lifted by a generic congruence lemma; translator; differential correspondence through the whole compiler", "DESIGN.md §3 C10")
claim("C11", "proof",
      "Lean theorems over the regenerated tables: every arithmetic/compare/bitwise/shift/conversion handler of vmexec.c equals Never.Num for all operand values; int/long are two's complement (BitVec) with truncating division; promotion matrix = join in int<long<float<double with the conversion on the lower operand; assignment and parameter matrices convert to the declared type (_partial/_counterexample for the pinned (int,double) cell); the emitter selects the operator's own handler (_partial/_counterexample: bool !=, enum compare); float handlers work in their own precision (structural); %d/%lld numeral proved, %.2f by correspondence",
      "Lean kernel + standard axioms; gen/numtab.py + clang-14 AST; C semantics of Model/CExpr.lean; Lean Float opaque; Python oracle + glibc printf for the correspondence",
      "Lean 4 proof (decide over generated finite tables + universally quantified BitVec lemmas); translator; differential correspondence through the whole compiler", "DESIGN.md §3 C11")
