# table of claimed checks; exec'd by mkmanifest.py
NOT_YET = {}
claim("C09", "proof",
      "Lean theorems over M-Heap (mirror of gc.c): invariant preserved by every operation over any history, a collection keeps exactly the reachable cells; M-Heap tied to gc.c by state-for-state correspondence on seeded histories",
      "Lean kernel + propext/Classical.choice/Quot.sound; the hand model is tied to gc.c only on the histories the correspondence explores; malloc/free trusted",
      "Lean 4 invariant induction + refinement to a reachability spec; model<->C differential correspondence", "DESIGN.md §3 C09")
