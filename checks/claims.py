# table of claimed checks; exec'd by mkmanifest.py
NOT_YET = {}
claim("C09", "proof",
      "Lean theorems over M-Heap (mirror of gc.c): invariant preserved by every operation over any history, a collection keeps exactly the reachable cells; M-Heap tied to gc.c by state-for-state correspondence on seeded histories",
      "Lean kernel + propext/Classical.choice/Quot.sound; the hand model is tied to gc.c only on the histories the correspondence explores; malloc/free trusted",
      "Lean 4 invariant induction + refinement to a reachability spec; model<->C differential correspondence", "DESIGN.md §3 C09")
claim("C03", "proof",
      "part 1 of C03: Lean theorems that the handler lookup (binary search over the exception table) returns the unique block containing the fault address, terminates and stays in bounds, tied to exctab.c by correspondence on seeded and exhaustive small tables; unwinding/delivery theorems over the VM model are added as the VM model lands",
      "Lean kernel + standard axioms; hand model tied by correspondence; emitter's table shape checked per module (see C07)",
      "Lean 4 proof of binary search (soundness, completeness, uniqueness, bounds) + model<->C correspondence", "DESIGN.md §3 C03")
claim("C12", "proof",
      "Lean theorems over the model of the VM's index arithmetic: row-major exactness/injectivity/bounds, range and slice composition denotation (two levels), string index/slice, shape guards; _partial + _counterexample where the pinned code is wrong; tied to object.c/vmexec.c by running the real handlers as single instructions against the model, exhaustive small scope",
      "Lean kernel + standard axioms; model written by hand (sub-agent) and tied by correspondence; int overflow in slice arithmetic not modelled",
      "Lean 4 proofs by list induction + exhaustive small-scope model<->C correspondence", "DESIGN.md §3 C12")
