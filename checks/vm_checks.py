"""Shared driver for the VM-level checks: runs program sets under configurations through
h_vm + nmdrv vm (lockstep), classifies the implementation's outcome, reports."""
import os, re, collections
from common import *
import vm_corr, progs

ALLOWED_END = ("return 0", "return 1", "exit 1")

def crash_signature(run):
    """a stable signature for a crash of I: sanitizer class + first frame inside the repo sources"""
    err = run["err"]
    m = re.search(r"ERROR: AddressSanitizer: (\S+)", err)
    cls = m.group(1) if m else ("ubsan" if "runtime error" in err else ("assert" if "Assertion" in err else "signal"))
    fr = re.findall(r"#\d+ 0x[0-9a-f]+ in (\w+) ", err)
    fn = next((f for f in fr if not f.startswith(("__", "_", "malloc", "free", "main"))), "?")
    if cls == "ubsan":
        mm = re.search(r"/(?:front|back)/(\w+\.c):\d+:\d+: runtime error: ([a-z ]+)", err)
        if mm:
            fn = mm.group(1); cls = "ubsan:" + mm.group(2).strip().replace(" ", "-")[:30]
    if cls == "assert":
        mm = re.search(r"(\w+\.c):\d+: (\w+): Assertion", err)
        if mm:
            fn = mm.group(2)
    return "%s@%s" % (cls, fn)

def sweep(h, rep, jobs, label, stats, on_result=None, max_report=3):
    """jobs: list of dict(name=..., kwargs for h.run). Lockstep-compares each; returns results.
    Divergence policy: I crashed where M did not -> property C01-style failure (found input);
    M and I differ otherwise -> tie broken, no failing input unless on_result finds one."""
    res = vm_corr.run_many(h, [{k: v for k, v in j.items() if k not in ("name", "meta", "group")} for j in jobs])
    reported = 0
    out = []
    judge = None
    pending = []
    for j, (job, r, st, det) in zip(jobs, res):
        stats[st] = stats.get(st, 0) + 1
        io = vm_corr.impl_outcome(r)
        for l in r["lines"]:
            if l.startswith("opcount"):
                for w in l.split()[1:]:
                    o, c = w.split(":"); stats.setdefault("_opc", {}); stats["_opc"][o] = stats["_opc"].get(o, 0) + int(c)
            if l.startswith("end "):
                mm = re.search(r"steps=(\d+)", l)
                if mm: stats["_steps"] = stats.get("_steps", 0) + int(mm.group(1))
        handled = on_result(j, r, st, det, io) if on_result else False
        # a model run that exceeds its time limit (long samples on a loaded machine) is NOT a divergence: it is counted under its own
        # status and not compared — an alarm must come from the code, never from the clock
        if not handled and st in ("diverge", "stop-mismatch", "result-mismatch", "output-mismatch", "final-mismatch"):
            pending.append((j, r, st, det, io))
        out.append((j, r, st, det, io))
        if not (pending and pending[-1][1] is r):
            h.cleanup(r)
    # report: implementation crashes first; then programs on which the reference evaluator says the behaviour is wrong (judged on up
    # to JUDGE_MAX divergent programs); then plain broken-tie divergences
    JUDGE_MAX = 40
    judged = []
    for n, (j, r, st, det, io) in enumerate(pending):
        i_crashed = io["kind"].startswith(("sanitizer", "signal", "assert", "crash"))
        rank = 0 if i_crashed else 2
        if not i_crashed and n < JUDGE_MAX and r.get("cfg", {}).get("execs", 1) in (1, None) and not j.get("calls") and not j.get("pre"):
            # is the implementation's behaviour on this program wrong by the language's rules? ask the reference evaluator
            try:
                import srcjudge
                judge = judge or srcjudge.Judge()
                text = j.get("src") or open(j["file"], encoding="latin1").read()
                jc, jd = judge.judge(text, j.get("args") or [])
                det = det + "\nsemantic oracle: " + jc + " - " + jd
                if jc == "disagree":
                    rank = 1     # concrete failing input: the program computes something else than the rules say
            except Exception as e:
                det = det + "\nsemantic oracle unavailable: %r" % (e,)
        judged.append((rank, n, j, r, st, det, io))
    judged.sort(key=lambda t: (t[0], t[1]))
    for (rank, n, j, r, st, det, io) in judged[:max_report]:
        src = j.get("src") or ("file " + str(j.get("file")))
        rep.violation("%s_%s_%s" % (label, st, j["name"]),
                      "# M-VM <-> vmexec.c correspondence broken (%s) on program %s, config %s, args %s\n# %s\n# I outcome: %s\n# stderr: %s\n%s"
                      % (st, j["name"], r["cfg"], j.get("args"), det.replace("\n", "\n# "), io["kind"], r["err"][-500:].replace("\n", "\n# "), src), rank < 2)
    for (j, r, st, det, io) in pending:
        h.cleanup(r)
    if judge:
        judge.close()
    return out

def expectation_stage(rep, tier, seed, label, want=lambda meta: True):
    """programs of progs.py whose expected output and result are computed by the generator from the language rules, independently of
    the implementation: run on the real pipeline and compared.  -> stats"""
    h = vm_corr.VmHarness()
    st = dict(programs=0, agree=0, bad=0)
    try:
        rounds = 2 if tier == "quick" else 12
        for r in range(rounds):
            for (name, src, meta) in progs.generate(seed * 7919 + 5 + r, 1):
                if not meta.get("shape") or not want(meta):
                    continue
                st["programs"] += 1
                run = h.run(src=src, args=["3"], trace=False, timeout=60)
                io = vm_corr.impl_outcome(run)
                out = run["out"].decode("latin-1")
                res = None
                for l in io["execs"]:
                    m = re.search(r"result=(\S+)", l)
                    if m: res = m.group(1)
                ok = io["kind"].startswith("return") and out == meta["expect_out"] and res == meta["expect_res"]
                h.cleanup(run)
                if io["kind"] == "timeout":
                    st["timeouts"] = st.get("timeouts", 0) + 1      # the clock, not the code: counted, not judged
                    continue
                if ok:
                    st["agree"] += 1
                else:
                    st["bad"] += 1
                    if st["bad"] <= 3:
                        rep.violation("%s_%s_r%d" % (label, name, r), "# the compiled program does not compute what the evaluation rules say\n# expected output %r result %s\n# observed %s output %r result %s\n# stderr: %s\n%s"
                                      % (meta["expect_out"], meta["expect_res"], io["kind"], out, res, run["err"][-400:].replace("\n", "\n# "), src), True)
    finally:
        h.close()
    return st

def sample_jobs(limit=None, **cfg):
    fs = vm_corr.sample_programs()
    if limit:
        fs = fs[:limit]
    return [dict(name=os.path.basename(f), file=f, **cfg) for f in fs]

def family_jobs(seed, rounds, args_list, **cfg):
    js = []
    for (n, s, m) in progs.generate(seed, rounds):
        for a in args_list:
            js.append(dict(name="%s_a%s" % (n, "_".join(a)), src=s, args=list(a), meta=m, **cfg))
    return js

def opcode_coverage(stats):
    return len(stats.get("_opc", {}))
