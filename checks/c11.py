"""C11 — numbers are fixed-width machine numbers with a defined promotion order (translator-tied proof)."""
from common import *
import num_corr

PROP_MODULE = "NeverModel.Props.C11"
REQUIRED = ["Never.C11.vm_handlers_eq_model", "Never.C11.int_ops_are_twos_complement", "Never.C11.long_ops_are_twos_complement",
            "Never.C11.int_long_conversions", "Never.C11.promotion_is_join", "Never.C11.assignment_converts_to_left_partial",
            "Never.C11.assignment_converts_to_left_counterexample", "Never.C11.assignment_int_double_asserts",
            "Never.C11.param_converts_to_declared", "Never.C11.emitter_selects_operator_handler_partial",
            "Never.C11.emitter_selects_operator_handler_counterexample", "Never.C11.float_ops_in_own_precision", "Never.C11.fmt_int",
            "Never.C11.opcode_table_closed"]

def check(tier, seed):
    rep = Report("C11", tier, seed, "proof")
    corr = num_corr.Corr("C11", tier, seed)
    try:
        corr.prepare()
        rep.cov["translator"] = dict(regenerated=corr.changed, **{k: v for k, v in corr.gen_stats.items()})
        if corr.tie_error:
            lake_build(["nmdrv"])
            found = corr.search()
            rep.violation("tie_broken", "translator gen/numtab.py: broken tie (tables NOT regenerated, proofs below are about the last good tables)\n%s%s"
                          % (corr.tie_error, ("\n--- failing input found on the implementation ---\n" + found) if found else ""), bool(found))
        def search():
            lake_build(["nmdrv"])
            return corr.search()
        proof_stage(rep, PROP_MODULE, search=search, required=REQUIRED)
        st = corr.evaluate(rep)
        # element-wise and matrix arithmetic of all four element types, as single handlers on the real VM against M-VM (values that expose a
        # wrong intermediate type: wrapping int products, float sums that round differently in double)
        import op_corr
        opst = op_corr.run_all(rep, tier, seed, only=lambda op: "_ARR_" in op)
        rep.cov["array_arithmetic_single_handler"] = {k: v for k, v in opst.items() if k != "by_handler"}
        rep.cov.update(trusted_base=["Lean 4.33 kernel", "axioms: propext, Classical.choice, Quot.sound",
                                     "gen/numtab.py + clang-14 JSON AST (typing, macro expansion, implicit casts)",
                                     "C semantics assumed by Model/CExpr.lean (wrap-around, idiv trap, FLT_EVAL_METHOD 0, cvtt*2si)",
                                     "Lean Float32/Float (opaque: float statements are structural)", "h_num.c + num_corr.py Python oracle", "gcc, glibc printf"],
                       evaluations=st["programs"], distinct_nontrivial=st["distinct_cases"], exhaustive=False,
                       rule="per (operator, admitted operand-type pair): every corner value of each side at least once (quick) / full corner x corner (thorough) + seeded random; operands in variables, result object compared by bit pattern with a Python oracle of the C semantics; conversions at return and assignment; string concatenation and print",
                       samples=st["samples"], numeric=dict((k, v) for k, v in st.items() if k != "samples"),
                       known_defects_present_in_tables=corr.known_present)
        rep.assumptions = ["float theorems are structural (own precision, same operation); IEEE bit results are tied by correspondence",
                           "%.2f is modelled executably (exact value, round-half-even) and tied by correspondence only; %d/%lld proved",
                           "NaN payloads are canonicalised (one NaN per type)"]
        return rep.finish()
    finally:
        corr.cleanup()

def replay(path):
    return num_corr.replay_file(path)
