#!/bin/bash
# every check's quick tier at several seeds on the unchanged tree (used with `vp run`)
cd "$(dirname "$0")/.." || exit 2
(cd lean && lake build NeverModel nmdrv >/dev/null 2>&1)
for seed in ${@:-2 3 4}; do
  for c in C01 C02 C03 C04 C05 C06 C07 C08 C09 C10 C11 C12 C13 C14 C15 C16 C17; do
    out=$(VERIF_SEED=$seed python3 checks/check.py $c --tier quick 2>&1 | grep -v "^KNOWN")
    echo "$out" | grep "VIOLATION" | head -5
    echo "seed=$seed $(echo "$out" | tail -1)"
  done
done
