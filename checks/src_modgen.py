"""Seeded generator of small MULTI-UNIT programs (C02: modules): a main unit and 2-3 modules.  Every module has items of
the SAME names (`X`, `get`, `bump`, sometimes an enum `E`), so that a qualified name `m.X` must resolve in ITS unit; a shared
module is used from two places (loaded once: its initialiser prints once); module-level `let` / `var` with side effects in
the initialisers; cross-unit calls and reads.  The main unit lists the modules it uses in DEPENDENCY order whenever an
initialiser has an observable effect (otherwise the real compiler's initialisation order — the known finding
module-bindings-initialised-before-used-modules — would show)."""

def generate(rng, tag):
    r = rng
    k = r.range(2, 3)
    names = ["%s%s" % (tag, c) for c in "abc"[:k]]
    uses = {names[0]: []}
    uses[names[1]] = [names[0]] if r.chance(0.8) else []
    if k == 3:
        opts = [[names[0]], [names[1]], [names[0], names[1]], [names[1], names[0]]]
        uses[names[2]] = r.choice(opts)
    effects = r.chance(0.75)          # initialisers print / read other units
    mods, has_enum = {}, {}
    for n in names:
        lines = ["module %s {" % n]
        for u in uses[n]:
            lines.append("    use %s" % u)
        has_enum[n] = r.chance(0.4)
        if has_enum[n]:
            lines.append("    enum E { one, two, three }")
        v0 = r.range(1, 9)
        if effects:
            init = "print(%d)" % (10 * (names.index(n) + 1) + v0)
            if uses[n] and r.chance(0.5):
                init = "%s + %s.X" % (init, uses[n][0])
            lines.append("    var X = %s;" % init)
            if r.chance(0.5):
                lines.append("    let Y = X + %d;" % r.range(1, 5))
            else:
                lines.append("    let Y = %d;" % r.range(1, 5))
        else:
            lines.append("    var X = %d;" % v0)
            lines.append("    let Y = %d;" % r.range(1, 5))
        lines.append("    func get() -> int { X * 10 + Y }")
        callee = ""
        if uses[n]:
            u = r.choice(uses[n])
            callee = " + %s.%s" % (u, r.choice(["get()", "bump(x)", "X", "Y"]))
        lines.append("    func bump(x : int) -> int { X = X + x; print(X); X%s }" % callee)
        if has_enum[n]:
            lines.append("    func pick(x : int) -> E { x > %d ? E::one : (x < 0 ? E::three : E::two) }" % r.range(0, 3))
        lines.append("}")
        mods[n] = "\n".join(lines) + "\n"
    main = []
    if effects or r.chance(0.5):
        order = list(names)                   # dependency order (a module uses only earlier ones)
    else:
        used = {u for n in names for u in uses[n]}
        order = [n for n in names if n not in used]     # only the roots: the others are loaded through them
    for n in order:
        main.append("use %s" % n)
    main.append("")
    main.append("var X = %s;" % ("print(%d)" % r.range(1, 9) if effects else str(r.range(1, 9))))
    main.append("let Y = X + 1;")
    main.append("func get() -> int { X * 100 + Y }")
    main.append("func bump(x : int) -> int { X = X + x; X }")
    body = []
    reach = set(order)
    for _ in range(r.range(3, 7)):
        n = r.choice(sorted(reach))
        c = r.weighted([("get", 3), ("bump", 4), ("readX", 2), ("readY", 1), ("assign", 2), ("own", 2), ("enum", 2)])
        if c == "get":
            body.append("print(%s.get())" % n)
        elif c == "bump":
            body.append("print(%s.bump(%d))" % (n, r.range(0, 4)))
        elif c == "readX":
            body.append("print(%s.X + X)" % n)
        elif c == "readY":
            body.append("print(%s.Y)" % n)
        elif c == "assign":
            body.append("%s.X = %d" % (n, r.range(0, 9)))
        elif c == "own":
            body.append("print(%s)" % r.choice(["get()", "bump(2)", "X", "Y"]))
        elif c == "enum" and has_enum[n]:
            body.append("print(match %s.pick(%d) { %s.E::one -> 1; %s.E::two -> 2; %s.E::three -> 3; })" % (n, r.range(-1, 4), n, n, n))
    body.append("get()")
    main.append("func main() -> int\n{\n    " + ";\n    ".join(body) + "\n}")
    return "\n".join(main) + "\n", mods
