"""C14 — exhausting the VM stack or heap is reported, not suffered."""
import re
from common import *
import vm_corr, vm_checks, progs

PROP_MODULE = "NeverModel.Props.C14"
REQUIRED = ["Never.C14.push_in_bounds_or_reported", "Never.C14.mark_in_bounds", "Never.C14.heap_limit_reported",
            "Never.C14.no_handler_writes_outside_the_stack", "Never.C14.no_step_writes_outside_the_stack",
            "Never.C14.verified_slide_stores_in_frame", "Never.C14.read_build_in_pushed_unchecked_pinned_counterexample",
            "Never.C14.slide_below_the_array_counterexample", "Never.C14.alloc_in_heap_or_reported",
            "Never.C14.vm_heap_limit_reported", "Never.C14.limit_report_propagates", "Never.C14.heap_reads_in_heap",
            "Never.C14.guarded_stores_in_heap"]

def check(tier, seed):
    rep = Report("C14", tier, seed, "proof")
    proof_stage(rep, PROP_MODULE, required=REQUIRED)
    h = vm_corr.VmHarness()
    stats, rows = {}, []
    rng = Rng(seed)
    fam = [p for p in progs.generate(seed, 1 if tier == "quick" else 4) if p[2].get("depth") or p[2].get("alloc") or p[2].get("exc")]
    viol = 0
    # stack grid: every size in a window, for recursion depths that straddle the limit
    stack_sizes = list(range(40, 40 + (24 if tier == "quick" else 64))) + [200, 1000]
    mem_sizes = [1, 2, 3, 17, 120, 200, 260, 300, 340, 400, 600, 1000, 5000] if tier == "quick" else [1, 2, 3, 4, 5, 8, 17, 33] + list(range(100, 420, 10)) + [600, 1000, 5000, 20000]
    jobs = []
    for (name, src, meta) in fam:
        if meta.get("leaf"):
            # every stack size from well below this program's peak to just above it: the limit is met inside each stack-growing
            # handler of the leaf in turn (peak measured by the harness hook on a run with an ample stack)
            r0 = h.run(src=src, args=["25"], gc=0, mem=5000, stack=2000, trace=False, timeout=120)
            pk = None
            for l in r0["lines"]:
                mm = re.search(r"peak_sp=(-?\d+)", l)
                if l.startswith("end ") and mm: pk = int(mm.group(1))
            h.cleanup(r0)
            if pk is None:
                rep.violation("c14_leaf_nopeak", "# the leaf program did not run to its end with an ample stack\n%s\n%s" % (src, r0["err"][-400:]), True)
                continue
            stats["leaf_peak_sp"] = pk
            for s in range(max(12, pk - (44 if tier == "quick" else 90)), pk + 4):
                jobs.append(dict(name="%s_s%d" % (name, s), src=src, args=["25"], stack=s, mem=5000, meta=dict(prog=name, axis="stack", size=s)))
        elif meta.get("depth"):
            for s in stack_sizes:
                jobs.append(dict(name="%s_s%d" % (name, s), src=src, args=["25"], stack=s, mem=5000, meta=dict(prog=name, axis="stack", size=s)))
        else:
            for m in mem_sizes:
                jobs.append(dict(name="%s_m%d" % (name, m), src=src, args=["40"], stack=200, mem=m, meta=dict(prog=name, axis="heap", size=m)))
            # every heap size of a window: the heap then runs out at every allocation of every multi-allocation handler in turn
            # (string + its reference, array + elements + reference, record + fields …); a collector that "helps" at that point
            # frees cells held only in C locals
            if meta.get("alloc") and (tier != "quick" or name.startswith(("alloc_records", "alloc_arrays", "alloc_strings"))):
                for m in range(24, 150 if tier == "quick" else 420):
                    if m not in mem_sizes:
                        jobs.append(dict(name="%s_m%d" % (name, m), src=src, args=["12"], stack=200, mem=m, meta=dict(prog=name + "#fine", axis="heap", size=m)))
            # C14-3 style: heap smaller than stack with a deep program
    wide = next((p for p in fam if p[2].get("wide")), None)
    if wide:
        # stack demand (depth x frame) above the heap size but below the stack size: the stack buffer must have the
        # configured STACK size whatever the heap size is
        for (m, s) in [(5000, 1000), (200, 1000), (250, 600), (300, 1000), (220, 500)]:
            jobs.append(dict(name="%s_m%d_s%d" % (wide[0], m, s), src=wide[1], args=["25"], stack=s, mem=m, meta=dict(prog=wide[0], axis="both", size=(m, s))))
    deep = next((p for p in fam if p[2].get("depth") and not p[2].get("wide")), None)
    if deep:
        for (m, s) in [(200, 1000), (210, 300), (150, 600)]:
            jobs.append(dict(name="%s_m%d_s%d" % (deep[0], m, s), src=deep[1], args=["30"], stack=s, mem=m, meta=dict(prog=deep[0], axis="both", size=(m, s))))
    # a burst: one instruction allocates nearly the whole heap between two safe points (the 80 %% rule is only looked at at SLIDE / RET,
    # so the collector's bookkeeping lists must hold as many entries as the heap has cells)
    burst = "func main(n : int) -> int { var a = {[ n ]} : int; a[n - 1] = 7; a[n - 1] + a[0] }\n"
    for (m, n) in [(2000, 1750), (2000, 1850), (3000, 2700), (5000, 4500), (5000, 4800), (1200, 1020)]:
        jobs.append(dict(name="alloc_burst_m%d_n%d" % (m, n), src=burst, args=[str(n)], stack=200, mem=m, meta=dict(prog="alloc_burst_n%d" % n, axis="heap", size=m)))
    per = {}
    def on_result(j, r, st, det, io):
        k = io["kind"]
        key = j["meta"]["prog"]
        if st in ("impl-timeout", "model-timeout"):
            return True      # the clock, not the code: counted under its status, not compared
        limit = ("stack too large" in r["err"]) or ("out of memory" in r["err"])
        if k.startswith(("sanitizer", "signal", "assert", "crash")):
            sig = vm_checks.crash_signature(r)
            # the four write-before-check opcodes are listed findings; the model crashes at the same instruction
            rep.finding("limit-crash:" + sig, "%s with %s=%s: %s instead of a limit report\n%s\n%s" % (key, j["meta"]["axis"], j["meta"]["size"], k, j["src"], r["err"][-600:]))
            per.setdefault(key, []).append((j["meta"], "CRASH"))
            return st in ("both-crash", "ok") or True
        if k.startswith("exit 1"):
            if not limit:
                rep.violation("c14_exit_nomsg_%s" % j["name"], "# exit(1) without 'stack too large' / 'out of memory'\n%s\n%s" % (j["src"], r["err"][-400:]), True)
            per.setdefault(key, []).append((j["meta"], "LIMIT"))
            return False
        ex = tuple(" ".join(w for w in e.split()[2:] if not w.startswith(("sp_before", "sp_after"))) for e in io["execs"])
        out = re.sub(rb"\t(gp|mem_size|stack_size): \d+\n", b"", r["out"])
        per.setdefault(key, []).append((j["meta"], (k, ex, out)))
        return False
    res = vm_checks.sweep(h, rep, jobs, "c14", stats, on_result)
    # the command-line front end (main.c): -m / -s must reach the machine for BOTH -f <file> and -e <source>: for each setting
    # the interpreter's outcome class (result / 'stack too large' / 'out of memory') is that of the embedding API at the same sizes
    import buildimpl, subprocess, tempfile
    info = buildimpl.build("asan")
    cli_rows = []
    deep_src = "func rec(a : int) -> int { a <= 0 ? 0 : 1 + rec(a - 1) }\nfunc main() -> int { rec(25) }\n"
    heap_src = "func mk(n : int, s : string) -> string { n == 0 ? s : mk(n - 1, s + \"ab\") }\nfunc main() -> int { length(mk(40, \"\")) }\n"
    cases = [(deep_src, dict(s=60, m=5000), "stack too large"), (deep_src, dict(s=2000, m=5000), None), (deep_src, dict(s=120, m=5000), "stack too large"),
             (heap_src, dict(s=2000, m=60), "out of memory"), (heap_src, dict(s=2000, m=5000), None), (heap_src, dict(s=2000, m=110), "out of memory")]
    env = dict(os.environ, ASAN_OPTIONS="detect_leaks=0")
    for src, sz, _ in cases:
        api = h.run(src=src, args=[], mem=sz["m"], stack=sz["s"], trace=False, timeout=60)
        aio = vm_corr.impl_outcome(api)
        acls = "stack too large" if "stack too large" in api["err"] else "out of memory" if "out of memory" in api["err"] else aio["kind"].split()[0]
        h.cleanup(api)
        with tempfile.NamedTemporaryFile("w", suffix=".nev", delete=False) as tf:
            tf.write(src); fn = tf.name
        for mode, extra in (("-f", [fn]), ("-e", [src])):
            try:
                p = subprocess.run([info["never"], "-m", str(sz["m"]), "-s", str(sz["s"]), mode] + extra, stdout=subprocess.PIPE, stderr=subprocess.PIPE, timeout=60, env=env)
                err = p.stderr.decode("latin1"); rc = p.returncode
            except subprocess.TimeoutExpired:
                err, rc = "timeout", -999
            ccls = "stack too large" if "stack too large" in err else "out of memory" if "out of memory" in err else ("return" if rc >= 0 and "error" not in err else "other")
            cli_rows.append(dict(mode=mode, sizes=sz, api=acls, cli=ccls, rc=rc))
            if ccls != acls and viol < 3:
                viol += 1
                rep.violation("c14_cli_%s_m%d_s%d" % (mode.strip("-"), sz["m"], sz["s"]), "# never %s with -m %d -s %d: outcome class `%s`, the embedding API with the same sizes gives `%s`: the limits given on the command line do not reach the machine\n# stderr: %s\n%s"
                              % (mode, sz["m"], sz["s"], ccls, acls, err[-300:].replace("\n", " "), src), True)
        os.unlink(fn)
    stats["cli_cases"] = len(cli_rows)
    stats["cli_classes"] = sorted(set("%s:%s" % (r["mode"], r["cli"]) for r in cli_rows))
    h.close()
    # smaller limits never change the result of a program that fits
    for key, outs in per.items():
        done = {o[1] for o in outs if o[1] not in ("LIMIT", "CRASH")}
        rows.append(dict(program=key, configs=len(outs), completed=len([o for o in outs if o[1] not in ("LIMIT", "CRASH")]),
                         limit_reports=len([o for o in outs if o[1] == "LIMIT"]), crashes=len([o for o in outs if o[1] == "CRASH"])))
        if len(done) > 1 and viol < 3:
            viol += 1
            rep.violation("c14_result_depends_on_limit_%s" % key, "# the result of %s depends on the configured limits:\n%s" % (key, "\n".join("# %s -> %s" % (o[0], str(o[1])[:200]) for o in outs if o[1] not in ("LIMIT", "CRASH"))), True)
    rep.cov.update(trusted_base=["Lean 4.33 kernel", "axioms: propext, Classical.choice, Quot.sound", "h_vm.c + comparator", "gcc/ASan (a write past the VM stack / heap is a heap-buffer-overflow)"],
                   evaluations=len(jobs), distinct_nontrivial=len(jobs), exhaustive=False,
                   rule="programs with recursion depth / allocation volume straddling each limit x every stack size in a window and a grid of heap sizes; outcome must be result | 'stack too large' | 'out of memory', never a sanitizer report; results equal across all fitting sizes; each run replayed in lockstep on the Lean VM",
                   samples=rows[:4], rows=rows, statuses={k: v for k, v in stats.items() if not k.startswith("_")})
    rep.assumptions = ["limits_monotone_heap relies on C04's schedule independence (checked, not proved at VM level)"]
    return rep.finish()

def replay(path):
    print(open(path).read()); return 0
