"""Correspondence M-VM (Lean, `nmdrv vm`) <-> the real VM: per-instruction lockstep
replay of the trace written by harness/h_vm.c, then comparison of the final stack, the
whole heap, the printed output and the result.  Used by C01/C03/C04/C07/C13/C14/C15."""
import os, subprocess, shutil, glob, hashlib, threading, itertools
from concurrent.futures import ThreadPoolExecutor
from common import *
import buildimpl

SAMPLES = os.path.join(REPO, "sample")

class VmHarness:
    def __init__(self, mode="asan"):
        self.info = buildimpl.build(mode)
        self.dir = scratch_dir("vm")
        self.exe = buildimpl.link_harness(self.info, os.path.join(VERIF, "harness", "h_vm.c"), os.path.join(self.dir, "h_vm"), ["-Wl,--wrap=exit"])
        self.n = 0
        self._cnt = itertools.count(1)
        self._lock = threading.Lock()
    def close(self):
        shutil.rmtree(self.dir, ignore_errors=True)

    def run(self, src=None, file=None, mem=5000, stack=200, gc=0, execs=1, args=(), trace=True, maxlines=400000, timeout=120, entry="main", cwd=None, pre=(), calls=None, bdump=None, never_path=None, post=None):
        """run the implementation; returns dict(paths, stdout bytes, rc, result lines)"""
        with self._lock:
            k = next(self._cnt)
        tag = os.path.join(self.dir, "r%d_%d" % (os.getpid(), k))
        d, t, r = tag + ".dump", tag + ".trace", tag + ".res"
        cmd = [self.exe, "-m", str(mem), "-s", str(stack), "-g", str(gc), "-x", str(execs), "-n", entry, "-D", d, "-R", r]
        if trace:
            cmd += ["-T", t, "-L", str(maxlines)]
        for ps in pre:
            cmd += ["-P", ps]
        if calls:
            cmd += ["-c", calls]
        if post:
            cmd += ["-Q", post]
        cmd += (["-B", bdump] if bdump else ["-f", file] if file else ["-e", src])
        cmd += list(args)
        env = dict(os.environ, ASAN_OPTIONS="detect_leaks=0:abort_on_error=0:allocator_may_return_null=1", UBSAN_OPTIONS="print_stacktrace=0")
        if never_path is not None:
            env["NEVER_PATH"] = never_path
        try:
            p = subprocess.run(cmd, stdout=subprocess.PIPE, stderr=subprocess.PIPE, timeout=timeout, env=env, cwd=cwd or SAMPLES, stdin=subprocess.DEVNULL)
            rc, out, err = p.returncode, p.stdout, p.stderr.decode("latin1")
        except subprocess.TimeoutExpired as e:
            rc, out, err = -999, e.stdout or b"", "timeout"
        res = open(r).read().split("\n") if os.path.exists(r) else []
        return dict(dump=d, trace=t if trace else None, res=r, rc=rc, out=out, err=err, lines=res, tag=tag,
                    cfg=dict(mem=mem, stack=stack, gc=gc, execs=("calls" if calls else execs)))

    def model(self, run, timeout=300):
        tr = run["trace"] if run["trace"] and os.path.exists(run["trace"]) else "-"
        c = run["cfg"]
        p = subprocess.run([NMDRV, "vm", run["dump"], run["res"], tr, str(c["mem"]), str(c["stack"]), str(c["gc"]), str(c["execs"])],
                           stdout=subprocess.PIPE, stderr=subprocess.PIPE, text=True, timeout=timeout)
        return p.stdout.split("\n"), p.stderr

    def cleanup(self, run):
        for k in ("dump", "trace", "res"):
            if run.get(k) and os.path.exists(run[k]):
                os.remove(run[k])

def impl_outcome(run):
    """canonical outcome of the implementation run"""
    L = run["lines"]
    end = next((l for l in L if l.startswith("end ")), None)
    comp = next((l for l in L if l.startswith("compile ")), None)
    execs = [l for l in L if l.startswith("exec ")]
    kind = "no-result-file"
    if comp and not comp.startswith("compile 0"):
        kind = "compile-fail"
    elif end:
        kind = " ".join(end.split()[1:3])
    if run["rc"] < 0 and run["rc"] != -999:
        kind = "signal %d" % (-run["rc"])
    if run["rc"] == -999:
        kind = "timeout"
    if "AddressSanitizer" in run["err"] or "runtime error" in run["err"]:
        kind = "sanitizer " + (run["err"].split("ERROR: AddressSanitizer: ")[1].split()[0] if "ERROR: AddressSanitizer: " in run["err"] else "ubsan")
    if "Assertion" in run["err"] and "failed" in run["err"]:
        kind = "assert"
    return dict(kind=kind, execs=execs, end=end, final=[l for l in L if l.startswith(("final ", "stack", "heap"))])

def compare(run, mlines, merr):
    """returns (status, detail) : status in ok | diverge | skipped-ffi | model-stop-mismatch | final-mismatch"""
    io = impl_outcome(run)
    if io["kind"] in ("compile-fail", "prepare-fail 1", "prepare-fail"):
        return "no-run", io["kind"]
    if io["kind"] == "timeout":
        return "impl-timeout", "the implementation run exceeded its time limit (not compared)"
    if not any(l.startswith("compile ") for l in run["lines"]):
        return "compile-crash", io["kind"] + " " + run["err"][-300:]
    dv = [l for l in mlines if l.startswith("DIVERGE")]
    stop = next((l for l in mlines if l.startswith("stop ")), None)
    if stop and stop.startswith("stop crash ffi"):
        return "skipped-ffi", ""
    if stop and "c_ptr identity" in stop:
        return "skipped-ffi", ""
    if dv:
        i = mlines.index(dv[0])
        return "diverge", "\n".join(mlines[i:i + 3])
    mexec = [l for l in mlines if l.startswith("exec ")]
    mout = next((l[4:] for l in mlines if l.startswith("out ")), "")
    mfinal = [l for l in mlines if l.startswith(("final ", "stack", "heap"))]
    # stops
    k = io["kind"]
    if stop:
        if stop.startswith("stop exit") and k.startswith("exit 1"):
            pass
        elif stop.startswith("stop crash") and (k.startswith(("sanitizer", "signal", "assert", "crash"))):
            return "both-crash", stop + " | " + k
        else:
            return "stop-mismatch", "M: %s | I: %s" % (stop, k)
    else:
        if not k.startswith("return"):
            return "stop-mismatch", "M: ran to completion | I: %s" % k
    # exec lines (strip the index)
    ie = [" ".join(l.split()[2:]) for l in io["execs"]]
    me = [" ".join(l.split()[1:]) for l in mexec]
    if not stop and ie != me:
        return "result-mismatch", "I: %s\nM: %s" % (ie, me)
    if mout != run["out"].hex():
        # I's stdout also carries vm_print of errors; compare as prefix-insensitive only when equal
        return "output-mismatch", "I: %s\nM: %s" % (run["out"][:200], bytes.fromhex(mout)[:200])
    if not stop and io["final"] != mfinal:
        d = final_diff(io["final"], mfinal)
        if d:
            return "final-mismatch", d
    return "ok", ""

def _refs(rep):
    import re
    k = rep[0]
    if k in "RWB":
        return [int(rep[1:])]
    if k == "U":
        return [int(rep[1:].split("@")[0])]
    if k in "VA":
        m = re.search(r"\[([0-9,]*)\]$", rep)
        return [int(x) for x in m.group(1).split(",") if x] if m else []
    return []

def final_diff(fi, fm):
    """registers and stack must be identical; the sets of allocated cells must be identical;
    cells reachable from the stack / gp must have identical contents (an unreachable cell may hold
    uninitialised element words in the C VM, e.g. the half-built array of a faulting RANGE_DEREF)"""
    if len(fi) != 3 or len(fm) != 3:
        return "final section missing"
    if fi[0] != fm[0]:
        return "I: %s\nM: %s" % (fi[0], fm[0])
    if fi[1] != fm[1]:
        return "I: %s\nM: %s" % (fi[1][:300], fm[1][:300])
    hi = dict(w.split(":", 1) for w in fi[2].split()[1:])
    hm = dict(w.split(":", 1) for w in fm[2].split()[1:])
    if set(hi) != set(hm):
        return "allocated cells differ: only I %s only M %s" % (sorted(set(hi) - set(hm))[:10], sorted(set(hm) - set(hi))[:10])
    roots = [int(w[1:]) for w in fi[1].split()[1:] if w.startswith("a")]
    gp = [int(x.split("=")[1]) for x in fi[0].split() if x.startswith("gp=")]
    seen, todo = set(), roots + gp
    while todo:
        a = todo.pop()
        if a == 0 or a in seen or str(a) not in hi:
            continue
        seen.add(a)
        if hi[str(a)] != hm[str(a)]:
            return "reachable cell %d: I %s M %s" % (a, hi[str(a)][:200], hm[str(a)][:200])
        todo.extend(_refs(hi[str(a)]))
    return None

def sample_programs():
    fs = sorted(glob.glob(os.path.join(SAMPLES, "*.nev")))
    return fs

def run_many(h, jobs, workers=14):
    """jobs: list of dict(kwargs for run) -> list of (job, run, status, detail)"""
    def one(job):
        r = h.run(**job)
        try:
            ml, me = h.model(r)
            st, det = compare(r, ml, me)
        except subprocess.TimeoutExpired:
            st, det = "model-timeout", ""
        return job, r, st, det
    with ThreadPoolExecutor(max_workers=workers) as ex:
        return list(ex.map(one, jobs))
