"""Seeded families of Never programs used by the VM-level checks (C01, C03, C04, C13, C14, C15).
Template based: shapes are fixed per family, constants / arities / nesting come from the Rng.
Each program is (name, source, entry args, meta)."""
from common import Rng

def tail_family(rng):
    """self tail calls through ?:, block, match arm, if-let; N = iteration count as first entry argument"""
    out = []
    k = rng.range(1, 4)
    extra = "".join(", p%d : int" % i for i in range(k))
    eargs = "".join(", p%d + %d" % (i, rng.range(0, 3)) for i in range(k))
    init = "".join(", %d" % rng.range(0, 5) for _ in range(k))
    out.append(("tail_cond", """
func loop(n : int, acc : int%s) -> int { n == 0 ? acc : loop(n - 1, acc + %d%s) }
func main(n : int) -> int { loop(n, 0%s) %% 1000003 }
""" % (extra, rng.range(1, 7), eargs, init), dict(tail=True)))
    out.append(("tail_block", """
func loop(n : int, acc : int) -> int {
    let d = n %% %d;
    var t = acc + d;
    if (n == 0) { t } else { t = t + 1; loop(n - 1, t %% 65521) }
}
func main(n : int) -> int { loop(n, %d) }
""" % (rng.range(2, 9), rng.range(0, 9)), dict(tail=True)))
    out.append(("tail_match", """
enum St { Go, Stop }
func st(n : int) -> St { n == 0 ? St::Stop : St::Go }
func loop(n : int, acc : int) -> int {
    match st(n) {
        St::Stop -> acc;
        St::Go -> loop(n - 1, (acc + n * %d) %% 65521);
    }
}
func main(n : int) -> int { loop(n, 1) }
""" % rng.range(1, 9), dict(tail=True)))
    out.append(("tail_iflet", """
enum Opt { Some { v : int; }, None }
func nxt(n : int) -> Opt { n == 0 ? Opt::None : Opt::Some(n - 1) }
func loop(n : int, acc : int) -> int {
    if let (Opt::Some(m) = nxt(n)) { loop(m, (acc + %d) %% 65521) } else { acc }
}
func main(n : int) -> int { loop(n, 0) }
""" % rng.range(1, 9), dict(tail=True)))
    out.append(("tail_noparam_local", """
var cnt = 0;
func spin() -> int {
    let a = cnt + %d;
    cnt = cnt + 1;
    cnt >= 1000 ? a : spin()
}
func main(n : int) -> int { cnt = 1000 - (n > 1000 ? 1000 : n); spin() }
""" % rng.range(1, 5), dict(tail=True, cap=1000)))
    out.append(("tail_rec_arm", """
enum Cmd { Step { by : int; left : int; }, Done }
func cmd(n : int) -> Cmd { n <= 0 ? Cmd::Done : Cmd::Step(%d, n - 1) }
func loop(c : Cmd, acc : int) -> int {
    match c {
        Cmd::Done -> acc;
        Cmd::Step(by, left) -> loop(cmd(left), (acc + by) %% 65521);
    }
}
func main(n : int) -> int { loop(cmd(n), 0) }
""" % rng.range(1, 9), dict(tail=True)))
    out.append(("tail_alloc", """
func loop(n : int, s : string, acc : int) -> int { n == 0 ? acc + length(s) : loop(n - 1, "x" + n, acc + length(s) % 7) }
func main(n : int) -> int { loop(n, "", 0) }
""", dict(tail=True, alloc=True)))
    return out

def deeprec_family(rng):
    w = rng.range(1, 8)
    ps = ", ".join("a%d : int" % i for i in range(w))
    call = ", ".join("a%d + 1" % i if i else "a0 - 1" for i in range(w))
    summ = " + ".join("a%d" % i for i in range(w))
    init = ", ".join(["n"] + [str(rng.range(0, 4)) for _ in range(w - 1)])
    return [("deeprec_w%d" % w, """
func rec(%s) -> int { a0 <= 0 ? (%s) : 1 + rec(%s) }
func main(n : int) -> int { rec(%s) %% 100003 }
""" % (ps, summ, call, init), dict(depth=True, width=w)),
    # deep and wide frames that pass EXISTING values on: stack demand grows with the depth, heap demand hardly at all
    ("widerec_w8", """
func wide(%s, h : int, n : int) -> int { n <= 0 ? a0 + h : 1 + wide(%s, h, n - 1) }
func main(n : int) -> int { wide(%s, 4, n) }
""" % (", ".join("a%d : int" % i for i in range(8)), ", ".join("a%d" % max(0, i - 1) for i in range(8)), ", ".join(str(3 + i) for i in range(8))), dict(depth=True, wide=True, width=8))]

def alloc_family(rng):
    out = []
    out.append(("alloc_strings", """
func main(n : int) -> int {
    var i = 0; var s = ""; var t = 0;
    while (i < n) { s = "k" + i + "v" + (i * %d); t = (t + length(s)) %% 9973; i = i + 1 };
    t
}
""" % rng.range(2, 99), dict(alloc=True)))
    out.append(("alloc_records", """
record P { x : int; y : int; nxt : P; }
func mk(n : int, tail : P) -> P { n == 0 ? tail : mk(n - 1, P(n, n * %d, tail)) }
func sum(p : P, acc : int) -> int { p == nil ? acc : sum(p.nxt, (acc + p.x + p.y) %% 65521) }
func main(n : int) -> int {
    var i = 0; var t = 0;
    while (i < n) { t = (t + sum(mk(%d, nil), 0)) %% 65521; i = i + 1 };
    t
}
""" % (rng.range(1, 9), rng.range(3, 12)), dict(alloc=True)))
    d1, d2, d3 = rng.range(2, 4), rng.range(2, 4), rng.range(1, 3)
    out.append(("alloc_arrays", """
func fill(var a[D1, D2] : int) -> int {
    var i = 0; var j = 0;
    for (i = 0; i < D1; i = i + 1) { for (j = 0; j < D2; j = j + 1) { a[i, j] = i * 10 + j } };
    0
}
func total(a[D1, D2] : int) -> int {
    var i = 0; var j = 0; var t = 0;
    for (i = 0; i < D1; i = i + 1) { for (j = 0; j < D2; j = j + 1) { t = t + a[i, j] } };
    t
}
func garbage(n : int) -> int { var i = 0; var s = ""; while (i < n) { s = s + "g"; i = i + 1 }; length(s) }
func main(n : int) -> int {
    var m = {[ %d, %d ]} : int;
    var c = {[ %d, %d, %d ]} : int;
    fill(m);
    c[%d, %d, %d] = 7;
    let before = total(m);
    let g = garbage(n);
    let after = total(m);
    before == after ? after + c[%d, %d, %d] + g : 0 - 1
}
""" % (d1, d2, d1, d2, d3, d1 - 1, d2 - 1, d3 - 1, d1 - 1, d2 - 1, d3 - 1), dict(alloc=True, arrays=True)))
    out.append(("alloc_closures", """
func mk(a : int, b : int) -> (int) -> int {
    let func f(x : int) -> int { helper(x) + a + b }
}
func helper(x : int) -> int { var i = 0; var s = ""; while (i < %d) { s = s + "q"; i = i + 1 }; x + length(s) }
func counter() -> () -> int { var c = 0; let func inc() -> int { c = c + 1; c } }
func main(n : int) -> int {
    let c1 = counter(); let c2 = counter();
    var i = 0; var t = 0;
    while (i < n) { t = (t + mk(i, 2)(10) + c1()) %% 65521; i = i + 1 };
    t + c2() * 1000
}
""" % rng.range(5, 40), dict(alloc=True, closures=True)))
    return out

def exc_family(rng):
    out = []
    a, b, c = rng.range(1, 9), rng.range(1, 9), rng.range(1, 9)
    out.append(("exc_args", """
func h(x : int) -> int { x * %d }
func g(a : int, b : int, c : int) -> int { a + b * 10 + c * 100 }
func f1(p : int) -> int { g(10 / p, h(2), 1) } catch (division_by_zero) { p + %d }
func f2(p : int) -> int { g(1, h(10 / p), 3) } catch (division_by_zero) { p + %d }
func f3(p : int) -> int { g(h(1), 2, 10 / p) } catch { 1000 + p }
func thrower(p : int) -> int { 10 / p }
func f4(p : int) -> int { g(1, thrower(p), h(3)) } catch (index_out_of_bounds) { 0 - 5 } catch (division_by_zero) { 7000 + p }
func outer(p : int) -> int { f1(p) + f2(p) + f3(p) + f4(p) }
func main(p : int) -> int { print(outer(0)); print(outer(p)); outer(0) + outer(p) }
""" % (a, b, c), dict(exc=True)))
    out.append(("exc_nested", """
func idx(a[D] : int, i : int) -> int { a[i] }
func lvl3(i : int) -> int { let a = [ 1, 2, 3 ] : int; idx(a, i) * 2 }
func lvl2(i : int) -> int { lvl3(i) + 1 } catch (division_by_zero) { 0 - 2 }
func lvl1(i : int) -> int { lvl2(i) + lvl2(i + 1) } catch (index_out_of_bounds) { 0 - %d }
func second(i : int) -> int { let a = [ 5 ] : int; a[i] } catch (index_out_of_bounds) { let b = [ 6 ] : int; b[i] } catch { %d }
func main(i : int) -> int { print(lvl1(0)); print(lvl1(i)); print(second(i)); lvl1(1) + lvl1(2) + second(0) }
""" % (rng.range(1, 50), rng.range(1, 50)), dict(exc=True)))
    out.append(("exc_unhandled", """
record R { v : int; }
func get(r : R) -> int { r.v }
func main(i : int) -> int { var q = R(%d); if (i > 2) { q = nil } else { q = q }; get(q) }
""" % rng.range(1, 99), dict(exc=True, unhandled=True)))
    kinds = [("div", "10 / (i - i)"), ("arrsize", "let a = [ 1, 2 ] : int; let b = [ 1, 2, 3 ] : int; let c = a + b; c[0]"),
             ("oob", "let a = [ 1, 2 ] : int; a[i + 5]"), ("invalid", "let r = sqrt(0.0 - 1.0 - i); 1"),
             ("overflow", "let r = exp(1000.0 + i); 1"), ("underflow", "let r = exp(0.0 - 1000.0 - i); 1")]
    kn, kb = rng.choice(kinds)
    out.append(("exc_unhandled_" + kn, """
func work(i : int) -> int { %s }
func main(i : int) -> int { print(1); work(i) + 1 }
""" % kb, dict(exc=True, unhandled=True)))
    out.append(("exc_math", """
func m(x : float) -> float { sqrt(x) } catch (invalid_domain) { 0.0 - 1.0 }
func e(x : float) -> float { exp(x) } catch (overflow) { 1.0 } catch (underflow) { 2.0 }
func main(i : int) -> int { let a = m(4.0); let b = m(0.0 - 4.0); let c = e(1000.0); let d = e(0.0 - 1000.0); let f = e(1.0);
  (a == 2.0 ? 1 : 0) + (b == 0.0 - 1.0 ? 10 : 0) + (c == 1.0 ? 100 : 0) + (d == 2.0 ? 1000 : 0) + (f > 2.7 ? 10000 : 0) }
""", dict(exc=True, math=True)))
    # chains: a fault raised INSIDE a clause is offered to the clauses after it (in source order), never to the ones before it
    kinds = [("division_by_zero", "10 / (d - d)"), ("index_out_of_bounds", "a[7 + d]"), ("nil_pointer", "get(nilr(d))")]
    order = list(kinds); rng.shuffle(order)
    k1, k2, k3 = order
    out.append(("exc_chain", """
record R { v : int; }
func get(r : R) -> int { r.v }
func nilr(d : int) -> R { var q = R(d); q = nil; q }
func chain(a[D] : int, d : int, sel : int) -> int
{
    sel == 0 ? %s : (sel == 1 ? %s : (sel == 2 ? %s : d))
}
catch (%s) { prints("c1\\n"); %s }
catch (%s) { prints("c2\\n"); %s }
catch (%s) { prints("c3\\n"); 0 - 3 }
func main(n : int) -> int {
    let a = [ 10, 20, 30 ] : int;
    print(chain(a, 1, 0)); print(chain(a, 1, 1)); print(chain(a, 1, 2)); print(chain(a, 1, 3));
    0
}
""" % (k1[1], k2[1], k3[1], k1[0], k2[1], k2[0], k3[1], k3[0]),
        dict(exc=True, chain=True, shape=True, expect_out="c1\nc2\nc3\n-3\r\nc2\nc3\n-3\r\nc3\n-3\r\n1\r\n", expect_res="I0")))
    return out

def idx_family(rng):
    out = []
    out.append(("slices", """
func pick(s[f .. t] : int, i : int) -> int { s[i] } catch (index_out_of_bounds) { 0 - 1 }
func main(n : int) -> int {
    let a = [ 10, 11, 12, 13, 14, 15, 16, 17, 18, 19 ] : int;
    let s = a[%d .. %d];
    let t = s[%d .. %d];
    var i = 0; var acc = 0;
    for (i = 0; i < 6; i = i + 1) { acc = acc * 3 + pick(t, i) + pick(s, i) };
    let str = "abcdefgh";
    prints(str[%d .. %d] + "|" + str[%d .. %d] + "\\n");
    acc
}
""" % (rng.range(0, 4), rng.range(5, 9), rng.range(0, 2), rng.range(2, 4), rng.range(0, 7), rng.range(0, 7), rng.range(0, 7), rng.range(0, 7)), dict(idx=True)))
    return out

def api_family(rng):
    return [("api_globals", """
var total = %d;
func bump(k : int) -> int { total = total + k; total }
func main(k : int) -> int { bump(k) + bump(1) }
""" % rng.range(0, 100), dict(api=True))]

def shapes_family(rng):
    """rarely taken emitter paths; each program prints values whose expected text is computed here, independently"""
    out = []
    a, b = rng.range(2, 9), rng.range(2, 9)
    k = a * 100
    out.append(("shape_stmt_then_func", """
func calc(a : int, b : int) -> int
{
    let k = a * 100;
    print(k);
    func scale(x : int) -> int { x * 2 };
    scale(b) + k
}
func main(n : int) -> int { let r = calc(%d, %d); print(r); r }
""" % (a, b), dict(shape=True, expect_out="%d\r\n%d\r\n" % (k, 2 * b + k), expect_res="I%d" % (2 * b + k))))
    x, y = rng.range(2, 9), rng.range(2, 9)
    out.append(("shape_pipe_tuple_local", """
func add(a : int, b : int) -> int { a + b }
func mul(a : int, b : int) -> int { a * b }
func apply(f(int, int) -> int, g(int, int) -> int, t : (int, int)) -> int { t |> f() }
func main(n : int) -> int {
    let t = (%d, %d) : (int, int);
    let f = mul; let g = add;
    print(t |> g()); print(t |> f());
    print(apply(add, mul, t)); print(apply(mul, add, t));
    0
}
""" % (x, y), dict(shape=True, expect_out="%d\r\n%d\r\n%d\r\n%d\r\n" % (x + y, x * y, x + y, x * y), expect_res="I0")))
    lo, hi = rng.range(0, 2), rng.range(3, 5)
    arr = [10, 20, 30, 40, 50, 60]
    up = arr[lo:hi + 1]; down = list(reversed(up))
    kk = rng.range(1, 9)
    out.append(("shape_compr_slices", """
func show(t[D] : int) -> int { var s = 0; for (e in t) { print(e); s = s + e }; s }
func main(n : int) -> int {
    let a = [ 10, 20, 30, 40, 50, 60 ] : int;
    let k = %d;
    let up = [ x + k | x in a[%d .. %d] ] : int;
    let down = [ x + k | x in a[%d .. %d] ] : int;
    let rg = [ i * k | i in [ %d .. %d ] ] : int;
    let rd = [ i * k | i in [ %d .. %d ] ] : int;
    show(up) + show(down) * 2 + show(rg) * 3 + show(rd) * 5
}
""" % (kk, lo, hi, hi, lo, lo, hi, hi, lo),
        dict(shape=True, expect_out="".join("%d\r\n" % v for v in [e + kk for e in up] + [e + kk for e in down] + [i * kk for i in range(lo, hi + 1)] + [i * kk for i in range(hi, lo - 1, -1)]),
             expect_res="I%d" % (sum(e + kk for e in up) * 3 + sum(i * kk for i in range(lo, hi + 1)) * 8))))
    n1, n2 = rng.range(1, 9), rng.range(10, 99)
    out.append(("shape_closure_reassign", """
func adder(k : int) -> (int) -> int { let func add(x : int) -> int { x + k } }
func main(n : int) -> int {
    var f = let func (x : int) -> int { 0 };
    f = adder(%d);
    print(f(5));
    f = adder(%d);
    print(f(5));
    f(0)
}
""" % (n1, n2), dict(shape=True, expect_out="%d\r\n%d\r\n" % (5 + n1, 5 + n2), expect_res="I%d" % n2)))
    out.append(("shape_not_tail", """
func odd_steps(n : int) -> bool { n == 0 ? false : !odd_steps(n - 1) }
func main(n : int) -> int { print(odd_steps(0) ? 1 : 0); print(odd_steps(1) ? 1 : 0); print(odd_steps(2) ? 1 : 0); print(odd_steps(7) ? 1 : 0); 0 }
""", dict(shape=True, expect_out="0\r\n1\r\n0\r\n1\r\n", expect_res="I0")))
    c1, c2, c3 = rng.range(1, 9), rng.range(1, 9), rng.range(1, 9)
    out.append(("shape_nest3", """
func outer(a : int) -> (int) -> (int) -> int {
    let func mid(b : int) -> (int) -> int {
        let func inner(c : int) -> int { a * 100 + b * 10 + c }
    }
}
func outer2(a : int) -> (int) -> (int) -> int {
    let func mid(b : int) -> (int) -> int {
        let func inner(c : int) -> int { b * 10 + a * 100 + c }
    }
}
func main(n : int) -> int { print(outer(%d)(%d)(%d)); print(outer2(%d)(%d)(%d)); 0 }
""" % (c1, c2, c3, c3, c2, c1), dict(shape=True, expect_out="%d\r\n%d\r\n" % (c1 * 100 + c2 * 10 + c3, c3 * 100 + c2 * 10 + c1), expect_res="I0")))
    i0, inc = rng.range(1, 9), rng.range(2, 9)
    out.append(("shape_prefix_capture", """
func counter(i : int, inc : int) -> () -> int {
    var cur = i + 0;
    let func step() -> int { cur = cur + inc; cur + i }
}
func main(n : int) -> int { let c = counter(%d, %d); print(c()); print(c()); c() }
""" % (i0, inc), dict(shape=True, expect_out="%d\r\n%d\r\n" % (2 * i0 + inc, 2 * i0 + 2 * inc), expect_res="I%d" % (2 * i0 + 3 * inc))))
    p, q, xx, yy = rng.range(1, 9), rng.range(1, 9), rng.range(1, 9), rng.range(1, 9)
    out.append(("shape_rethrow_env", """
func thrower(p : int, q : int) -> () -> int { let func t() -> int { (p + q) / (p - p) } }
func catcher(x : int, y : int) -> () -> int {
    let func c() -> int { let t = thrower(%d, %d); t() + x } catch (division_by_zero) { x * 1000 + y }
}
func main(n : int) -> int { let c = catcher(%d, %d); print(c()); 0 }
""" % (p, q, xx, yy), dict(shape=True, expect_out="%d\r\n" % (xx * 1000 + yy), expect_res="I0")))
    out.append(("shape_match_enum_values", """
enum S { TWO = S::THREE - S::ONE, THREE = 3, ONE = 1 }
enum A { X = Z::K * 2 + 1, Y }
enum Z { K = 21 }
func main(n : int) -> int { print(S::TWO + 0); print(A::X + 0); print(A::Y + 0); 0 }
""", dict(shape=True, expect_out="2\r\n43\r\n44\r\n", expect_res="I0")))
    return out

def arith_family(rng):
    """typed operators and implicit conversions on RUN-TIME operands (function parameters, so nothing is folded): every line of
    output is computed here independently, with C's semantics (truncating division, sign of %, wrap-free ranges)"""
    def tdiv(a, b):
        q = abs(a) // abs(b)
        return q if (a < 0) == (b < 0) else -q
    def tmod(a, b):
        return a - b * tdiv(a, b)
    def q(x):   # multiples of 0.25: exact in binary, printed with %.2f
        return "%.2f" % x
    la, lb = rng.range(-9_000_000_000, 9_000_000_000), rng.choice([3, -7, 11, 1000003, -4294967297])
    da, db = rng.range(-400, 400) / 4.0, rng.choice([0.5, -2.0, 4.0, 0.25])
    ia, ib, sh = rng.range(-100000, 100000), rng.range(-100000, 100000), rng.range(0, 12)
    sa = rng.range(0, 65535)
    fa = rng.range(-64, 64) / 4.0
    li = rng.range(-2_000_000_000, 2_000_000_000)
    dl = rng.range(-4000, 4000) / 4.0
    def b(x): return 1 if x else 0
    exp = []
    exp += [str(tdiv(la, lb)), str(tmod(la, lb)), str(-la), str(la * 3 - lb), str(la + lb)]
    exp += [q(-da), q(da / db), q(da * db), q(da - db)]
    exp += [str(b(la < lb)), str(b(la > lb)), str(b(la <= lb)), str(b(la >= lb)), str(b(la != lb)), str(b(la == la))]
    exp += [str(b(da < db)), str(b(da > db)), str(b(da <= db)), str(b(da >= db)), str(b(da != db))]
    exp += [str(b(fa != fa + 1)), str(b(fa < 0.0)), str(b(ia != ib))]
    m32 = lambda x: ((x + 2**31) % 2**32) - 2**31
    exp += [str(m32(ia & ib)), str(m32(ia | ib)), str(m32(ia ^ ib)), str(m32(sa << sh)), str(ia >> sh), str(~ia), str(b(not (ia == ib)))]
    # conversions: int->long, int->double, long->double, int->float, long->int (in range), double->int (truncation), double->long, double->float
    exp += [str(ia), q(float(sh)), q(float(tmod(li, 4096))), q(float(sh)), str(li), str(int(dl)), str(int(dl)), q(dl)]
    src = """
func div_l(a : long, b : long) -> long { a / b }
func mod_l(a : long, b : long) -> long { a %% b }
func neg_l(a : long) -> long { -a }
func mix_l(a : long, b : long) -> long { a * 3L - b }
func add_l(a : long, b : long) -> long { a + b }
func neg_d(a : double) -> double { -a }
func div_d(a : double, b : double) -> double { a / b }
func mul_d(a : double, b : double) -> double { a * b }
func sub_d(a : double, b : double) -> double { a - b }
func lt_l(a : long, b : long) -> bool { a < b }
func gt_l(a : long, b : long) -> bool { a > b }
func lte_l(a : long, b : long) -> bool { a <= b }
func gte_l(a : long, b : long) -> bool { a >= b }
func neq_l(a : long, b : long) -> bool { a != b }
func eq_l(a : long, b : long) -> bool { a == b }
func lt_d(a : double, b : double) -> bool { a < b }
func gt_d(a : double, b : double) -> bool { a > b }
func lte_d(a : double, b : double) -> bool { a <= b }
func gte_d(a : double, b : double) -> bool { a >= b }
func neq_d(a : double, b : double) -> bool { a != b }
func neq_f(a : float, b : float) -> bool { a != b }
func lt_f(a : float, b : float) -> bool { a < b }
func neq_i(a : int, b : int) -> bool { a != b }
func band(a : int, b : int) -> int { a &&& b }
func bor(a : int, b : int) -> int { a ||| b }
func bxor(a : int, b : int) -> int { a ^^^ b }
func bshl(a : int, b : int) -> int { a <<< b }
func bshr(a : int, b : int) -> int { a >>> b }
func bnot(a : int) -> int { ~~~a }
func lnot(a : bool) -> bool { !a }
func tol(x : long) -> long { x }
func tod(x : double) -> double { x }
func tof(x : float) -> float { x }
func toi(x : int) -> int { x }
func pb(x : bool) -> int { print(x ? 1 : 0) }
func main(n : int) -> int {
    let la = %dL; let lb = %dL; let da = %sd; let db = %sd; let ia = %d; let ib = %d; let sh = %d; let fa = %s; let li = %dL; let dl = %sd;
    printl(div_l(la, lb)); printl(mod_l(la, lb)); printl(neg_l(la)); printl(mix_l(la, lb)); printl(add_l(la, lb));
    printd(neg_d(da)); printd(div_d(da, db)); printd(mul_d(da, db)); printd(sub_d(da, db));
    pb(lt_l(la, lb)); pb(gt_l(la, lb)); pb(lte_l(la, lb)); pb(gte_l(la, lb)); pb(neq_l(la, lb)); pb(eq_l(la, la));
    pb(lt_d(da, db)); pb(gt_d(da, db)); pb(lte_d(da, db)); pb(gte_d(da, db)); pb(neq_d(da, db));
    pb(neq_f(fa, fa + 1.0)); pb(lt_f(fa, 0.0)); pb(neq_i(ia, ib));
    print(band(ia, ib)); print(bor(ia, ib)); print(bxor(ia, ib)); print(bshl(%d, sh)); print(bshr(ia, sh)); print(bnot(ia)); pb(lnot(ia == ib));
    printl(tol(ia)); printd(tod(sh)); printd(tod(li %% 4096L)); printf(tof(sh)); print(toi(li)); print(toi(dl)); printl(tol(dl)); printf(tof(dl));
    0
}
""" % (la, lb, repr(da), repr(db), ia, ib, sh, repr(fa), li, repr(dl), sa)
    return [("arith_typed", src, dict(shape=True, expect_out="".join(e + "\r\n" for e in exp), expect_res="I0"))]

def builtins_family(rng):
    """every non-FFI build-in called through its wrapper (the wrappers are emitted for every program, executed only when called)"""
    a, b = rng.range(2, 60), rng.range(2, 9)
    return [("builtins_all", """
func main(n : int) -> int {
    let s = str(%d) + strf(1.5) + "x";
    let c = chr(ord('a') + %d);
    print(%d); printl(%dL); printb(n == n); printf(2.25); printd(3.5d); printc(c); prints(s);
    assert(length(s) > 0); assertf(1.0, 2.0);
    let p1 = c_int_ptr(n); let p2 = c_long_ptr(7L); let p3 = c_float_ptr(1.0); let p4 = c_double_ptr(2.0d);
    let p5 = c_bool_ptr(true); let p6 = c_char_ptr(c); let p7 = c_string_ptr(s); let p8 = c_ptr_ptr(p1);
    let q = sqrt(16.0) + pow(2.0, 3.0) + sin(0.0) + cos(0.0) + exp(0.0) + log(1.0) + tan(0.0);
    length(s) + ord(c)
}
""" % (a, b, a, a), dict(api=True))]

FAMILIES = [tail_family, deeprec_family, alloc_family, exc_family, idx_family, api_family, shapes_family, builtins_family, arith_family]

def generate(seed, rounds=1):
    rng = Rng(seed)
    progs = []
    for r in range(rounds):
        for fam in FAMILIES:
            for (name, src, meta) in fam(rng.fork()):
                progs.append(("%s_r%d" % (name, r), src, meta))
    return progs
