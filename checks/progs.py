"""Seeded families of Never programs used by the VM-level checks (C01, C03, C04, C13, C14, C15).
Template based: shapes are fixed per family, constants / arities / nesting come from the Rng.
Each program is (name, source, entry args, meta)."""
from common import Rng

def tail_family(rng):
    """self tail calls through ?:, block, match arm, if-let; N = iteration count as first entry argument"""
    out = []
    k = rng.range(1, 4)
    extra = "".join(", p%d : int" % i for i in range(k))
    eargs = "".join(", p%d + %d" % (i, rng.range(0, 3)) for i in range(k))
    init = "".join(", %d" % rng.range(0, 5) for _ in range(k))
    out.append(("tail_cond", """
func loop(n : int, acc : int%s) -> int { n == 0 ? acc : loop(n - 1, acc + %d%s) }
func main(n : int) -> int { loop(n, 0%s) %% 1000003 }
""" % (extra, rng.range(1, 7), eargs, init), dict(tail=True)))
    out.append(("tail_block", """
func loop(n : int, acc : int) -> int {
    let d = n %% %d;
    var t = acc + d;
    if (n == 0) { t } else { t = t + 1; loop(n - 1, t %% 65521) }
}
func main(n : int) -> int { loop(n, %d) }
""" % (rng.range(2, 9), rng.range(0, 9)), dict(tail=True)))
    out.append(("tail_match", """
enum St { Go, Stop }
func st(n : int) -> St { n == 0 ? St::Stop : St::Go }
func loop(n : int, acc : int) -> int {
    match st(n) {
        St::Stop -> acc;
        St::Go -> loop(n - 1, (acc + n * %d) %% 65521);
    }
}
func main(n : int) -> int { loop(n, 1) }
""" % rng.range(1, 9), dict(tail=True)))
    out.append(("tail_iflet", """
enum Opt { Some { v : int; }, None }
func nxt(n : int) -> Opt { n == 0 ? Opt::None : Opt::Some(n - 1) }
func loop(n : int, acc : int) -> int {
    if let (Opt::Some(m) = nxt(n)) { loop(m, (acc + %d) %% 65521) } else { acc }
}
func main(n : int) -> int { loop(n, 0) }
""" % rng.range(1, 9), dict(tail=True)))
    out.append(("tail_noparam_local", """
var cnt = 0;
func spin() -> int {
    let a = cnt + %d;
    cnt = cnt + 1;
    cnt >= 1000 ? a : spin()
}
func main(n : int) -> int { cnt = 1000 - (n > 1000 ? 1000 : n); spin() }
""" % rng.range(1, 5), dict(tail=True, cap=1000)))
    out.append(("tail_noparam_expr", """
var cnt = 0;
func spin() -> int { (cnt = cnt + 1) < 1000000 ? spin() : cnt %% %d }
func main(n : int) -> int { cnt = 1000000 - n; spin() }
""" % rng.range(1000, 9000), dict(tail=True)))
    out.append(("tail_rec_arm", """
enum Cmd { Step { by : int; left : int; }, Done }
func cmd(n : int) -> Cmd { n <= 0 ? Cmd::Done : Cmd::Step(%d, n - 1) }
func loop(c : Cmd, acc : int) -> int {
    match c {
        Cmd::Done -> acc;
        Cmd::Step(by, left) -> loop(cmd(left), (acc + by) %% 65521);
    }
}
func main(n : int) -> int { loop(cmd(n), 0) }
""" % rng.range(1, 9), dict(tail=True)))
    out.append(("tail_paren", """
func loop(n : int, acc : int) -> int { n == 0 ? acc : (loop(n - 1, (acc + %d) %% 65521)) }
func main(n : int) -> int { loop(n, 0) }
""" % rng.range(1, 9), dict(tail=True)))
    out.append(("tail_constcond", """
func loop(n : int, acc : int) -> int { n == 0 ? acc : (false ? 0 : loop(n - 1, (acc + %d) %% 65521)) }
func loop2(n : int, acc : int) -> int { if (n == 0) { acc } else { true ? loop2(n - 1, (acc + 1) %% 65521) : 0 } }
func main(n : int) -> int { loop(n, 0) + loop2(n, 0) }
""" % rng.range(1, 9), dict(tail=True)))
    out.append(("tail_pipe_scalar", """
func loop(n : int, acc : int) -> int { n == 0 ? acc : ((n - 1) |> loop((acc * 31 + n) %% 1009)) }
func main(n : int) -> int { loop(n, %d) }
""" % rng.range(0, 9), dict(tail=True)))
    out.append(("tail_pipe_tuple", """
func loop(n : int, acc : int) -> int { n == 0 ? acc : ((n - 1, (acc * 31 + n) %% 1009) : (int, int) |> loop()) }
func main(n : int) -> int { loop(n, %d) }
""" % rng.range(0, 9), dict(tail=True)))
    out.append(("tail_pipe_tuple_arg", """
func loop(n : int, acc : int, k : int) -> int {
    if (n == 0) { acc } else { let next = (n - 1, (acc * k + n) %% 1009) : (int, int); next |> loop(k) }
}
func main(n : int) -> int { loop(n, 0, %d) }
""" % rng.range(2, 9), dict(tail=True)))
    out.append(("tail_alloc", """
func loop(n : int, s : string, acc : int) -> int { n == 0 ? acc + length(s) : loop(n - 1, "x" + n, acc + length(s) % 7) }
func main(n : int) -> int { loop(n, "", 0) }
""", dict(tail=True, alloc=True)))
    return out

def deeprec_family(rng):
    w = rng.range(1, 8)
    ps = ", ".join("a%d : int" % i for i in range(w))
    call = ", ".join("a%d + 1" % i if i else "a0 - 1" for i in range(w))
    summ = " + ".join("a%d" % i for i in range(w))
    init = ", ".join(["n"] + [str(rng.range(0, 4)) for _ in range(w - 1)])
    return [("deeprec_w%d" % w, """
func rec(%s) -> int { a0 <= 0 ? (%s) : 1 + rec(%s) }
func main(n : int) -> int { rec(%s) %% 100003 }
""" % (ps, summ, call, init), dict(depth=True, width=w)),
    # deep and wide frames that pass EXISTING values on: stack demand grows with the depth, heap demand hardly at all
    ("widerec_w8", """
func wide(%s, h : int, n : int) -> int { n <= 0 ? a0 + h : 1 + wide(%s, h, n - 1) }
func main(n : int) -> int { wide(%s, 4, n) }
""" % (", ".join("a%d : int" % i for i in range(8)), ", ".join("a%d" % max(0, i - 1) for i in range(8)), ", ".join(str(3 + i) for i in range(8))), dict(depth=True, wide=True, width=8)),
    # a shallow recursion whose LEAF grows the stack through every kind of handler that does (tuple unpacked into a piped call,
    # record destructuring in match / if-let, for-in, nested comprehension, a six-argument call, locals): C14 sweeps every stack
    # size from well below the program's peak to just above it, so the limit is met inside each of these handlers in turn
    ("leafy", """
record P { x : int; y : int; z : int; }
enum E { A { a : int; b : int; c : int; d : int; }, B }
func sum5(a : int, b : int, c : int, d : int, e : int, f : int) -> int { a + b + c + d + e + f }
func leaf(k : int) -> int {
    let t = (1, 2, 3, 4, 5) : (int, int, int, int, int);
    let p = P(1, 2, %d);
    let e = E::A(1, 2, 3, %d);
    let arr = [ 1, 2, 3, 4, 5, 6 ] : int;
    var s = 0;
    s = t |> sum5(6);
    s = s + match e { E::A(a, b, c, d) -> a + b + c + d; E::B -> 0; };
    s = s + (if let (E::A(a, b, c, d) = e) { a * b * c * d } else { 0 });
    for (x in arr) { s = s + x };
    let l = [ x * y | x in arr; y in arr; x == y ] : int;
    s = s + l[0] + sum5(p.x, p.y, p.z, k, s %% 3, 1);
    s
}
func down(n : int, k : int) -> int { n > 0 ? down(n - 1, k) + 1 : leaf(k) }
func main(n : int) -> int { down(n > 3 ? 3 : n, 2) }
""" % (rng.range(1, 9), rng.range(1, 9)), dict(depth=True, leaf=True, width=2))]

def alloc_family(rng):
    out = []
    out.append(("alloc_strings", """
func main(n : int) -> int {
    var i = 0; var s = ""; var t = 0;
    while (i < n) { s = "k" + i + "v" + (i * %d); t = (t + length(s)) %% 9973; i = i + 1 };
    t
}
""" % rng.range(2, 99), dict(alloc=True)))
    out.append(("alloc_records", """
record P { x : int; y : int; nxt : P; }
func mk(n : int, tail : P) -> P { n == 0 ? tail : mk(n - 1, P(n, n * %d, tail)) }
func sum(p : P, acc : int) -> int { p == nil ? acc : sum(p.nxt, (acc + p.x + p.y) %% 65521) }
func main(n : int) -> int {
    var i = 0; var t = 0;
    while (i < n) { t = (t + sum(mk(%d, nil), 0)) %% 65521; i = i + 1 };
    t
}
""" % (rng.range(1, 9), rng.range(3, 12)), dict(alloc=True)))
    d1, d2, d3 = rng.range(2, 4), rng.range(2, 4), rng.range(1, 3)
    out.append(("alloc_arrays", """
func fill(var a[D1, D2] : int) -> int {
    var i = 0; var j = 0;
    for (i = 0; i < D1; i = i + 1) { for (j = 0; j < D2; j = j + 1) { a[i, j] = i * 10 + j } };
    0
}
func total(a[D1, D2] : int) -> int {
    var i = 0; var j = 0; var t = 0;
    for (i = 0; i < D1; i = i + 1) { for (j = 0; j < D2; j = j + 1) { t = t + a[i, j] } };
    t
}
func garbage(n : int) -> int { var i = 0; var s = ""; while (i < n) { s = s + "g"; i = i + 1 }; length(s) }
func main(n : int) -> int {
    var m = {[ %d, %d ]} : int;
    var c = {[ %d, %d, %d ]} : int;
    fill(m);
    c[%d, %d, %d] = 7;
    let before = total(m);
    let g = garbage(n);
    let after = total(m);
    before == after ? after + c[%d, %d, %d] + g : 0 - 1
}
""" % (d1, d2, d1, d2, d3, d1 - 1, d2 - 1, d3 - 1, d1 - 1, d2 - 1, d3 - 1), dict(alloc=True, arrays=True)))
    out.append(("alloc_closures", """
func mk(a : int, b : int) -> (int) -> int {
    let func f(x : int) -> int { helper(x) + a + b }
}
func helper(x : int) -> int { var i = 0; var s = ""; while (i < %d) { s = s + "q"; i = i + 1 }; x + length(s) }
func counter() -> () -> int { var c = 0; let func inc() -> int { c = c + 1; c } }
func main(n : int) -> int {
    let c1 = counter(); let c2 = counter();
    var i = 0; var t = 0;
    while (i < n) { t = (t + mk(i, 2)(10) + c1()) %% 65521; i = i + 1 };
    t + c2() * 1000
}
""" % rng.range(5, 40), dict(alloc=True, closures=True)))
    return out

def exc_family(rng):
    out = []
    a, b, c = rng.range(1, 9), rng.range(1, 9), rng.range(1, 9)
    out.append(("exc_args", """
func h(x : int) -> int { x * %d }
func g(a : int, b : int, c : int) -> int { a + b * 10 + c * 100 }
func f1(p : int) -> int { g(10 / p, h(2), 1) } catch (division_by_zero) { p + %d }
func f2(p : int) -> int { g(1, h(10 / p), 3) } catch (division_by_zero) { p + %d }
func f3(p : int) -> int { g(h(1), 2, 10 / p) } catch { 1000 + p }
func thrower(p : int) -> int { 10 / p }
func f4(p : int) -> int { g(1, thrower(p), h(3)) } catch (index_out_of_bounds) { 0 - 5 } catch (division_by_zero) { 7000 + p }
func outer(p : int) -> int { f1(p) + f2(p) + f3(p) + f4(p) }
func main(p : int) -> int { print(outer(0)); print(outer(p)); outer(0) + outer(p) }
""" % (a, b, c), dict(exc=True)))
    out.append(("exc_nested", """
func idx(a[D] : int, i : int) -> int { a[i] }
func lvl3(i : int) -> int { let a = [ 1, 2, 3 ] : int; idx(a, i) * 2 }
func lvl2(i : int) -> int { lvl3(i) + 1 } catch (division_by_zero) { 0 - 2 }
func lvl1(i : int) -> int { lvl2(i) + lvl2(i + 1) } catch (index_out_of_bounds) { 0 - %d }
func second(i : int) -> int { let a = [ 5 ] : int; a[i] } catch (index_out_of_bounds) { let b = [ 6 ] : int; b[i] } catch { %d }
func main(i : int) -> int { print(lvl1(0)); print(lvl1(i)); print(second(i)); lvl1(1) + lvl1(2) + second(0) }
""" % (rng.range(1, 50), rng.range(1, 50)), dict(exc=True)))
    out.append(("exc_unhandled", """
record R { v : int; }
func get(r : R) -> int { r.v }
func main(i : int) -> int { var q = R(%d); if (i > 2) { q = nil } else { q = q }; get(q) }
""" % rng.range(1, 99), dict(exc=True, unhandled=True)))
    kinds = [("div", "10 / (i - i)"), ("arrsize", "let a = [ 1, 2 ] : int; let b = [ 1, 2, 3 ] : int; let c = a + b; c[0]"),
             ("oob", "let a = [ 1, 2 ] : int; a[i + 5]"), ("invalid", "let r = sqrt(0.0 - 1.0 - i); 1"),
             ("overflow", "let r = exp(1000.0 + i); 1"), ("underflow", "let r = exp(0.0 - 1000.0 - i); 1")]
    kn, kb = rng.choice(kinds)
    out.append(("exc_unhandled_" + kn, """
func work(i : int) -> int { %s }
func main(i : int) -> int { print(1); work(i) + 1 }
""" % kb, dict(exc=True, unhandled=True)))
    out.append(("exc_math", """
func m(x : float) -> float { sqrt(x) } catch (invalid_domain) { 0.0 - 1.0 }
func e(x : float) -> float { exp(x) } catch (overflow) { 1.0 } catch (underflow) { 2.0 }
func main(i : int) -> int { let a = m(4.0); let b = m(0.0 - 4.0); let c = e(1000.0); let d = e(0.0 - 1000.0); let f = e(1.0);
  (a == 2.0 ? 1 : 0) + (b == 0.0 - 1.0 ? 10 : 0) + (c == 1.0 ? 100 : 0) + (d == 2.0 ? 1000 : 0) + (f > 2.7 ? 10000 : 0) }
""", dict(exc=True, math=True)))
    # chains: a fault raised INSIDE a clause is offered to the clauses after it (in source order), never to the ones before it
    kinds = [("division_by_zero", "10 / (d - d)"), ("index_out_of_bounds", "a[7 + d]"), ("nil_pointer", "get(nilr(d))")]
    order = list(kinds); rng.shuffle(order)
    k1, k2, k3 = order
    out.append(("exc_chain", """
record R { v : int; }
func get(r : R) -> int { r.v }
func nilr(d : int) -> R { var q = R(d); q = nil; q }
func chain(a[D] : int, d : int, sel : int) -> int
{
    sel == 0 ? %s : (sel == 1 ? %s : (sel == 2 ? %s : d))
}
catch (%s) { prints("c1\\n"); %s }
catch (%s) { prints("c2\\n"); %s }
catch (%s) { prints("c3\\n"); 0 - 3 }
func main(n : int) -> int {
    let a = [ 10, 20, 30 ] : int;
    print(chain(a, 1, 0)); print(chain(a, 1, 1)); print(chain(a, 1, 2)); print(chain(a, 1, 3));
    0
}
""" % (k1[1], k2[1], k3[1], k1[0], k2[1], k2[0], k3[1], k3[0]),
        dict(exc=True, chain=True, shape=True, expect_out="c1\nc2\nc3\n-3\r\nc2\nc3\n-3\r\nc3\n-3\r\n1\r\n", expect_res="I0")))
    # many functions with a clause each: the exception table grows through its capacity steps (the number of entries crosses
    # 2^k - 1); a fault in the LAST emitted function and in the first must still find its own clause
    # T = functions + clauses of the program (main included) swept over a window around the table's capacity steps: the number of
    # table entries is T plus a constant (entry code, built-in library), so some T of the window makes it exactly 2^k - 1 and some
    # exactly 2^k; the last plain function (whose block is the last of the table) faults and its caller's clause must get it
    base = rng.choice([28, 92]) if rng.chance(0.25) else 28
    for T in range(base, base + 8):
        N = 12 if base == 28 else 44
        E = T - (2 * N + 1 + 2)          # main, the wrapper w and its clause
        fs = ["func f%d(d : int) -> int { %d / d }\ncatch (division_by_zero) { %d }" % (i, 100 + i, 1000 + i) for i in range(N)]
        fs += ["func w(d : int) -> int { plain%d(d) + plain0(d) }\ncatch (division_by_zero) { 777 }" % (E - 1)]
        fs += ["func plain%d(d : int) -> int { %d / d }" % (i, 50 + i) for i in range(E)]
        picks = [0, N - 1, N // 2]
        body = "".join("    print(f%d(0)); print(f%d(1));\n" % (i, i) for i in picks) + "    print(w(0)); print(w(1));\n"
        exp = "".join("%d\r\n%d\r\n" % (1000 + i, 100 + i) for i in picks) + "777\r\n%d\r\n" % (50 + E - 1 + 50)
        out.append(("exc_many_handlers_T%d" % T, "func main(n : int) -> int {\n" + body + "    0\n}\n" + "\n".join(fs) + "\n",
                    dict(exc=True, shape=True, handlers=T, expect_out=exp, expect_res="I0")))
    # every math build-in at a regular point and at each kind of irregular one (domain, pole, overflow, underflow): the fault is
    # raised, the result is not used; and floating-point flags left behind by ordinary VM arithmetic (a product that overflows to
    # inf, one that underflows) are NOT blamed on the next build-in.  Only comparisons of libm results are printed.
    CL = "catch (invalid_domain) { 0 - 1 } catch (division_by_zero) { 0 - 2 } catch (overflow) { 0 - 3 } catch (underflow) { 0 - 4 }"
    out.append(("exc_math_all", """
func t(x : float) -> int { x > 0.5 ? 1 : 0 }
func f_sqrt(x : float) -> int { t(sqrt(x)) } """ + CL + """
func f_log(x : float) -> int { t(log(x)) } """ + CL + """
func f_exp(x : float) -> int { t(exp(x)) } """ + CL + """
func f_pow(x : float, y : float) -> int { t(pow(x, y)) } """ + CL + """
func f_sin(x : float) -> int { t(sin(x)) } """ + CL + """
func f_cos(x : float) -> int { t(cos(x)) } """ + CL + """
func f_tan(x : float) -> int { t(tan(x)) } """ + CL + """
func stale(big : float, tiny : float) -> int
{
    let o = big * big;
    let u = tiny * tiny;
    let r = sqrt(16.0);
    let e = exp(1.0);
    let p = pow(2.0, 3.0);
    t(r - 3.0) + t(e - 2.0) * 10 + t(p - 7.0) * 100 + (o > big ? 1000 : 0)
}
catch (overflow) { 0 - 3 } catch (underflow) { 0 - 4 } catch (invalid_domain) { 0 - 1 }
func main(n : int) -> int {
    print(f_sqrt(4.0)); print(f_sqrt(0.0 - 4.0));
    print(f_log(3.0)); print(f_log(0.0 - 1.0)); print(f_log(0.0));
    print(f_exp(0.0)); print(f_exp(1000.0)); print(f_exp(0.0 - 1000.0));
    print(f_pow(2.0, 3.0)); print(f_pow(0.0 - 8.0, 0.5)); print(f_pow(0.0, 0.0 - 1.0)); print(f_pow(10.0, 100.0)); print(f_pow(10.0, 0.0 - 100.0));
    print(f_sin(1.0)); print(f_cos(0.0)); print(f_tan(1.0));
    print(stale(100000000000000000000.0, 0.00000000000000000001));
    0
}
""", dict(exc=True, math=True, shape=True, expect_out="".join("%d\r\n" % v for v in [1, -1, 1, -1, -2, 1, -3, -4, 1, -1, -2, -3, -4, 1, 1, 1, 1111]), expect_res="I0")))
    # failures of foreign calls are faults like any other: a nil record (also nested, before a non-nil one), a nil string, a
    # missing library, a missing symbol each raise ffi_fail, delivered to the clause of the calling function; the callee is not run
    k = rng.range(1, 9)
    out.append(("exc_ffi_fail", """
record In { a : int; }
record Out { i : In; j : In; b : int; }
record Addr { s_addr : int; }
extern "libc.so.6" func abs(o : Out) -> int
extern "libc.so.6" func inet_ntoa(a : Addr) -> string
extern "libc.so.6" func strlen(s : string) -> long
extern "libnosuchlibrary.so" func nolib(x : int) -> int
extern "libc.so.6" func no_such_symbol_anywhere(x : int) -> int
func nested(o : Out) -> int { abs(o) + 100 } catch (ffi_fail) { 0 - 1 }
func flat(a : Addr) -> int { length(inet_ntoa(a)) } catch (ffi_fail) { 0 - 2 }
func str(ss[D] : string) -> int { strlen(ss[0]) == 0L ? 10 : 11 } catch (ffi_fail) { 0 - 3 }
func lib(x : int) -> int { nolib(x) } catch (ffi_fail) { 0 - 4 }
func sym(x : int) -> int { no_such_symbol_anywhere(x) } catch (ffi_fail) { 0 - 5 }
func outer(x : int) -> int { lib(x) * 10 + nolib(x) } catch (ffi_fail) { 0 - 6 }
func main(n : int) -> int {
    var ni = In; ni = nil;
    var na = Addr; na = nil;
    let ss = {[ 2 ]} : string;
    print(nested(Out(In(%d), In(2), 3)));
    print(nested(Out(ni, In(2), 3)));
    print(nested(Out(In(1), ni, 3)));
    print(flat(Addr(16777343))); print(flat(na));
    print(str(ss)); print(lib(1)); print(sym(1)); print(outer(1));
    0
}
""" % k, dict(exc=True, shape=True, ffi=True, expect_out="%d\r\n-1\r\n-1\r\n9\r\n-2\r\n-3\r\n-4\r\n-5\r\n-6\r\n" % (k + 100), expect_res="I0")))
    return out

def idx_family(rng):
    out = []
    out.append(("slices", """
func pick(s[f .. t] : int, i : int) -> int { s[i] } catch (index_out_of_bounds) { 0 - 1 }
func main(n : int) -> int {
    let a = [ 10, 11, 12, 13, 14, 15, 16, 17, 18, 19 ] : int;
    let s = a[%d .. %d];
    let t = s[%d .. %d];
    var i = 0; var acc = 0;
    for (i = 0; i < 6; i = i + 1) { acc = acc * 3 + pick(t, i) + pick(s, i) };
    let str = "abcdefgh";
    prints(str[%d .. %d] + "|" + str[%d .. %d] + "\\n");
    acc
}
""" % (rng.range(0, 4), rng.range(5, 9), rng.range(0, 2), rng.range(2, 4), rng.range(0, 7), rng.range(0, 7), rng.range(0, 7), rng.range(0, 7)), dict(idx=True)))
    return out

def api_family(rng):
    return [("api_globals", """
var total = %d;
func bump(k : int) -> int { total = total + k; total }
func main(k : int) -> int { bump(k) + bump(1) }
""" % rng.range(0, 100), dict(api=True))]

def shapes_family(rng):
    """rarely taken emitter paths; each program prints values whose expected text is computed here, independently"""
    out = []
    a, b = rng.range(2, 9), rng.range(2, 9)
    k = a * 100
    out.append(("shape_stmt_then_func", """
func calc(a : int, b : int) -> int
{
    let k = a * 100;
    print(k);
    func scale(x : int) -> int { x * 2 };
    scale(b) + k
}
func main(n : int) -> int { let r = calc(%d, %d); print(r); r }
""" % (a, b), dict(shape=True, capture=True, expect_out="%d\r\n%d\r\n" % (k, 2 * b + k), expect_res="I%d" % (2 * b + k))))
    x, y = rng.range(2, 9), rng.range(2, 9)
    out.append(("shape_pipe_tuple_local", """
func add(a : int, b : int) -> int { a + b }
func mul(a : int, b : int) -> int { a * b }
func apply(f(int, int) -> int, g(int, int) -> int, t : (int, int)) -> int { t |> f() }
func main(n : int) -> int {
    let t = (%d, %d) : (int, int);
    let f = mul; let g = add;
    print(t |> g()); print(t |> f());
    print(apply(add, mul, t)); print(apply(mul, add, t));
    0
}
""" % (x, y), dict(shape=True, expect_out="%d\r\n%d\r\n%d\r\n%d\r\n" % (x + y, x * y, x + y, x * y), expect_res="I0")))
    lo, hi = rng.range(0, 2), rng.range(3, 5)
    arr = [10, 20, 30, 40, 50, 60]
    up = arr[lo:hi + 1]; down = list(reversed(up))
    kk = rng.range(1, 9)
    out.append(("shape_compr_slices", """
func show(t[D] : int) -> int { var s = 0; for (e in t) { print(e); s = s + e }; s }
func main(n : int) -> int {
    let a = [ 10, 20, 30, 40, 50, 60 ] : int;
    let k = %d;
    let up = [ x + k | x in a[%d .. %d] ] : int;
    let down = [ x + k | x in a[%d .. %d] ] : int;
    let rg = [ i * k | i in [ %d .. %d ] ] : int;
    let rd = [ i * k | i in [ %d .. %d ] ] : int;
    show(up) + show(down) * 2 + show(rg) * 3 + show(rd) * 5
}
""" % (kk, lo, hi, hi, lo, lo, hi, hi, lo),
        dict(shape=True, idx=True, expect_out="".join("%d\r\n" % v for v in [e + kk for e in up] + [e + kk for e in down] + [i * kk for i in range(lo, hi + 1)] + [i * kk for i in range(hi, lo - 1, -1)]),
             expect_res="I%d" % (sum(e + kk for e in up) * 3 + sum(i * kk for i in range(lo, hi + 1)) * 8))))
    n1, n2 = rng.range(1, 9), rng.range(10, 99)
    out.append(("shape_closure_reassign", """
func adder(k : int) -> (int) -> int { let func add(x : int) -> int { x + k } }
func main(n : int) -> int {
    var f = let func (x : int) -> int { 0 };
    f = adder(%d);
    print(f(5));
    f = adder(%d);
    print(f(5));
    f(0)
}
""" % (n1, n2), dict(shape=True, capture=True, expect_out="%d\r\n%d\r\n" % (5 + n1, 5 + n2), expect_res="I%d" % n2)))
    out.append(("shape_not_tail", """
func odd_steps(n : int) -> bool { n == 0 ? false : !odd_steps(n - 1) }
func main(n : int) -> int { print(odd_steps(0) ? 1 : 0); print(odd_steps(1) ? 1 : 0); print(odd_steps(2) ? 1 : 0); print(odd_steps(7) ? 1 : 0); 0 }
""", dict(shape=True, expect_out="0\r\n1\r\n0\r\n1\r\n", expect_res="I0")))
    c1, c2, c3 = rng.range(1, 9), rng.range(1, 9), rng.range(1, 9)
    out.append(("shape_nest3", """
func outer(a : int) -> (int) -> (int) -> int {
    let func mid(b : int) -> (int) -> int {
        let func inner(c : int) -> int { a * 100 + b * 10 + c }
    }
}
func outer2(a : int) -> (int) -> (int) -> int {
    let func mid(b : int) -> (int) -> int {
        let func inner(c : int) -> int { b * 10 + a * 100 + c }
    }
}
func main(n : int) -> int { print(outer(%d)(%d)(%d)); print(outer2(%d)(%d)(%d)); 0 }
""" % (c1, c2, c3, c3, c2, c1), dict(shape=True, capture=True, expect_out="%d\r\n%d\r\n" % (c1 * 100 + c2 * 10 + c3, c3 * 100 + c2 * 10 + c1), expect_res="I0")))
    i0, inc = rng.range(1, 9), rng.range(2, 9)
    out.append(("shape_prefix_capture", """
func counter(i : int, inc : int) -> () -> int {
    var cur = i + 0;
    let func step() -> int { cur = cur + inc; cur + i }
}
func main(n : int) -> int { let c = counter(%d, %d); print(c()); print(c()); c() }
""" % (i0, inc), dict(shape=True, capture=True, expect_out="%d\r\n%d\r\n" % (2 * i0 + inc, 2 * i0 + 2 * inc), expect_res="I%d" % (2 * i0 + 3 * inc))))
    p, q, xx, yy = rng.range(1, 9), rng.range(1, 9), rng.range(1, 9), rng.range(1, 9)
    out.append(("shape_rethrow_env", """
func thrower(p : int, q : int) -> () -> int { let func t() -> int { (p + q) / (p - p) } }
func catcher(x : int, y : int) -> () -> int {
    let func c() -> int { let t = thrower(%d, %d); t() + x } catch (division_by_zero) { x * 1000 + y }
}
func main(n : int) -> int { let c = catcher(%d, %d); print(c()); 0 }
""" % (p, q, xx, yy), dict(shape=True, capture=True, expect_out="%d\r\n" % (xx * 1000 + yy), expect_res="I0")))
    out.append(("shape_match_enum_values", """
enum S { TWO = S::THREE - S::ONE, THREE = 3, ONE = 1 }
enum A { X = Z::K * 2 + 1, Y }
enum Z { K = 21 }
func main(n : int) -> int { print(S::TWO + 0); print(A::X + 0); print(A::Y + 0); 0 }
""", dict(shape=True, expect_out="2\r\n43\r\n44\r\n", expect_res="I0")))
    return out

def _dim_den(extent, lo, hi, validate=False):
    """positions a bound pair lo..hi denotes: lo, lo±1, …, hi.  A slice OF AN ARRAY is created without a test (a position outside
    [0, extent) is refused when an element is read: the caller maps it to -1); a slice OF A SLICE / RANGE validates its bounds
    against the index space at creation (validate=True: None = index_out_of_bounds for the whole slice)."""
    if validate and not (0 <= lo < extent and 0 <= hi < extent):
        return None
    step = 1 if hi >= lo else -1
    return list(range(lo, hi + step, step))

def _el(m, pos, *ix):
    """element of the nested list m at the array positions ix, -1 when any position is outside its extent"""
    for p in ix:
        if not (0 <= p < len(m)):
            return -1
        m = m[p]
    return m

def _bounds(rng, extent):
    """a bound pair for an index space: mostly valid (ascending, descending or equal), sometimes one end outside"""
    r = rng.range(0, 11)
    lo, hi = rng.range(0, extent - 1), rng.range(0, extent - 1)
    if r == 0:
        hi = extent
    elif r == 1:
        lo = -1
    elif r == 2:
        hi = lo
    return lo, hi

def denote_family(rng):
    """ranges and slices of 2 and 3 dimensions whose bounds are VARIABLES (parameters, locals), slices of slices; every element the
    bounds denote, and one position beyond each end, is printed; expected text computed here from the denotation (row-major array,
    lo..hi inclusive, descending when hi < lo, index_out_of_bounds -> -1).  Literal bounds make the emitter take another path
    (nothing on the stack between the dimensions), so the same slices with variable bounds are a separate claim."""
    out = []
    P = lambda v: "%d\r\n" % v
    # --- 2-D slice of an array, bounds passed as parameters / re-bound as locals
    R, C = rng.range(2, 4), rng.range(2, 5)
    k0 = rng.range(1, 7)
    m = [[(r * 10 + c) * k0 + 1 for c in range(C)] for r in range(R)]
    lit = "[ " + ", ".join("[ " + ", ".join(str(v) for v in row) + " ]" for row in m) + " ] : int"
    calls, exp = [], []
    for t in range(4):
        (r0, r1), (c0, c1) = _bounds(rng, R), _bounds(rng, C)
        fn = "at" if t % 2 == 0 else "atl"
        calls.append("    for (i = 0; i <= %d; i = i + 1) { for (j = 0; j <= %d; j = j + 1) { print(%s(m, %d, %d, %d, %d, i, j)) } };" % (R, C, fn, r0, r1, c0, c1))
        dr, dc = _dim_den(R, r0, r1), _dim_den(C, c0, c1)
        for i in range(R + 1):
            for j in range(C + 1):
                exp.append(-1 if i >= len(dr) or j >= len(dc) else _el(m, 0, dr[i], dc[j]))
    out.append(("shape_md_slice2", """
func at(m[R, C] : int, r0 : int, r1 : int, c0 : int, c1 : int, i : int, j : int) -> int
{
    let s = m[r0 .. r1, c0 .. c1];
    s[i, j]
}
catch (index_out_of_bounds) { 0 - 1 }
func atl(m[R, C] : int, r0 : int, r1 : int, c0 : int, c1 : int, i : int, j : int) -> int
{
    let a = r0 + 0; let pad = i * 7; let b = r1 + 0; let c = c0 + 0; let d = c1 + 0;
    let s = m[a .. b, c .. d];
    s[i, j] + pad - i * 7
}
catch (index_out_of_bounds) { 0 - 1 }
func main(n : int) -> int {
    let m = %s;
    var i = 0; var j = 0;
%s
    0
}
""" % (lit, "\n".join(calls)), dict(shape=True, idx=True, expect_out="".join(P(v) for v in exp), expect_res="I0")))
    # --- 3-D slice
    A, B, C3 = rng.range(2, 3), rng.range(2, 3), rng.range(2, 4)
    q = [[[a * 100 + b * 10 + c + 1 for c in range(C3)] for b in range(B)] for a in range(A)]
    lit3 = "[ " + ", ".join("[ " + ", ".join("[ " + ", ".join(str(v) for v in row) + " ]" for row in pl) + " ]" for pl in q) + " ] : int"
    calls, exp = [], []
    for t in range(3):
        (a0, a1), (b0, b1), (c0, c1) = _bounds(rng, A), _bounds(rng, B), _bounds(rng, C3)
        calls.append("    for (h = 0; h <= %d; h = h + 1) { for (i = 0; i <= %d; i = i + 1) { for (j = 0; j <= %d; j = j + 1) { print(at3(q, %d, %d, %d, %d, %d, %d, h, i, j)) } } };"
                     % (A, B, C3, a0, a1, b0, b1, c0, c1))
        da, db, dc = _dim_den(A, a0, a1), _dim_den(B, b0, b1), _dim_den(C3, c0, c1)
        for h in range(A + 1):
            for i in range(B + 1):
                for j in range(C3 + 1):
                    bad = h >= len(da) or i >= len(db) or j >= len(dc)
                    exp.append(-1 if bad else _el(q, 0, da[h], db[i], dc[j]))
    out.append(("shape_md_slice3", """
func at3(m[P, R, C] : int, p0 : int, p1 : int, r0 : int, r1 : int, c0 : int, c1 : int, h : int, i : int, j : int) -> int
{
    let s = m[p0 .. p1, r0 .. r1, c0 .. c1];
    s[h, i, j]
}
catch (index_out_of_bounds) { 0 - 1 }
func main(n : int) -> int {
    let q = %s;
    var h = 0; var i = 0; var j = 0;
%s
    0
}
""" % (lit3, "\n".join(calls)), dict(shape=True, idx=True, expect_out="".join(P(v) for v in exp), expect_res="I0")))
    # --- 2-D and 3-D ranges with variable bounds
    calls, exp = [], []
    def rden(a, b):
        step = 1 if b >= a else -1
        return list(range(a, b + step, step))
    for t in range(3):
        a, b, c, d = rng.range(-3, 9), rng.range(-3, 9), rng.range(10, 19), rng.range(10, 19)
        da, dc = rden(a, b), rden(c, d)
        ni, nj = min(len(da), 3), min(len(dc), 3)
        idx = [(0, 0), (len(da) - 1, len(dc) - 1), (len(da), 0), (0, len(dc)), (ni - 1, nj - 1), (-1, 0)]
        for (i, j) in idx:
            calls.append("    print(rg(%d, %d, %d, %d, %d, %d));" % (a, b, c, d, i, j))
            exp.append(-1 if not (0 <= i < len(da) and 0 <= j < len(dc)) else da[i] * 1000 + dc[j])
    a, b, c, d, e, f = [rng.range(0, 6) for _ in range(6)]
    da, dc, de = rden(a, b), rden(c, d), rden(e, f)
    for (h, i, j) in [(0, 0, 0), (len(da) - 1, len(dc) - 1, len(de) - 1), (0, len(dc), 0), (len(da) - 1, 0, len(de) - 1)]:
        calls.append("    print(rg3(%d, %d, %d, %d, %d, %d, %d, %d, %d));" % (a, b, c, d, e, f, h, i, j))
        exp.append(-1 if not (0 <= h < len(da) and 0 <= i < len(dc) and 0 <= j < len(de)) else da[h] * 10000 + dc[i] * 100 + de[j])
    out.append(("shape_md_range", """
func rg(a : int, b : int, c : int, d : int, i : int, j : int) -> int
{
    let r = [ a .. b, c .. d ];
    let e = r[i, j];
    e[0] * 1000 + e[1]
}
catch (index_out_of_bounds) { 0 - 1 }
func rg3(a : int, b : int, c : int, d : int, e : int, f : int, h : int, i : int, j : int) -> int
{
    let lo = a + 0;
    let r = [ lo .. b, c .. d, e .. f ];
    let x = r[h, i, j];
    x[0] * 10000 + x[1] * 100 + x[2]
}
catch (index_out_of_bounds) { 0 - 1 }
func main(n : int) -> int {
%s
    0
}
""" % "\n".join(calls), dict(shape=True, idx=True, expect_out="".join(P(v) for v in exp), expect_res="I0")))
    # --- ranges chosen by a condition (both branches must be ranges of one dimension count; refused before repo fix b996419)
    a, b, c, d = rng.range(0, 5), rng.range(6, 9), rng.range(10, 15), rng.range(1, 5)
    out.append(("shape_range_cond", """
func pickr(c : bool, i : int) -> int { let r = c ? [ %d .. %d ] : [ %d .. %d ]; r[i][0] }
func pickb(c : bool, i : int) -> int { let r = if (c) { [ %d .. %d, 1 .. 2 ] } else { [ %d .. %d, 3 .. 4 ] }; let e = r[i, 1]; e[0] * 10 + e[1] }
func main(n : int) -> int { print(pickr(true, 1)); print(pickr(false, 2)); print(pickb(true, 0)); print(pickb(false, 1)); 0 }
""" % (a, b, c, d, a, b, c, d), dict(shape=True, idx=True, expect_out=P(a + 1) + P(c - 2) + P(a * 10 + 2) + P((c - 1) * 10 + 4), expect_res="I0")))
    # --- slice of a slice, both with variable bounds
    R, C = rng.range(3, 4), rng.range(3, 5)
    m = [[r * 10 + c + 5 for c in range(C)] for r in range(R)]
    lit = "[ " + ", ".join("[ " + ", ".join(str(v) for v in row) + " ]" for row in m) + " ] : int"
    calls, exp = [], []
    for t in range(4):
        (r0, r1), (c0, c1) = _bounds(rng, R), _bounds(rng, C)
        dr, dc = _dim_den(R, r0, r1), _dim_den(C, c0, c1)
        lr, lc = len(dr), len(dc)
        (a, b), (c, d) = _bounds(rng, lr), _bounds(rng, lc)
        er, ec = _dim_den(lr, a, b, True), _dim_den(lc, c, d, True)
        calls.append("    for (i = 0; i <= %d; i = i + 1) { for (j = 0; j <= %d; j = j + 1) { print(sl2(m, %d, %d, %d, %d, %d, %d, %d, %d, i, j)) } };" % (lr, lc, r0, r1, c0, c1, a, b, c, d))
        for i in range(lr + 1):
            for j in range(lc + 1):
                bad = er is None or ec is None or i >= len(er) or j >= len(ec)
                exp.append(-1 if bad else _el(m, 0, dr[er[i]], dc[ec[j]]))
    out.append(("shape_slice_of_slice2", """
func sl2(m[R, C] : int, r0 : int, r1 : int, c0 : int, c1 : int, a : int, b : int, c : int, d : int, i : int, j : int) -> int
{
    let s = m[r0 .. r1, c0 .. c1];
    let t = s[a .. b, c .. d];
    t[i, j]
}
catch (index_out_of_bounds) { 0 - 1 }
func main(n : int) -> int {
    let m = %s;
    var i = 0; var j = 0;
%s
    0
}
""" % (lit, "\n".join(calls)), dict(shape=True, idx=True, expect_out="".join(P(v) for v in exp), expect_res="I0")))
    # --- string slices (the empty string included), named bounds of 2-dimensional slice and range parameters, comprehensions over
    # one-element and descending slices
    def sslice(t, f, g):
        if not (0 <= f < len(t) and 0 <= g < len(t)):
            return "!"
        step = 1 if g >= f else -1
        return "".join(t[k] for k in range(f, g + step, step))
    word = "".join(chr(97 + rng.below(26)) for _ in range(rng.range(3, 6)))
    cases = [("", 0, 0), ("", 0, 1), ("", 1, 0), (word[:1], 0, 0), (word, len(word) - 1, 0), (word, 0, len(word) - 1), (word, 1, 1), (word, len(word), len(word)), (word, 0, len(word)), (word, 1, 0)]
    text = "".join(sslice(t, f, g) for (t, f, g) in cases)
    m = [[r * 4 + c + 1 for c in range(4)] for r in range(3)]
    (f1, t1, g1, h1), (f2, t2, g2, h2) = (rng.range(0, 1), 2, rng.range(0, 1), 3), (2, rng.range(0, 1), 3, rng.range(0, 2))
    ra, rb, rc, rd = rng.range(1, 9), rng.range(1, 9), rng.range(1, 9), rng.range(1, 9)
    a4 = [rng.range(1, 50) for _ in range(4)]
    lo = rng.range(0, 3)
    exp3 = [abs(t1 - f1) * 100 + abs(h1 - g1), abs(t2 - f2) * 100 + abs(h2 - g2), ra * 1000 + rb * 100 + rc * 10 + rd, a4[lo] + 1, a4[3] + 1, a4[2] + 1, a4[1] + 1]
    out.append(("shape_string_slices_named_bounds", """
func ss(s : string, f : int, t : int) -> string { s[f .. t] } catch (index_out_of_bounds) { "!" }
func sums(s[f .. t, g .. h] : int) -> int { f * 1000 + t * 100 + g * 10 + h }
func rsum([a .. b, c .. d] : range) -> int { a * 1000 + b * 100 + c * 10 + d }
func main(n : int) -> int
{
    prints(%s + "\\n");
    let m = [ [ 1, 2, 3, 4 ], [ 5, 6, 7, 8 ], [ 9, 10, 11, 12 ] ] : int;
    print(sums(m[%d .. %d, %d .. %d])); print(sums(m[%d .. %d, %d .. %d]));
    print(rsum([ %d .. %d, %d .. %d ]));
    let a = [ %d, %d, %d, %d ] : int;
    let one = [ x + 1 | x in a[%d .. %d] ] : int; let dn = [ x + 1 | x in a[3 .. 1] ] : int;
    print(one[0]); print(dn[0]); print(dn[1]); print(dn[2]);
    0
}
""" % (" + ".join('ss("%s", %d, %d)' % c for c in cases), f1, t1, g1, h1, f2, t2, g2, h2, ra, rb, rc, rd, a4[0], a4[1], a4[2], a4[3], lo, lo),
        dict(shape=True, idx=True, expect_out=text + "\n" + "".join(P(v) for v in exp3), expect_res="I0")))
    return out

def effects_family(rng):
    """operators with a LITERAL operand next to an operand that has a side effect: the effect happens (or, on the short-circuit side,
    does not happen) exactly as the evaluation rules say, whatever an optimiser may know about the value"""
    out = []
    P = lambda v: "%d\r\n" % v
    cnt = [0]; exp = []
    def tick():
        cnt[0] += 1; exp.append(cnt[0])
    def side():
        cnt[0] += 10; exp.append(cnt[0])
    x = [rng.range(2, 9) for _ in range(10)]
    tick(); tick(); tick(); tick()            # a b e f  (c, d are short-circuited)
    for _ in range(10): side()
    bits = 0 + 2 * 1 + 4 * 0 + 8 * 1 + 16 * 1 + 32 * 0
    ssum = 0 + 0 + x[2] + x[3] + x[4] + x[5] + 0 + 0 + (x[8] - x[9])
    exp.append(bits); exp.append(ssum)
    out.append(("shape_literal_operand_effects", """
var cnt = 0;
func tick(v : bool) -> bool { cnt = cnt + 1; print(cnt); v }
func side(v : int) -> int { cnt = cnt + 10; print(cnt); v }
func b2i(b : bool) -> int { b ? 1 : 0 }
func main(n : int) -> int {
    let a = tick(true) && false;
    let b = tick(false) || true;
    let c = false && tick(true);
    let d = true || tick(false);
    let e = tick(true) && true;
    let f = tick(false) || false;
    let g = side(%d) * 0;
    let h = 0 * side(%d);
    let i = side(%d) + 0;
    let j = side(%d) - 0;
    let k = side(%d) * 1;
    let l = side(%d) / 1;
    let m = 0 / side(%d);
    let o = side(%d) %% 1;
    let p = side(%d) - side(%d);
    print(b2i(a) + 2 * b2i(b) + 4 * b2i(c) + 8 * b2i(d) + 16 * b2i(e) + 32 * b2i(f));
    print(g + h + i + j + k + l + m + o + p);
    cnt
}
""" % tuple(x), dict(shape=True, expect_out="".join(P(v) for v in exp), expect_res="I%d" % cnt[0])))
    # the name of the enclosing function re-bound inside its own body (local value, nested function) and called in tail position
    a, b, c = rng.range(1, 9), rng.range(1, 9), rng.range(1, 9)
    out.append(("shape_shadow_own_name", """
func g3(a : int, b : int, c : int) -> int { a * 100 + b * 10 + c }
func f(x : int) -> int { let f = g3; f(x, %d, %d) }
func h(x : int) -> int { func h(a : int, b : int) -> int { a * 7 + b }; h(x, %d) }
func k(x : int, y : int, z : int) -> int { let k = let func (a : int) -> int { a + 1 }; k(x + y + z) }
func m(x : int, acc : int) -> int { x == 0 ? acc : { let m = g3; m(x, acc, %d) } }
func w(x : int) -> int { x > 100 ? x : { func w(a : int, b : int) -> int { a + b }; w(x, 1000) } }
func main(n : int) -> int { print(f(%d)); print(h(%d)); print(k(1, 2, %d)); print(m(2, 3)); print(w(%d)); 0 }
""" % (b, c, b, c, a, a, a, a), dict(shape=True, capture=True, expect_out=P(a * 100 + b * 10 + c) + P(a * 7 + b) + P(3 + a + 1) + P(230 + c) + P(a + 1000), expect_res="I0")))
    return out

def capture_family(rng):
    """function values created inside loops: each must see the loop variable (and the body's locals) of ITS iteration, whatever
    else it captures and in whichever order the captured names first occur in its body"""
    out = []
    P = lambda v: "%d\r\n" % v
    k, k2, k3 = rng.range(2, 9), rng.range(2, 9), rng.range(2, 9)
    xs = [rng.range(1, 9) for _ in range(3)]
    ys = [rng.range(1, 9) for _ in range(2)]
    exp = []
    exp += [k * x + 1000 * (i + 1) for i, x in enumerate(xs)]                 # scaled: k, x, tag
    exp += [1000 * (i + 1) - x + k for i, x in enumerate(xs)]                 # order: tag, x, k
    exp += [x * 10 + y + k2 * 100 for x in ys for y in ys]                    # nested loops
    exp += [x * k3 + y for x in xs for y in xs if x < y]                      # comprehension
    exp += [i * k + j for i in range(2, 5) for j in range(i, 5)][:4]          # range loops
    npair = len([1 for x in xs for y in xs if x < y])
    calls = "".join("    print(a[%d]());\n" % i for i in range(3)) + "".join("    print(o[%d]());\n" % i for i in range(3)) + \
            "".join("    print(b[%d]());\n" % i for i in range(4)) + "".join("    print(c[%d]());\n" % i for i in range(npair)) + \
            "".join("    print(r[%d]());\n" % i for i in range(4))
    out.append(("shape_loop_closures", """
func zero() -> int { 0 }
func scaled(k : int, xs[D] : int) -> [_] : () -> int
{
    var fs = [ zero, zero, zero ] : () -> int;
    var i = 0;
    for (x in xs) {
        let tag = 1000 * (i + 1);
        fs[i] = let func () -> int { k * x + tag };
        i = i + 1
    };
    fs
}
func order(k : int, xs[D] : int) -> [_] : () -> int
{
    var fs = [ zero, zero, zero ] : () -> int;
    var i = 0;
    for (x in xs) {
        let tag = 1000 * (i + 1);
        fs[i] = let func () -> int { tag - x + k };
        i = i + 1
    };
    fs
}
func nested(k : int, xs[D] : int, ys[E] : int) -> [_] : () -> int
{
    var fs = [ zero, zero, zero, zero ] : () -> int;
    var i = 0;
    for (x in xs) {
        for (y in ys) {
            let m = x * 10;
            fs[i] = let func () -> int { m + y + k * 100 };
            i = i + 1
        }
    };
    fs
}
func compr(k : int, xs[D] : int) -> [_] : () -> int
{
    [ let func () -> int { x * k + y } | x in xs; y in xs; x < y ] : () -> int
}
func ranged(k : int) -> [_] : () -> int
{
    var fs = [ zero, zero, zero, zero ] : () -> int;
    var n = 0;
    for (i in [ 2 .. 4 ]) {
        for (j in [ i .. 4 ]) {
            if (n < 4) { fs[n] = let func () -> int { i * k + j }; n = n + 1 } else { n = n + 0 }
        }
    };
    fs
}
func main(n : int) -> int {
    let xs = [ %d, %d, %d ] : int;
    let ys = [ %d, %d ] : int;
    let a = scaled(%d, xs);
    let o = order(%d, xs);
    let b = nested(%d, ys, ys);
    let c = compr(%d, xs);
    let r = ranged(%d);
%s    0
}
""" % (xs[0], xs[1], xs[2], ys[0], ys[1], k, k, k2, k3, k, calls), dict(shape=True, capture=True, expect_out="".join(P(v) for v in exp), expect_res="I0")))
    # closures and the machine's environment register: a nil function value called inside a closure whose clause reads a captured variable;
    # captured array-dimension names (after other captures, three dimensions); a same-named function declared LATER in the intermediate
    # function must not be the one an inner function captured
    base1, base2 = rng.range(2, 40), rng.range(41, 90)
    R, C, A, B, D = rng.range(2, 6), rng.range(2, 6), rng.range(2, 4), rng.range(2, 5), rng.range(2, 6)
    kk, zz, sc1, sc2 = rng.range(1, 9), rng.range(1, 9), rng.range(2, 9), rng.range(2, 9)
    exp2 = [1 + 1 + base1, base2 + 1000, 2 + 1 + base1, C, R * 100 + C + kk * 10000, zz * 1000 + A * 100 + B * 10 + D,
            (sc1 + 1) * 10 + (sc1 + 1) + 1000, (sc2 + 1) * 10 + (sc2 + 1) + 1000]
    out.append(("shape_env_register", """
func inc(n : int) -> int { n + 1 }
func make(base : int, slot : int) -> (int) -> int
{
    var table = {[ 2 ]} : (int) -> int;
    func run(n : int) -> int { table[slot](n) + base } catch (nil_pointer) { base + 1000 };
    table[0] = inc;
    run
}
func shape(tab[R, C] : int) -> () -> int { func cols() -> int { C }; cols }
func area(k : int, tab[R, C] : int) -> () -> int { func f() -> int { R * 100 + C + k * 10000 }; f }
func dim3(q[A, B, D] : int, z : int) -> () -> int { func g() -> int { z * 1000 + A * 100 + B * 10 + D }; g }
func outer(scale : int) -> int
{
    func weight() -> int { scale };
    func middle(n : int) -> int
    {
        func pick() -> int { weight() + n };
        let seen = pick();
        func weight() -> int { 1000 };
        seen * 10 + pick() + weight()
    };
    middle(1)
}
func main(n : int) -> int
{
    let good = make(%d, 0); let bad = make(%d, 1);
    print(good(1)); print(bad(1)); print(good(2));
    let t = {[ %d, %d ]} : int; let q = {[ %d, %d, %d ]} : int;
    print(shape(t)()); print(area(%d, t)()); print(dim3(q, %d)());
    print(outer(%d)); print(outer(%d));
    0
}
""" % (base1, base2, R, C, A, B, D, kk, zz, sc1, sc2), dict(shape=True, capture=True, expect_out="".join(P(v) for v in exp2), expect_res="I0")))
    return out

def enumred_family(rng):
    """enumerator values defined through enumerators of OTHER enum types (declared before and after the one that uses them),
    plain, valued and record-carrying, at every position: the value the reducer gives an enumerator (observed as `F::x + 0`) is its
    position value (previous + 1, or the explicit expression), which is also what a variable holding the enumerator computes at
    run time; expectations computed here"""
    out = []
    P = lambda v: "%d\r\n" % v
    n = rng.range(3, 6)
    items, vals, kinds = [], [], []
    cur = -1
    for i in range(n):
        k = rng.weighted([("plain", 3), ("valued", 2), ("rec1", 3), ("rec2", 2)])
        if k == "valued":
            cur = cur + rng.range(2, 30)
            items.append("I%d = %d" % (i, cur))
        else:
            cur += 1
            items.append({"plain": "I%d", "rec1": "I%d { a : int; }", "rec2": "I%d { x : int; y : int; }"}[k] % i)
        vals.append(cur); kinds.append(k)
    def ctor(i):
        return {"plain": "Opt::I%d", "valued": "Opt::I%d", "rec1": "Opt::I%d(7)", "rec2": "Opt::I%d(1, 2)"}[kinds[i]] % i
    ops = [("+", lambda a, b: a + b), ("-", lambda a, b: a - b), ("*", lambda a, b: a * b)]
    fitems, fvals, runtime = [], [], []
    for j in range(n):
        sym, fn = ops[rng.below(3)]; c = rng.range(1, 12)
        if rng.chance(0.5):
            fitems.append("f%d = Opt::I%d %s %d" % (j, j, sym, c)); fvals.append(fn(vals[j], c)); runtime.append(("v%d %s %d" % (j, sym, c), fn(vals[j], c)))
        else:
            fitems.append("f%d = %d %s Opt::I%d" % (j, c, sym, j)); fvals.append(fn(c, vals[j])); runtime.append(("%d %s v%d" % (c, sym, j), fn(c, vals[j])))
    # distinct enumerator values are required inside one enum: drop clashes
    seen, fi2, fv2 = set(), [], []
    for it, v in zip(fitems, fvals):
        if v not in seen:
            seen.add(v); fi2.append(it); fv2.append(v)
    a, b = rng.below(n), rng.below(n)
    g0 = vals[a] * 1000 + fv2[0]
    gitems = ["g0 = Opt::I%d * 1000 + F::%s" % (a, fi2[0].split(" ")[0]), "g1", "g2 = F::%s + Opt::I%d + %d" % (fi2[-1].split(" ")[0], b, 100000)]
    gvals = [g0, g0 + 1, fv2[-1] + vals[b] + 100000]
    decl_vars = "".join("    var v%d = %s;\n" % (i, ctor(i)) for i in range(n))
    prints = "".join("    print(F::%s + 0);\n" % it.split(" ")[0] for it in fi2) + "".join("    print(G::g%d + 0);\n" % i for i in range(3)) + \
             "".join("    print(%s);\n" % e for e, _ in runtime)
    exp = fv2 + gvals + [v for _, v in runtime]
    out.append(("shape_enum_cross_values", """
enum F { %s }
enum Opt { %s }
enum G { %s }
func main(n : int) -> int
{
%s%s    0
}
""" % (", ".join(fi2), ", ".join(items), ", ".join(gitems), decl_vars, prints), dict(shape=True, enumred=True, expect_out="".join(P(v) for v in exp), expect_res="I0")))
    return out

def arith_family(rng):
    """typed operators and implicit conversions on RUN-TIME operands (function parameters, so nothing is folded): every line of
    output is computed here independently, with C's semantics (truncating division, sign of %, wrap-free ranges)"""
    def tdiv(a, b):
        q = abs(a) // abs(b)
        return q if (a < 0) == (b < 0) else -q
    def tmod(a, b):
        return a - b * tdiv(a, b)
    def q(x):   # multiples of 0.25: exact in binary, printed with %.2f
        return "%.2f" % x
    la, lb = rng.range(-9_000_000_000, 9_000_000_000), rng.choice([3, -7, 11, 1000003, -4294967297])
    da, db = rng.range(-400, 400) / 4.0, rng.choice([0.5, -2.0, 4.0, 0.25])
    ia, ib, sh = rng.range(-100000, 100000), rng.range(-100000, 100000), rng.range(0, 12)
    sa = rng.range(0, 65535)
    fa = rng.range(-64, 64) / 4.0
    li = rng.range(-2_000_000_000, 2_000_000_000)
    dl = rng.range(-4000, 4000) / 4.0
    def b(x): return 1 if x else 0
    exp = []
    exp += [str(tdiv(la, lb)), str(tmod(la, lb)), str(-la), str(la * 3 - lb), str(la + lb)]
    exp += [q(-da), q(da / db), q(da * db), q(da - db)]
    exp += [str(b(la < lb)), str(b(la > lb)), str(b(la <= lb)), str(b(la >= lb)), str(b(la != lb)), str(b(la == la))]
    exp += [str(b(da < db)), str(b(da > db)), str(b(da <= db)), str(b(da >= db)), str(b(da != db))]
    exp += [str(b(fa != fa + 1)), str(b(fa < 0.0)), str(b(ia != ib))]
    m32 = lambda x: ((x + 2**31) % 2**32) - 2**31
    exp += [str(m32(ia & ib)), str(m32(ia | ib)), str(m32(ia ^ ib)), str(m32(sa << sh)), str(ia >> sh), str(~ia), str(b(not (ia == ib)))]
    # conversions: int->long, int->double, long->double, int->float, long->int (in range), double->int (truncation), double->long, double->float
    exp += [str(ia), q(float(sh)), q(float(tmod(li, 4096))), q(float(sh)), str(li), str(int(dl)), str(int(dl)), q(dl)]
    src = """
func div_l(a : long, b : long) -> long { a / b }
func mod_l(a : long, b : long) -> long { a %% b }
func neg_l(a : long) -> long { -a }
func mix_l(a : long, b : long) -> long { a * 3L - b }
func add_l(a : long, b : long) -> long { a + b }
func neg_d(a : double) -> double { -a }
func div_d(a : double, b : double) -> double { a / b }
func mul_d(a : double, b : double) -> double { a * b }
func sub_d(a : double, b : double) -> double { a - b }
func lt_l(a : long, b : long) -> bool { a < b }
func gt_l(a : long, b : long) -> bool { a > b }
func lte_l(a : long, b : long) -> bool { a <= b }
func gte_l(a : long, b : long) -> bool { a >= b }
func neq_l(a : long, b : long) -> bool { a != b }
func eq_l(a : long, b : long) -> bool { a == b }
func lt_d(a : double, b : double) -> bool { a < b }
func gt_d(a : double, b : double) -> bool { a > b }
func lte_d(a : double, b : double) -> bool { a <= b }
func gte_d(a : double, b : double) -> bool { a >= b }
func neq_d(a : double, b : double) -> bool { a != b }
func neq_f(a : float, b : float) -> bool { a != b }
func lt_f(a : float, b : float) -> bool { a < b }
func neq_i(a : int, b : int) -> bool { a != b }
func band(a : int, b : int) -> int { a &&& b }
func bor(a : int, b : int) -> int { a ||| b }
func bxor(a : int, b : int) -> int { a ^^^ b }
func bshl(a : int, b : int) -> int { a <<< b }
func bshr(a : int, b : int) -> int { a >>> b }
func bnot(a : int) -> int { ~~~a }
func lnot(a : bool) -> bool { !a }
func tol(x : long) -> long { x }
func tod(x : double) -> double { x }
func tof(x : float) -> float { x }
func toi(x : int) -> int { x }
func pb(x : bool) -> int { print(x ? 1 : 0) }
func main(n : int) -> int {
    let la = %dL; let lb = %dL; let da = %sd; let db = %sd; let ia = %d; let ib = %d; let sh = %d; let fa = %s; let li = %dL; let dl = %sd;
    printl(div_l(la, lb)); printl(mod_l(la, lb)); printl(neg_l(la)); printl(mix_l(la, lb)); printl(add_l(la, lb));
    printd(neg_d(da)); printd(div_d(da, db)); printd(mul_d(da, db)); printd(sub_d(da, db));
    pb(lt_l(la, lb)); pb(gt_l(la, lb)); pb(lte_l(la, lb)); pb(gte_l(la, lb)); pb(neq_l(la, lb)); pb(eq_l(la, la));
    pb(lt_d(da, db)); pb(gt_d(da, db)); pb(lte_d(da, db)); pb(gte_d(da, db)); pb(neq_d(da, db));
    pb(neq_f(fa, fa + 1.0)); pb(lt_f(fa, 0.0)); pb(neq_i(ia, ib));
    print(band(ia, ib)); print(bor(ia, ib)); print(bxor(ia, ib)); print(bshl(%d, sh)); print(bshr(ia, sh)); print(bnot(ia)); pb(lnot(ia == ib));
    printl(tol(ia)); printd(tod(sh)); printd(tod(li %% 4096L)); printf(tof(sh)); print(toi(li)); print(toi(dl)); printl(tol(dl)); printf(tof(dl));
    0
}
""" % (la, lb, repr(da), repr(db), ia, ib, sh, repr(fa), li, repr(dl), sa)
    return [("arith_typed", src, dict(shape=True, expect_out="".join(e + "\r\n" for e in exp), expect_res="I0"))]

def builtins_family(rng):
    """every non-FFI build-in called through its wrapper (the wrappers are emitted for every program, executed only when called)"""
    a, b = rng.range(2, 60), rng.range(2, 9)
    return [("builtins_all", """
func main(n : int) -> int {
    let s = str(%d) + strf(1.5) + "x";
    let c = chr(ord('a') + %d);
    print(%d); printl(%dL); printb(n == n); printf(2.25); printd(3.5d); printc(c); prints(s);
    assert(length(s) > 0); assertf(1.0, 2.0);
    let p1 = c_int_ptr(n); let p2 = c_long_ptr(7L); let p3 = c_float_ptr(1.0); let p4 = c_double_ptr(2.0d);
    let p5 = c_bool_ptr(true); let p6 = c_char_ptr(c); let p7 = c_string_ptr(s); let p8 = c_ptr_ptr(p1);
    let q = sqrt(16.0) + pow(2.0, 3.0) + sin(0.0) + cos(0.0) + exp(0.0) + log(1.0) + tan(0.0);
    length(s) + ord(c)
}
""" % (a, b, a, a), dict(api=True))]

FAMILIES = [tail_family, deeprec_family, alloc_family, exc_family, idx_family, api_family, shapes_family, builtins_family, arith_family, denote_family, effects_family, capture_family, enumred_family]

def generate(seed, rounds=1):
    rng = Rng(seed)
    progs = []
    for r in range(rounds):
        for fam in FAMILIES:
            for (name, src, meta) in fam(rng.fork()):
                progs.append(("%s_r%d" % (name, r), src, meta))
    return progs
