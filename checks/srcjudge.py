"""srcjudge: after a broken correspondence on a whole program, ask the reference evaluator S (Never.Src.eval, the oracle of
C02) whether the implementation's observable behaviour on THAT program is wrong.  A disagreement with S is a concrete
failing input (the program + arguments); agreement or "outside the modelled core" leaves the violation as
`no-failing-input-found`."""
import os, shutil
from common import *
import src_corr, nevast

class Judge:
    def __init__(self):
        self.dir = None
        self.exe = None
    def _ensure(self):
        if self.exe is None:
            self.dir = scratch_dir("judge")
            self.exe = src_corr.build_harness(self.dir)
    def close(self):
        if self.dir:
            shutil.rmtree(self.dir, ignore_errors=True)
    def judge(self, src, args=()):
        """-> (class, detail): class in disagree | agree | unknown"""
        try:
            p = nevast.parse_program(src)
            nevast.prog_sexpr(p); nevast.prog_src(p)
        except (nevast.Unsupported, nevast.ParseError) as e:
            return "unknown", "outside the core of the reference evaluator: %s" % (str(e)[:80],)
        except Exception as e:
            return "unknown", "not parsed: %r" % (e,)
        mains = [fn for fn in p["funcs"] if fn["name"] == "main"]
        if not mains:
            return "unknown", "no main"
        a = []
        try:
            for x in args:
                a.append(("i", int(x)))
        except ValueError:
            return "unknown", "non-integer arguments"
        if len(mains[0]["params"]) != len(a):
            return "unknown", "main takes %d parameters, %d given" % (len(mains[0]["params"]), len(a))
        try:
            self._ensure()
            res = src_corr.run_pairs(self.exe, [("j", p, a)])
        except Exception as e:
            return "unknown", "judge failed: %r" % (e,)
        c, det, i, m = res["j"]
        if c == "disagree":
            return "disagree", "reference evaluator: %s" % det
        if c == "agree":
            return "agree", "the implementation's result, output and exception agree with the reference evaluator"
        return "unknown", "%s %s" % (c, det)
