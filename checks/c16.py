"""C16 — compile, run and dispose release all memory on success and every error path.

proof   : (T) destructor table of front/parser.y regenerated each run -> Props/C16.lean
          (`destructor_table_complete_partial`, `discardable_symbols_released_partial`,
          `rule_actions_consume_rhs`, ...), pinned counterexamples in Props/C16Pinned.lean;
          (X) run-time ledger of gc.c/object.c (`ledger_balanced`, `gc_delete_releases_all`,
          `sweep_frees_exactly_unreachable`) tied by harness/h_gcl.c <-> `nmdrv ledger`.
testing : leak stream (harness/h_leak.c, ASan+LSan + exact malloc/free shim) over valid,
          token-mutated, ill-typed and missing-module sources; API history of DESIGN §7.8.
          (T) ownership table of every `*_delete` / `*_new*` function of front/ and back/ regenerated each run from clang's AST
          (gen/owntab.py -> Gen/OwnTab.lean) against the discipline Model/Own.lean: `owned_fields_released`, `no_double_release`,
          `borrowed_never_released`, `constructors_fill_only_known_fields`, `retag_keeps_ownership_partial`, ...
WHO calls the delete functions (typechecker early returns, teardown order) is not modelled: level "proof" holds for the tables
and the ledger, the property as a whole is partial."""
import json, os, re, shutil, sys, time
from collections import Counter
from concurrent.futures import ThreadPoolExecutor
from common import *
import buildimpl
sys.path.insert(0, os.path.join(VERIF, "gen"))
import parsertab
import owntab
import leak_stream as ls
import ledger_corr

PROP_MODULE = "NeverModel.Props.C16"
PINNED_MODULE = "NeverModel.Props.C16Pinned"
REQUIRED = ["Never.C16.destructor_table_complete_partial", "Never.C16.discardable_symbols_released_partial", "Never.C16.discardable_symbols_released",
            "Never.C16.handed_out_not_released", "Never.C16.no_destructor_on_unowned", "Never.C16.rule_actions_consume_rhs",
            "Never.C16.ledger_balanced", "Never.C16.sweep_frees_exactly_unreachable", "Never.C16.gc_delete_releases_all",
            # ownership table of the *_delete / *_new* functions (gen/owntab.py -> Gen/OwnTab.lean, discipline Model/Own.lean)
            "Never.C16.owned_fields_released", "Never.C16.conditionally_owned_fields_released", "Never.C16.no_double_release",
            "Never.C16.borrowed_never_released", "Never.C16.releases_use_the_deleter_of_the_type", "Never.C16.constructors_fill_only_known_fields",
            "Never.C16.fresh_allocations_go_to_released_fields", "Never.C16.elsewhere_released_there", "Never.C16.retag_keeps_ownership_partial",
            "Never.C16.unguarded_releases_never_null", "Never.C16.own_table_consistent",
            "Never.C16.local_allocations_handed_on", "Never.C16.table_edges_match", "Never.C16.delete_frees_exactly_the_owned_tree", "Never.C16.delete_frees_nothing_twice_and_leaves_nothing"]
# the exception lists of Props/C16.lean (kept in step with it; the Lean side is what is proved)
KNOWN_MISSING = ["param_decl", "except"]
KNOWN_LEAKING = []

# sources with a syntax error placed right after the named nonterminal (bison then discards it)
ROW_TEMPLATES = {
    "param_seq": ["record R { x : int; y : int; ? } func main() -> int { 0 }",
                  "enum E { A { x : int; ? } } func main() -> int { 0 }",
                  "record R { x : int; y : string;"],
    "param_decl": ["func f(a : int ?) -> int { 0 } func main() -> int { 0 }",
                   "func f(let a : int ?", "record R { x : int ? }", "func f(a ?"],
    "except": ["func main() -> int { 1 } catch (division_by_zero) { 0 } ?",
               "func main() -> int { 1 } catch (division_by_zero) { 0 } catch (wrong) { 2 } ?",
               "func main() -> int { 1 } catch (division_by_zero) { 0 }"],
}

def expected_dtor(s):
    return "free" if s["ctype"].replace("*", "").strip() == "char" else s["ctype"].replace("*", "").strip() + "_delete"

def releases(s):
    return s["hasDestructor"] and s["dtorCalls"] == [expected_dtor(s)]

def failing_rows(t):
    return [s for s in t["syms"] if s["ownsHeap"] and not s["handedOut"] and not releases(s)]

def ends_in_string(src):
    """does the scanner reach end of input inside a string literal (flex states of scanner.l)"""
    st, i, n = "I", 0, len(src)
    while i < n:
        c = src[i]
        if st == "I":
            if c == "#":
                while i < n and src[i] != "\n": i += 1
                continue
            if src.startswith("/*", i): st = "C"; i += 2; continue
            if c == '"': st = "S"
        elif st == "C":
            if src.startswith("*/", i): st = "I"; i += 2; continue
        else:
            if c == "\\": i += 2; continue
            if c == "\n": return False      # "unterminated string": the scanner stops there
            if c == '"': st = "I"
        i += 1
    return st == "S"

TOKEN_SITES = ("leak:syntax-error:lex_scan<-yyparse", "leak:syntax-error:string_new<-lex_scan")

def classify_leaks(item, result, kind, sigs, failing_discardable):
    """root leak signatures of one source -> list of finding signatures (refined by context)"""
    out = []
    n_err_rule = result["diag"].count("error in function")
    eof_budget = 1 if ends_in_string(item.get("src", "")) else 0
    tok = 0
    for sig, nbytes, frames, root in sigs:
        if not root:
            continue
        m = re.search(r"<-yyparse\[([A-Za-z_0-9]+)\]$", sig)
        if m and m.group(1) in failing_discardable and kind == "syntax-error":
            out.append("parser-no-destructor:" + m.group(1)); continue
        if sig in TOKEN_SITES:
            # a token value (identifier: strdup in lex_scan; string literal: buffer of string_new)
            if sig.endswith("string_new<-lex_scan") and eof_budget > 0:
                eof_budget -= 1
                out.append("scanner-eof-in-string"); continue
            # the `func: TOK_FUNC TOK_ID error` action drops the look-ahead with `yyclearin` (no destructor
            # runs): at most one token per firing of that rule
            if tok < n_err_rule:
                tok += 1
                out.append("yyclearin-drops-lookahead"); continue
            out.append(sig + ":unexplained"); continue
        out.append(sig)
    return out

def run_items(exe, items, d, jobs, tag):
    """split the stream over `jobs` harness processes (each attributes its own leaks exactly)"""
    if jobs <= 1 or len(items) < 40:
        res, restarts = ls.run_stream(exe, items, d, REPO, tag=tag)
        return res, restarts
    chunks = [items[k::jobs] for k in range(jobs)]
    def one(k):
        return ls.run_stream(exe, chunks[k], d, REPO, tag="%s%d" % (tag, k))
    with ThreadPoolExecutor(max_workers=jobs) as ex:
        parts = list(ex.map(one, range(jobs)))
    res = [None] * len(items)
    for k, (r, _) in enumerate(parts):
        for j, x in enumerate(r):
            res[k + j * jobs] = x
    return res, sum(p[1] for p in parts)

def replay_rows(rep, exe, d, t, rows, rules):
    """syntax error right after each failing nonterminal; returns {symbol: (leaked?, text)}"""
    out = {}
    items, owner = [], []
    for s in rows:
        for src in ROW_TEMPLATES.get(s["name"], []):
            items.append(dict(name="row:" + s["name"], cls="row", src=src, run=False)); owner.append(s["name"])
    if not items:
        return out
    results, _ = ls.run_stream(exe, items, d, REPO, tag="rows")
    kinds = [ls.diag_kind(r["diag"], r["res"]) for r in results]
    bs = ls.block_signatures(exe, results, kinds, rules)
    for it, r, sigs, sym in zip(items, results, bs, owner):
        roots = [x for x in sigs if x[3]]
        mine = [x for x in roots if ("yyparse[%s]" % sym) in x[2]]
        if mine and sym not in out:
            out[sym] = (True, "source: %s\nleaked blocks: %d (%d bytes); root allocated in %s\nLeakSanitizer verdict leak=%s" %
                        (it["src"], len(sigs), sum(x[1] for x in sigs), " <- ".join(mine[0][2]), r["res"].get("leak") if r["res"] else "?"))
        elif sym not in out:
            out.setdefault(sym, (False, "no block allocated for `%s` is left after a syntax error placed right after it (%d sources)" % (sym, len(ROW_TEMPLATES.get(sym, [])))))
    return out

def own_probe():
    """rows of the regenerated ownership table that fail a check of Model/Own.lean (`FAIL theorem | where | what` lines printed by
    checks/own_probe.lean).  Needs Model/Own.lean to compile; returns (fail lines, wild-store lines, raw output)"""
    rc, out = lake_build(["NeverModel.Model.OwnSem"])
    if rc != 0:
        errs = [l for l in out.split("\n") if "error" in l][:10]
        return ["FAIL own_table_consistent | lean/NeverModel/Model/Own.lean does not compile against the regenerated table (a member / tag / function named by the discipline no longer exists?) | " + " ; ".join(errs)], [], out
    with Lock(os.path.join(SCRATCH, "lake.lock")):
        rc, out = run(["lake", "env", "lean", "--run", os.path.join(VERIF, "checks", "own_probe.lean")], cwd=LEAN, timeout=600)
    lines = out.split("\n")
    return [l for l in lines if l.startswith("FAIL ")], [l for l in lines if l.startswith("WILD ")], out

def search_own(exe, d, rules, seed, fails, known_sigs):
    """a table theorem about the delete functions broke: look for a source on which the real compiler/VM leaves a block behind or
    frees twice — the fixed seeds, corpus/leak and every sample as it is (the delete cascade runs on every one of them), then
    type-level mutants"""
    rng = Rng(seed ^ 0x0E16)
    samples = ls.load_samples(REPO)
    items = ls.gen_stream(rng, samples, 200)
    items = [it for it in items if it["cls"] in ("hand", "valid", "type")]
    results, _ = run_items(exe, items, d, 4, "own")
    kinds = [ls.diag_kind(r["diag"], r["res"]) for r in results]
    bs = ls.block_signatures(exe, results, kinds, rules)
    head = "rows of the ownership table that fail:\n" + "\n".join(fails[:12])
    for it, r, k, sigs in zip(items, results, kinds, bs):
        if r["crash"]:
            cs = ls.asan_signature(r["crash"])
            if any(x in cs for x in ("use-after-free", "double-free", "bad-free")) and cs not in known_sigs:
                return "%s\nsource name: %s\n--- source ---\n%s\n--- observed ---\n%s" % (head, it["name"], it["src"], r["crash"][-2000:])
        fs = [f for f in classify_leaks(it, r, k, sigs, []) if f not in known_sigs]
        if fs:
            roots = [x for x in sigs if x[3]]
            return "%s\nsource name: %s\n--- source ---\n%s\n--- observed ---\nleaked blocks: %d (%d bytes) after program_delete/vm_delete\n%s" % (
                head, it["name"], it["src"], len(sigs), sum(x[1] for x in sigs),
                "\n".join("  %s%d bytes  %s" % ("root " if x[3] else "     ", x[1], " <- ".join(x[2])) for x in sigs[:8]))
    return None

def search_new_row(exe, d, t, rules, seed, names):
    """a symbol outside the exception list lost its destructor (or a new one has none): look for a source on
    which the real parser leaks its value — templates, then prefixes of the samples (every symbol on bison's
    stack is discarded at end of input)"""
    rows = [s for s in t["syms"] if s["name"] in names]
    got = replay_rows(None, exe, d, t, rows, rules)
    for n in names:
        if got.get(n, (False,))[0]:
            return "symbol %s\n%s" % (n, got[n][1])
    rng = Rng(seed ^ 0xD7)
    samples = ls.load_samples(REPO)
    items = []
    for k in range(1500):
        f, src = samples[rng.below(len(samples))]
        toks, tail = ls.tokenize(ls.strip_comments_nev(src))
        if len(toks) < 3:
            continue
        cut = rng.range(1, len(toks) - 1)
        items.append(dict(name="prefix:%s:%d" % (f, cut), cls="prefix", src=ls.untokenize(toks[:cut]), run=False))
    results, _ = run_items(exe, items, d, 4, "srch")
    kinds = [ls.diag_kind(r["diag"], r["res"]) for r in results]
    bs = ls.block_signatures(exe, results, kinds, rules)
    for it, r, sigs in zip(items, results, bs):
        for sig, nb, frames, root in sigs:
            if root and any(("yyparse[%s]" % n) in frames for n in names):
                return "symbol without a releasing destructor is discarded and leaks\nsource (%s):\n%s\nroot block allocated in %s" % (it["name"], it["src"], " <- ".join(frames))
    for it, r, sigs in zip(items, results, bs):
        for sig, nb, frames, root in sigs:
            if root and not any(k in sig for k in ("param_list_new<-yyparse[param_seq]",) + TOKEN_SITES):
                return "a leak not seen on the pinned tree\nsource (%s):\n%s\nroot block allocated in %s" % (it["name"], it["src"], " <- ".join(frames))
    return None

P1 = "func main(a : int) -> int { 10 / a }"
P1C = "func main(a : int) -> int { 10 / a } catch (division_by_zero) { 7 }"
P2 = "func main() -> int { 1 }"
PARGV = "func main(argv[argc] : string) -> int { argc }"

def api_histories():
    """compile/execute/delete orders with several programs alive (DESIGN §7 item 8 first)"""
    H = []
    H.append(("msg-buffer-dangling", [("new", 0), ("compile", 0, P1), ("new", 1), ("compile", 1, P2), ("del", 1),
                                      ("prepare", 0, "main", 0), ("vmnew", 0, 5000, 200), ("exec", 0, 0), ("vmdel", 0), ("del", 0)]))
    H.append(("msg-buffer-dangling", [("new", 0), ("compile", 0, P1C), ("new", 1), ("compile", 1, P2), ("del", 1),
                                      ("prepare", 0, "main", 0), ("vmnew", 0, 5000, 200), ("exec", 0, 0), ("vmdel", 0), ("del", 0)]))
    # the same with P2 still alive: no dangling pointer, must be clean
    H.append((None, [("new", 0), ("compile", 0, P1), ("new", 1), ("compile", 1, P2),
                     ("prepare", 0, "main", 0), ("vmnew", 0, 5000, 200), ("exec", 0, 0), ("vmdel", 0), ("del", 0), ("del", 1)]))
    # one program, fault at run time, several executes, vm deleted after the program
    H.append((None, [("new", 0), ("compile", 0, P1), ("prepare", 0, "main", 0), ("vmnew", 0, 5000, 200), ("exec", 0, 0),
                     ("prepare", 0, "main", 5), ("exec", 0, 0), ("del", 0), ("vmdel", 0)]))
    # compile error then reuse of the slot, two VMs on one program
    H.append((None, [("new", 0), ("compile", 0, "func main() -> int { ? }"), ("del", 0), ("new", 0), ("compile", 0, P2),
                     ("prepare", 0, "main"), ("vmnew", 0, 100, 50), ("vmnew", 1, 5000, 200), ("exec", 0, 0), ("exec", 0, 1),
                     ("vmdel", 1), ("vmdel", 0), ("del", 0)]))
    # one machine used for two programs that make foreign calls into the same library, the first program deleted in between:
    # the machine's library cache must not keep pointers into the deleted program (its string table)
    F1 = 'extern "libm.so.6" func sinhf(x : float) -> float\nfunc main() -> int { sinhf(1.0) > 1.0 ? 1 : 0 }'
    F2 = 'extern "libm.so.6" func coshf(x : float) -> float\nextern "libm.so.6" func sinhf(x : float) -> float\nfunc main() -> int { coshf(1.0) + sinhf(0.0) > 1.0 ? 1 : 0 }'
    H.append((None, [("new", 0), ("compile", 0, F1), ("prepare", 0, "main"), ("vmnew", 0, 5000, 200), ("exec", 0, 0), ("del", 0),
                     ("new", 1), ("compile", 1, F2), ("prepare", 1, "main"), ("exec", 1, 0), ("exec", 1, 0), ("del", 1), ("vmdel", 0)]))
    H.append((None, [("new", 0), ("compile", 0, F1), ("new", 1), ("compile", 1, F2), ("prepare", 0, "main"), ("prepare", 1, "main"), ("vmnew", 0, 5000, 200),
                     ("exec", 1, 0), ("exec", 0, 0), ("del", 1), ("exec", 0, 0), ("del", 0), ("vmdel", 0)]))
    # the command-line entry (nev_prepare_argc_argv) with a string-array main: once (must be clean), twice (the first argv object is dropped)
    H.append((None, [("new", 0), ("compile", 0, PARGV), ("prepareargv", 0, "main", 2), ("vmnew", 0, 5000, 200), ("exec", 0, 0), ("vmdel", 0), ("del", 0)]))
    H.append(("prepare-argv-twice", [("new", 0), ("compile", 0, PARGV), ("prepareargv", 0, "main", 2), ("prepareargv", 0, "main", 3), ("vmnew", 0, 5000, 200),
                                     ("exec", 0, 0), ("vmdel", 0), ("del", 0)]))
    # two programs alive, run-time diagnostics (division by zero) of each, on one machine each and on a shared one, interleaved with a
    # compile: every diagnostic must land in the message array of the program that was executing (checked on the `m<slot>=` tokens)
    H.append((None, [("new", 0), ("compile", 0, P1), ("new", 1), ("compile", 1, "func main(a : int) -> int { 100 / a }"), ("prepare", 0, "main", 0), ("prepare", 1, "main", 0),
                     ("vmnew", 0, 5000, 200), ("vmnew", 1, 5000, 200), ("exec", 0, 0), ("exec", 1, 1), ("exec", 0, 0), ("new", 2), ("compile", 2, P2), ("exec", 0, 0), ("exec", 1, 1),
                     ("exec", 1, 0), ("exec", 0, 1), ("exec", 0, 0), ("del", 2), ("exec", 1, 1), ("vmdel", 0), ("vmdel", 1), ("del", 0), ("del", 1)]))
    return H

def message_owner_violations(history, trace):
    """from the `m<slot>=c0,c1,c2,c3` tokens h_leak writes after every compile / exec: only the compiled / executed program's count may change"""
    bad = []
    prev = None
    for tok in trace.split():
        m = re.match(r"m(\d+)=([-\d,]+)$", tok)
        if not m:
            continue
        slot = int(m.group(1)); cur = [int(x) for x in m.group(2).split(",")]
        if prev is not None:
            for q, (x, y) in enumerate(zip(prev, cur)):
                if q != slot and x != y and x >= 0 and y >= 0:
                    bad.append("a step on program %d changed the message count of program %d (%d -> %d)" % (slot, q, x, y))
        prev = cur
    return bad

def check(tier, seed):
    rep = Report("C16", tier, seed, "proof")
    cov = rep.cov
    # ---------------------------------------------------------------- (T) translator
    t0 = time.time()
    with Lock(os.path.join(SCRATCH, "lake.lock")):      # no `lake build` reads the table while it is rewritten
        t = parsertab.generate()
    rules = t["rules"]
    fail = failing_rows(t)
    cov["parser_table"] = dict(symbols=len(t["syms"]), rules=len(rules), states=t.get("states"), pure_default_reduction_states=t.get("pure_states"),
                               owning=sum(1 for s in t["syms"] if s["ownsHeap"]), with_destructor=sum(1 for s in t["syms"] if s["hasDestructor"]),
                               not_discardable=sum(1 for s in t["syms"] if not s["discardable"]), error_rules=sum(1 for r in rules if r["isError"]),
                               failing_rows=[s["name"] for s in fail], translator_s=round(time.time() - t0, 2))
    if t["problems"]:
        rep.violation("translator_broken_tie", "gen/parsertab.py cannot classify part of front/parser.y / scanner.l / types.h; the table theorems do not speak about the current tree:\n" + "\n".join(t["problems"]), False)
    # ownership table of the delete functions / constructors (clang AST of every translation unit)
    t0 = time.time()
    ot = None
    try:
        with Lock(os.path.join(SCRATCH, "lake.lock")):
            ot = owntab.generate()
    except Exception as e:
        rep.violation("own_translator_broken_tie", "gen/owntab.py failed on the current tree; the theorems about the delete functions (owned_fields_released, no_double_release, ...) do not speak about it:\n%s" % (str(e)[:2000],), False)
    if ot is not None:
        cov["own_table"] = dict(delete_functions=len(ot["dels"]), pointer_members=len(ot["fields"]), constructors=len(ot["ctors"]),
                                retag_shapes=len(ot["retags"]), retag_sites=sum(r["count"] for r in ot["retags"]), late_store_rows=len(ot["late"]),
                                builders=len(ot["builders"]), inlined_helpers=ot["helpers"], foreign_deleters=ot["foreign"], raw_constructors=ot["raw_ctors"],
                                stores_through_unset_member=["%s: %s" % w for w in ot["wild"]], local_allocations_tracked=len(ot["locals"]),
                                local_allocations_lost=["%s: %s = %s() lost on %s" % (r["fn"], r["var"], r["alloc"], ",".join(r["lost"])) for r in ot["locals"] if r["lost"]], translation_units=ot["files"], problems=ot["problems"],
                                translator_s=round(time.time() - t0, 2))
        if ot["problems"]:
            rep.violation("own_translator_broken_tie", "gen/owntab.py cannot classify part of the delete functions / constructors of front/ and back/ (theorem own_table_consistent fails; owned_fields_released, no_double_release, retag_keeps_ownership_partial do not speak about the current tree):\n" + "\n".join(ot["problems"]), False)
        for fn, path in ot["wild"]:
            rep.finding("ctor-stores-through-unset-member:" + fn, "%s stores through `%s`, a pointer member of the node it has just malloc'ed and never set (write through an uninitialised pointer if the function is ever called)" % (fn, path))
    d = scratch_dir("c16")
    try:
        exe = ls.build(d)
        # ------------------------------------------------------------ proofs
        new_rows = [s["name"] for s in fail if s["name"] not in KNOWN_MISSING] + \
                   [s["name"] for s in fail if s["discardable"] and s["name"] not in KNOWN_LEAKING and s["name"] in KNOWN_MISSING]
        def search():
            # which table broke?  the ownership table of the delete functions is diagnosed by Lean itself (checks/own_probe.lean)
            fails, _, _ = own_probe()
            cov["own_table_failing_rows"] = fails[:40]
            if fails:
                known = set(k["signature"] for k in rep.kf.get("known", []) if k["property"] == "C16")
                found = search_own(exe, d, rules, seed, fails, known)
                if found:
                    return found
                if not new_rows:
                    return None
            names = new_rows or [s["name"] for s in t["syms"] if s["ownsHeap"] and not s["isToken"]]
            return search_new_row(exe, d, t, rules, seed, names)
        ok = proof_stage(rep, PROP_MODULE, search=search, required=REQUIRED)
        # pinned-tree counterexamples: separate module; "no longer true" after a repair is not an alarm
        rc, out = lake_build([PINNED_MODULE])
        pthms = list_theorems(PINNED_MODULE)
        if rc == 0:
            rc2, out2, axs, missing = audit_axioms(PINNED_MODULE, pthms)
            bad = {k: v for k, v in axs.items() if set(v) - ALLOWED_AXIOMS}
            cov["pinned_counterexamples"] = dict(theorems=pthms, axioms=axs, status="hold")
            if bad or missing or forbidden_scan([PINNED_MODULE]):
                rep.violation("pinned_audit", "audit of %s failed: %s %s" % (PINNED_MODULE, bad, missing), False)
            cov["obligations"] = cov.get("obligations", 0) + len(pthms)
            cov["discharged"] = cov.get("discharged", 0) + len(pthms) - len(bad) - len(missing)
        else:
            repaired = set(s["name"] for s in fail) < set(KNOWN_MISSING) or not fail or (ot is not None and not ot["wild"])
            cov["pinned_counterexamples"] = dict(theorems=pthms, status="no longer hold" + (" (parser.y repaired: failing rows now %s)" % [s["name"] for s in fail] if repaired else ""))
            if repaired and ok:
                print("note: %s no longer builds because the tree was repaired (destructor rows failing now: %s; constructors storing through an unset member: %s); not a violation" % (PINNED_MODULE, [s["name"] for s in fail], ot["wild"] if ot else "?"))
            elif ok:
                rep.violation("pinned_broken", "%s does not build although the failing rows are %s:\n%s" % (PINNED_MODULE, [s["name"] for s in fail], out[-1500:]), False)
        # ------------------------------------------------------------ failing rows replayed on I
        rows = replay_rows(rep, exe, d, t, fail, rules)
        cov["row_replay"] = {}
        for s in fail:
            leaked, text = rows.get(s["name"], (False, "no template for this symbol"))
            cov["row_replay"][s["name"]] = dict(discardable=s["discardable"], leak_observed=leaked)
            if leaked:
                rep.finding("parser-no-destructor:" + s["name"], "front/parser.y: `%s` (<%s>, %s) has no %%destructor; bison discards it on a syntax error and its value leaks\n%s" % (s["name"], s["tag"], s["ctype"], text))
            elif s["discardable"] and s["name"] in ROW_TEMPLATES:
                print("note: %s has no destructor and is discardable, but no leak was observed on its templates" % s["name"])
        # ------------------------------------------------------------ (X) ledger
        led = ledger_corr.run_correspondence(rep, tier, seed)
        cov["ledger"] = {k: v for k, v in led.items() if k != "samples"}
        # ------------------------------------------------------------ leak stream (testing)
        n = 1200 if tier == "quick" else 16000
        jobs = 4 if tier == "quick" else 6
        rng = Rng(seed)
        samples = ls.load_samples(REPO)
        items = ls.gen_stream(rng, samples, n)
        t1 = time.time()
        results, restarts = run_items(exe, items, d, jobs, "st")
        kinds = [ls.diag_kind(r["diag"], r["res"]) for r in results]
        bs = ls.block_signatures(exe, results, kinds, rules)
        failing_disc = [s["name"] for s in fail if s["discardable"]]
        dist, leaky, found, other_crash, lsan_flag = Counter(), Counter(), {}, Counter(), 0
        ran = stopped = exits = 0
        for it, r, k, sigs in zip(items, results, kinds, bs):
            dist["%s/%s" % (it["cls"], k)] += 1
            if r["res"] and r["res"].get("leak"): lsan_flag += 1
            if r["res"] and r["res"].get("exec", -1) >= 0: ran += 1
            if r["res"] and r["res"].get("steps", 0) > 200000: stopped += 1
            if r["exited"]: exits += 1
            if r["res"] and r["res"].get("leaked", 0) < 0:
                rep.violation("stream_table_overflow", "h_leak's block table overflowed on:\n" + it["src"], False)
            if r["crash"]:
                cs = ls.asan_signature(r["crash"])
                if any(x in cs for x in ("use-after-free", "double-free", "bad-free", "alloc-dealloc-mismatch")):
                    found.setdefault(cs, []).append((it, r["crash"][-2500:]))
                else:
                    other_crash[cs] += 1     # another property's business (C01/C05/C14); the stream goes on
            fs = classify_leaks(it, r, k, sigs, failing_disc)
            if fs:
                leaky[k] += 1
            for f in fs:
                found.setdefault(f, []).append((it, "leaked blocks: %d (%d bytes)\n%s" % (len(sigs), sum(x[1] for x in sigs),
                                                "\n".join("  %s%d bytes  %s" % ("root " if x[3] else "     ", x[1], " <- ".join(x[2])) for x in sigs[:12]))))
        known_sigs = set(k["signature"] for k in rep.kf.get("known", []) if k["property"] == "C16")
        unknown = [sg for sg in sorted(found, key=lambda x: (-len(found[x]), x)) if sg not in known_sigs]
        for sig in sorted(found):
            if sig in unknown[5:]:
                continue      # at most five new signatures become violations; the rest are listed with the first
            it, text = found[sig][0]
            more = ("\n--- %d further new signatures in this run ---\n%s" % (len(unknown) - 5, "\n".join("%s (%d sources)" % (u, len(found[u])) for u in unknown[5:]))) if (unknown[5:] and sig == unknown[0]) else ""
            rep.finding(sig, "%d source(s) of the stream; first: %s\n--- source ---\n%s\n--- observed ---\n%s%s" % (len(found[sig]), it["name"], it["src"], text, more))
        cov["leak_stream"] = dict(sources=len(items), wall_s=round(time.time() - t1, 1), harness_restarts=restarts, distribution=dict(dist),
                                  executed=ran, stopped_by_step_limit=stopped, ended_by_exit=exits, sources_with_leak=dict(leaky),
                                  lsan_flagged_checks=lsan_flag, signatures={k: len(v) for k, v in found.items()},
                                  other_property_crashes=dict(other_crash), label="testing")
        # ------------------------------------------------------------ API histories
        H = api_histories()
        hitems = [dict(name="hist%d" % i, cls="history", history=h, src="\n".join(" ".join(repr(x) if isinstance(x, str) and " " in x else str(x) for x in st) for st in h)) for i, (exp, h) in enumerate(H)]
        hres, _ = ls.run_stream(exe, hitems, d, REPO, tag="hist")
        hk = ["history"] * len(hitems)
        hbs = ls.block_signatures(exe, hres, hk, rules)
        cov["api_histories"] = []
        for (exp, h), it, r, sigs in zip(H, hitems, hres, hbs):
            entry = dict(steps=len(h), crash=None, leaked=len(sigs))
            if r["crash"]:
                cs = ls.asan_signature(r["crash"])
                entry["crash"] = cs
                if cs == "asan:heap-use-after-free:print_msg" and exp == "msg-buffer-dangling":
                    rep.finding("msg-buffer-dangling", "utils.c keeps pointers into the last compiled program's message buffer; after program_delete of that program a run-time diagnostic of another program writes through them\n--- history ---\n%s\n--- observed ---\n%s" % (it["src"], r["crash"][-2500:]))
                else:
                    rep.finding(cs + ":history", "--- history ---\n%s\n--- observed ---\n%s" % (it["src"], r["crash"][-2500:]))
            for msg in message_owner_violations(h, (r.get("res") or {}).get("trace", ""))[:2]:
                rep.violation("c16_msg_owner_%s" % it["name"], "# diagnostics went to another program's message array: %s\n--- history ---\n%s\n--- trace ---\n%s" % (msg, it["src"], (r.get("res") or {}).get("trace", "")), True)
            for sig, nb, frames, root in sigs:
                if root:
                    rep.finding(sig, "--- history ---\n%s\nroot block allocated in %s" % (it["src"], " <- ".join(frames)))
            cov["api_histories"].append(entry)
    finally:
        shutil.rmtree(d, ignore_errors=True)
    cov.update(trusted_base=["Lean 4.33 kernel", "axioms: propext, Classical.choice, Quot.sound",
                             "gen/parsertab.py (regular-text extraction of %destructor lists, action `$n` uses, scanner stores) + bison's XML report + bison's default-reduction semantics",
                             "harness h_gcl.c / h_leak.c + their malloc/free shims (-Wl,--wrap), gc_corr's history generator", "gcc, ASan/LSan/UBSan runtimes, addr2line"],
               evaluations=led["total_ops"] + len(items) + len(H) + sum(len(v) for v in ROW_TEMPLATES.values()),
               distinct_nontrivial=led["distinct"] + len(set(it["src"] for it in items)),
               rule="ledger: seeded gc histories (alloc 13 kinds/store/append/collect/omfalos/run, heaps 2..64 and 5000) closed by gc_delete, distinct by op list; stream: seeded sources = samples as-is / one token-level mutation / one type-level mutation / a `use` of a missing module, distinct by text",
               samples=[led["samples"][0] if led["samples"] else None] + [it["name"] for it in items[-3:]])
    rep.assumptions = ["level proof = destructor table (translator tie) + gc/object ledger (correspondence tie); the AST *_delete cascade, typechecker early returns, program/module/vm/dlcache teardown are observed only by the leak stream (testing)",
                       "a symbol is 'not discardable' by bison's default-reduction semantics (trusted)",
                       "blocks allocated inside libc/libffi/dlopen on behalf of a program are not counted by the shim (LSan still sees them)"]
    return rep.finish()

def replay(path):
    """a replay file is (a) an h_gcl op list, or (b) text with a `--- source ---` section"""
    txt = open(path).read()
    if "--- source ---" in txt or "source (" in txt or txt.startswith("signature:"):
        m = re.search(r"--- source ---\n(.*?)\n--- observed ---", txt, flags=re.S) or re.search(r"source \([^\n]*\):\n(.*?)\nroot block", txt, flags=re.S) or re.search(r"^source: ([^\n]*)$", txt, flags=re.M)
        if not m:
            print(txt); return 1
        src = m.group(1)
        d = scratch_dir("c16replay")
        try:
            exe = ls.build(d)
            t = parsertab.extract()
            items = [dict(name="replay", cls="replay", src=src, run=ls.runnable(src))]
            res, _ = ls.run_stream(exe, items, d, REPO, tag="rp")
            kinds = [ls.diag_kind(r["diag"], r["res"]) for r in res]
            bs = ls.block_signatures(exe, res, kinds, t["rules"])
            print("result:", res[0]["res"], "crash:", ls.asan_signature(res[0]["crash"]) if res[0]["crash"] else None)
            for x in bs[0]:
                print("  %s %d bytes %s" % ("root" if x[3] else "    ", x[1], " <- ".join(x[2])))
            return 1 if (bs[0] or res[0]["crash"]) else 0
        finally:
            shutil.rmtree(d, ignore_errors=True)
    if re.search(r"^new \d+", txt, flags=re.M):
        return ledger_corr.replay_ops(path)
    print(txt)
    return 1
