"""C09 — the collector reclaims all garbage and keeps heap bookkeeping consistent."""
from common import *
import gc_corr

PROP_MODULE = "NeverModel.Props.C09"

def check(tier, seed):
    rep = Report("C09", tier, seed, "proof")
    ok = proof_stage(rep, PROP_MODULE, required=["Never.C09.inv_history", "Never.C09.collect_exact", "Never.C09.free_inv_basics", "Never.C09.vm_step_keeps_bookkeeping", "Never.C09.vm_heap_bookkeeping_invariant", "Never.C09.vm_reads_hit_allocated", "Never.C09.vm_touch_allocated_partial"])
    res = gc_corr.run_correspondence(rep, tier, seed)
    # the collector as the VM uses it: an allocation-heavy program with bounded live data at EVERY heap size of a window, in lockstep
    # on the Lean VM over M-Heap (same free-list order => same cell numbers): the heap runs out / the 80 %% trigger fires at every
    # allocation in turn; a cell handed out while in use, a collection where there is no safe point, a lost cell all show as a
    # diverging trace or a sanitizer report.  (C04 and C14 run the same sweep for their own observables.)
    import vm_corr, vm_checks, progs
    h = vm_corr.VmHarness()
    vstats = {}
    try:
        fam = [p for p in progs.generate(seed, 1) if p[2].get("alloc") and p[0].startswith(("alloc_records", "alloc_strings", "alloc_arrays"))]
        jobs = [dict(name="%s_m%d" % (n, m), src=src, args=["9"], gc=0, mem=m, stack=200) for (n, src, meta) in fam[: (2 if tier == "quick" else 3)]
                for m in range(24, 120 if tier == "quick" else 400)]
        def on_result(j, r, st, det, io):
            k = io["kind"]
            if k.startswith(("sanitizer", "signal", "assert", "crash")):
                return False        # reported by the sweep as a divergence / crash with its trace
            return False
        vm_checks.sweep(h, rep, jobs, "c09_vm", vstats, on_result)
    finally:
        h.close()
    res["stats"]["vm_level_heap_sweep"] = {k: v for k, v in vstats.items() if not k.startswith("_")}
    rep.cov.update(trusted_base=["Lean 4.33 kernel", "axioms: propext, Classical.choice, Quot.sound",
                                 "correspondence harness h_gc.c + gc_corr.py (generator, state printer)",
                                 "gcc/ASan/UBSan runtime", "malloc/free"],
                   evaluations=res["total_ops"], distinct_nontrivial=res["distinct"],
                   rule="seeded histories of alloc(13 kinds)/store(7 kinds)/collect/omfalos generated against I's live state; heaps 2..64 and 5000; a history is distinct by its op list and non-trivial when it has > 4 ops",
                   samples=res["samples"], correspondence=res["stats"])
    rep.assumptions = ["M-Heap is a hand model of gc.c tied by correspondence on the explored histories",
                       "malloc/free behave; object payload teardown modelled only as a ledger"]
    return rep.finish()

def replay(path):
    import buildimpl, os
    info = buildimpl.build("asan")
    d = scratch_dir("gcreplay")
    exe = buildimpl.link_harness(info, os.path.join(VERIF, "harness", "h_gc.c"), os.path.join(d, "h_gc"), ["-Wl,--wrap=exit"])
    ops = [l.strip() for l in open(path) if l.strip() and not l.startswith("#")]
    a, err = gc_corr.run_impl(exe, ops); b = gc_corr.run_model(ops)
    dv = gc_corr.first_divergence(a, b)
    sf = gc_corr.s_check_ops(exe, ops)
    print("S-level:", sf); print("divergence:", dv)
    gc_corr.shutil_rm(d)
    return 1 if (dv or sf) else 0
