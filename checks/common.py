"""Shared machinery: PRNG, Lean build/audit, evidence, violation reporting, known findings."""
import fcntl, json, os, re, subprocess, sys, time, hashlib

VERIF = os.path.dirname(os.path.dirname(os.path.abspath(__file__)))
LEAN = os.path.join(VERIF, "lean")
REPO = os.environ.get("NEVER_REPO", "/repo")
NMDRV = os.path.join(LEAN, ".lake", "build", "bin", "nmdrv")
SCRATCH = os.environ.get("NEVER_VERIF_SCRATCH", "/var/tmp/never-verif-scratch")
ALLOWED_AXIOMS = {"propext", "Classical.choice", "Quot.sound"}
FORBIDDEN = re.compile(r"\bsorry\b|\badmit\b|^\s*axiom\s|native_decide|bv_decide|implemented_by|\bunsafe\s|maxHeartbeats\s+0")

class Rng:
    """splitmix64; every random choice of a check derives from VERIF_SEED"""
    def __init__(self, seed):
        self.s = seed & 0xFFFFFFFFFFFFFFFF
    def next(self):
        self.s = (self.s + 0x9E3779B97F4A7C15) & 0xFFFFFFFFFFFFFFFF
        z = self.s
        z = ((z ^ (z >> 30)) * 0xBF58476D1CE4E5B9) & 0xFFFFFFFFFFFFFFFF
        z = ((z ^ (z >> 27)) * 0x94D049BB133111EB) & 0xFFFFFFFFFFFFFFFF
        return z ^ (z >> 31)
    def below(self, n):
        return self.next() % n if n > 0 else 0
    def range(self, a, b):
        return a + self.below(b - a + 1)
    def choice(self, xs):
        return xs[self.below(len(xs))]
    def chance(self, p):
        return (self.next() >> 11) / float(1 << 53) < p
    def weighted(self, pairs):
        tot = sum(w for _, w in pairs)
        r = self.below(tot)
        for x, w in pairs:
            if r < w:
                return x
            r -= w
        return pairs[-1][0]
    def shuffle(self, xs):
        for i in range(len(xs) - 1, 0, -1):
            j = self.below(i + 1)
            xs[i], xs[j] = xs[j], xs[i]
    def fork(self):
        return Rng(self.next())

def seed_from_env():
    try:
        return int(os.environ.get("VERIF_SEED", "1"))
    except ValueError:
        return 1

def scratch_dir(name):
    d = os.path.join(SCRATCH, "%s-%d" % (name, os.getpid()))
    os.makedirs(d, exist_ok=True)
    return d

class Lock:
    def __init__(self, path):
        self.path = path
    def __enter__(self):
        os.makedirs(os.path.dirname(self.path), exist_ok=True)
        self.f = open(self.path, "w")
        fcntl.flock(self.f, fcntl.LOCK_EX)
        return self
    def __exit__(self, *a):
        fcntl.flock(self.f, fcntl.LOCK_UN)
        self.f.close()

def run(cmd, cwd=None, timeout=None, input=None, env=None):
    e = dict(os.environ)
    if env:
        e.update(env)
    r = subprocess.run(cmd, cwd=cwd, stdout=subprocess.PIPE, stderr=subprocess.STDOUT, text=True,
                       timeout=timeout, input=input, env=e)
    return r.returncode, r.stdout

# ---------------------------------------------------------------- Lean side

def strip_comments(src):
    # remove /- ... -/ (nested) and -- line comments, keep string literals intact enough for a grep
    out, i, depth, n = [], 0, 0, len(src)
    while i < n:
        if src.startswith("/-", i):
            depth += 1; i += 2; continue
        if depth and src.startswith("-/", i):
            depth -= 1; i += 2; continue
        if depth:
            if src[i] == "\n":
                out.append("\n")
            i += 1; continue
        if src.startswith("--", i):
            while i < n and src[i] != "\n":
                i += 1
            continue
        out.append(src[i]); i += 1
    return "".join(out)

def lean_module_files(modules):
    """transitive closure of NeverModel.* imports of the given modules -> file paths"""
    seen, todo = {}, list(modules)
    while todo:
        m = todo.pop()
        if m in seen or not m.startswith("NeverModel"):
            continue
        p = os.path.join(LEAN, m.replace(".", "/") + ".lean")
        if not os.path.exists(p):
            continue
        seen[m] = p
        for line in open(p):
            mm = re.match(r"\s*import\s+(\S+)", line)
            if mm:
                todo.append(mm.group(1))
    return seen

def forbidden_scan(modules):
    hits = []
    for m, p in sorted(lean_module_files(modules).items()):
        src = strip_comments(open(p).read())
        for ln, line in enumerate(src.split("\n"), 1):
            if FORBIDDEN.search(line):
                hits.append("%s:%d: %s" % (p, ln, line.strip()))
    return hits

def lake_build(targets, timeout=3000):
    with Lock(os.path.join(SCRATCH, "lake.lock")):
        rc, out = run(["lake", "build"] + list(targets), cwd=LEAN, timeout=timeout)
    return rc, out

def audit_axioms(module, theorems):
    """#print axioms for each theorem; returns {thm: [axioms]} ; raises on failure"""
    d = scratch_dir("audit")
    f = os.path.join(d, "Audit_%s.lean" % module.replace(".", "_"))
    with open(f, "w") as fh:
        fh.write("import %s\n" % module)
        for t in theorems:
            fh.write("#print axioms %s\n" % t)
    with Lock(os.path.join(SCRATCH, "lake.lock")):
        rc, out = run(["lake", "env", "lean", f], cwd=LEAN, timeout=1200)
    res, cur = {}, None
    # output: "'Name' depends on axioms: [a, b]" or "'Name' does not depend on any axioms"
    for mm in re.finditer(r"'([^']+)' (does not depend on any axioms|depends on axioms: \[([^\]]*)\])", out):
        res[mm.group(1)] = [] if mm.group(3) is None else [a.strip() for a in mm.group(3).replace("\n", " ").split(",") if a.strip()]
    missing = [t for t in theorems if t not in res]
    return rc, out, res, missing

def list_theorems(module):
    """theorem names declared in a Props file (namespace-qualified by simple tracking)"""
    p = os.path.join(LEAN, module.replace(".", "/") + ".lean")
    src = strip_comments(open(p).read())
    ns, names = [], []
    for line in src.split("\n"):
        m = re.match(r"\s*namespace\s+(\S+)", line)
        if m:
            ns.append(m.group(1)); continue
        m = re.match(r"\s*end\s+(\S+)\s*$", line)
        if m and ns and ns[-1] == m.group(1):
            ns.pop(); continue
        m = re.match(r"\s*(?:@\[[^\]]*\]\s*)?(?:private\s+|protected\s+)?theorem\s+(\S+)", line)
        if m:
            names.append(".".join(ns + [m.group(1)]))
    return names

def leanchecker(module):
    with Lock(os.path.join(SCRATCH, "lake.lock")):
        return run(["lake", "env", "leanchecker", module], cwd=LEAN, timeout=3000)

# ---------------------------------------------------------------- reporting

class Report:
    def __init__(self, pid, tier, seed, level):
        if level not in ("exploration", "fault_enumeration", "model_checking", "proof", "translation_validation", "other"):
            raise ValueError("invalid evidence level %r" % level)
        self.pid, self.tier, self.seed, self.level = pid, tier, seed, level
        self.t0 = time.time()
        self.cov = {}
        self.assumptions = []
        self.violations = 0
        self.known_hits = []
        self.kf = load_known_findings()
        os.makedirs(os.path.join(VERIF, "evidence"), exist_ok=True)
        os.makedirs(os.path.join(VERIF, "evidence", "replay"), exist_ok=True)
        for f in os.listdir(os.path.join(VERIF, "evidence", "replay")):
            if f.startswith(pid + "_"):
                os.remove(os.path.join(VERIF, "evidence", "replay", f))

    def replay_path(self, tag):
        return os.path.join(VERIF, "evidence", "replay", "%s_%s.txt" % (self.pid, re.sub(r"[^A-Za-z0-9_.-]", "_", tag)[:80]))

    def violation(self, tag, replay_text, found_input=True):
        p = self.replay_path(tag)
        with open(p, "w") as fh:
            fh.write(replay_text if replay_text.endswith("\n") else replay_text + "\n")
        self.violations += 1
        print("VIOLATION property=%s replay=%s%s" % (self.pid, p, "" if found_input else " no-failing-input-found"))
        sys.stdout.flush()

    def finding(self, signature, observed):
        """a concrete failure of the property with the given signature. Listed in
        known_findings.json -> KNOWN-FINDING line; otherwise a VIOLATION."""
        for k in self.kf.get("known", []):
            if k["property"] == self.pid and k["signature"] == signature:
                if signature not in self.known_hits:
                    self.known_hits.append(signature)
                    print("KNOWN-FINDING: property=%s %s" % (self.pid, k["what"]))
                return True
        self.violation("finding_" + signature, "signature: %s\n%s" % (signature, observed), True)
        return False

    def write(self):
        ev = dict(property_id=self.pid, tier=self.tier, seed=self.seed, level=self.level,
                  coverage=self.cov, assumptions=self.assumptions,
                  wall_s=round(time.time() - self.t0, 2), violations=self.violations)
        ev["coverage"]["known_findings_hit"] = list(self.known_hits)
        p = os.path.join(VERIF, "evidence", "%s.json" % self.pid)
        with open(p, "w") as fh:
            json.dump(ev, fh, indent=1, sort_keys=True)
            fh.write("\n")
        return p

    def finish(self):
        self.write()
        print("%s tier=%s seed=%d violations=%d wall=%.1fs" % (self.pid, self.tier, self.seed, self.violations, time.time() - self.t0))
        return 1 if self.violations else 0

def load_known_findings():
    p = os.path.join(VERIF, "known_findings.json")
    if os.path.exists(p):
        return json.load(open(p))
    return {"known": [], "fixed": []}

def regen_all():
    """regenerate every translator output (lean/NeverModel/Gen/*.lean) from /repo's CURRENT working tree, so that no
    check ever builds against tables left behind by an earlier run on a different tree.  Failures are not fatal here:
    the checks that own a translator report a broken tie themselves."""
    notes = []
    sys.path.insert(0, os.path.join(VERIF, "gen"))
    try:
        rc, out = run([sys.executable, os.path.join(VERIF, "gen", "opcodes.py")])
        if rc != 0:
            notes.append("opcodes: " + out[-300:])
    except Exception as e:
        notes.append("opcodes: %r" % (e,))
    try:
        import buildimpl, numtab
        info = buildimpl.build("plain")
        with Lock(os.path.join(SCRATCH, "lake.lock")):
            numtab.write(info["src"], os.path.join(LEAN, "NeverModel", "Gen"))
    except Exception as e:
        notes.append("numtab: %s" % (str(e)[:300],))
    try:
        import globals as globals_tab
        info = buildimpl.build("plain")
        with Lock(os.path.join(SCRATCH, "lake.lock")):
            globals_tab.write(info["src"])
    except Exception as e:
        notes.append("globals: %s" % (str(e)[:300],))
    try:
        import parsertab
        with Lock(os.path.join(SCRATCH, "lake.lock")):
            parsertab.generate()
    except Exception as e:
        notes.append("parsertab: %s" % (str(e)[:300],))
    try:
        import owntab
        info = buildimpl.build("plain")
        with Lock(os.path.join(SCRATCH, "lake.lock")):
            t = owntab.write(info["src"])
        if t.get("problems"):
            # unrecognised shapes: the table carries them in `problems` (own_table_consistent then fails); C16 reports the broken tie
            notes.append("owntab: %s" % ("; ".join(t["problems"])[:300],))
    except Exception as e:
        notes.append("owntab: %s" % (str(e)[:300],))
    try:
        import tailtab
        info = buildimpl.build("plain")
        with Lock(os.path.join(SCRATCH, "lake.lock")):
            tailtab.write(info["src"], os.path.join(LEAN, "NeverModel", "Gen"))
    except Exception as e:
        # an unrecognised shape of front/tailrec.c: the table is left as it was, the check that owns it (C13) reports the broken tie
        notes.append("tailtab: %s" % (str(e)[:300],))
    return notes

def proof_stage(rep, prop_module, extra_targets=("nmdrv",), search=None, required=()):
    """build the property's cone, scan for forbidden constructs, audit axioms.
    On a broken proof: call `search()` (looks for a concrete failing input on I/M);
    reports VIOLATION accordingly. Returns True when the proof side is intact."""
    ok = True
    rep.cov["translator_notes"] = regen_all()
    rc, out = lake_build([prop_module] + list(extra_targets))
    thms = list_theorems(prop_module)
    rep.cov["checker_cmd"] = "lake build %s && lake env lean Audit(#print axioms) [&& lake env leanchecker %s]" % (prop_module, prop_module)
    rep.cov["obligations"] = len(thms)
    rep.cov["theorems"] = thms
    if rc != 0:
        ok = False
        rep.cov["discharged"] = 0
        errs = [l for l in out.split("\n") if "error" in l][:20]
        # name the theorems whose proofs no longer check: the nearest `theorem` above each error position
        names = []
        for l in errs:
            mm = re.search(r"error: (\S+\.lean):(\d+):\d+", l)
            if mm:
                try:
                    src_lines = open(os.path.join(LEAN, mm.group(1))).read().split("\n")[:int(mm.group(2))]
                    for sl in reversed(src_lines):
                        m2 = re.match(r"\s*(?:private\s+)?(?:theorem|lemma|def|example)\s+(\S+)?", sl)
                        if m2:
                            nm = "%s: %s" % (mm.group(1), m2.group(1) or "example")
                            if nm not in names: names.append(nm)
                            break
                except OSError:
                    pass
        broken = "lake build %s failed; proof obligations that no longer check: %s\n%s" % (prop_module, ", ".join(names) or "(see errors)", "\n".join(errs) or out[-3000:])
    else:
        hits = forbidden_scan([prop_module])
        rc2, out2, axs, missing = audit_axioms(prop_module, thms)
        bad = {t: a for t, a in axs.items() if set(a) - ALLOWED_AXIOMS or any("sorryAx" in x for x in a)}
        need = [t for t in required if t not in thms]
        rep.cov["axioms"] = {t: a for t, a in axs.items()}
        rep.cov["discharged"] = len(thms) - len(missing) - len(bad)
        if hits or bad or missing or rc2 != 0 or need:
            ok = False
            broken = "audit failed: forbidden=%s bad_axioms=%s missing=%s required_missing=%s\n%s" % (hits, bad, missing, need, out2[-2000:] if rc2 else "")
        elif rep.tier == "thorough":
            rc3, out3 = leanchecker(prop_module)
            rep.cov["leanchecker"] = "ok" if rc3 == 0 else out3[-500:]
            if rc3 != 0:
                ok = False
                broken = "leanchecker %s failed:\n%s" % (prop_module, out3[-2000:])
    if not ok:
        found = None
        if search is not None:
            try:
                found = search()
            except Exception as e:  # the search is best-effort
                found = None
                broken += "\n(search raised %r)" % (e,)
        if found:
            rep.violation("proof_broken", "proof obligation broken and a failing input was found\n%s\n--- failing input ---\n%s" % (broken, found), True)
        else:
            rep.violation("proof_broken", "theorem/correspondence that no longer checks:\n%s" % broken, False)
    return ok
