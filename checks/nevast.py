"""AST of the modelled core of Never shared by the program generator, the sample-corpus
parser, the Never-source printer and the s-expression printer (`nmdrv src`).

Nodes are Python lists `[tag, ...]`; types are tuples; functions/params are dicts.
  types : ("bool",) ("int",) ("long",) ("float",) ("double",) ("char",) ("string",)
          ("named", name) ("arr", ndims, elem) ("func", [param dicts], ret) ("tuple", [types])
          ("range", ndims)  `[.., ..] : range`      ("slice", ndims, elem)  `[.., ..] : elem`
          a range / slice parameter lists its bound names in "dims": [f1, t1, f2, t2, ...] (or [] when anonymous)
  expr  : see `to_sexpr` — one case per constructor of `Never.Src.Expr`.
"""
import struct

class Unsupported(Exception):
    pass

class ParseError(Exception):
    pass

KEYWORDS = {"bool", "true", "false", "catch", "const", "for", "let", "var", "func", "while", "do", "if", "in",
            "enum", "else", "extern", "int", "float", "record", "char", "string", "c_ptr", "c_null", "void",
            "nil", "match", "range", "module", "use", "long", "double"}
BASIC = {"bool", "int", "long", "float", "double", "char", "string"}
BUILTINS = {"print", "printl", "printb", "printf", "printd", "printc", "prints", "assert", "assertf",
            "length", "ord", "chr", "sqrt", "str", "strf"}
UNSUPPORTED_BUILTINS = {"sin", "cos", "tan", "exp", "log", "pow", "read", "c_int_ptr", "c_long_ptr", "c_float_ptr",
                        "c_double_ptr", "c_bool_ptr", "c_char_ptr", "c_string_ptr", "c_ptr_ptr"}
PUNCT3 = ["~~~", "&&&", "|||", "^^^", "<<<", ">>>"]
PUNCT2 = ["::", "..", "==", "!=", "<=", ">=", "->", "{[", "]}", "&&", "||", "|>"]

def f32_bits(x):
    return struct.unpack("<I", struct.pack("<f", x))[0]

def f64_bits(x):
    return struct.unpack("<Q", struct.pack("<d", x))[0]

# ------------------------------------------------------------------ tokenizer

def tokenize(src):
    toks, i, n = [], 0, len(src)
    while i < n:
        c = src[i]
        if c in " \t\r\n":
            i += 1; continue
        if c == "#":
            while i < n and src[i] != "\n":
                i += 1
            continue
        if src.startswith("/*", i):
            j = src.find("*/", i + 2)
            if j < 0:
                raise ParseError("unterminated comment")
            i = j + 2; continue
        if c.isdigit():
            j = i
            if src.startswith(("0x", "0X"), i):
                j = i + 2
                while j < n and src[j] in "0123456789abcdefABCDEF":
                    j += 1
                if j < n and src[j] in "lL":
                    toks.append(("long", int(src[i:j], 16))); j += 1
                else:
                    toks.append(("int", int(src[i:j], 16)))
                i = j; continue
            while j < n and src[j].isdigit():
                j += 1
            if j < n and src[j] == "." and j + 1 < n and src[j + 1].isdigit():
                k = j + 1
                while k < n and src[k].isdigit():
                    k += 1
                text = src[i:k]
                if k < n and src[k] in "dD":
                    toks.append(("double", text)); k += 1
                else:
                    while k < n and src[k] in "fF":
                        k += 1
                    toks.append(("float", text))
                i = k; continue
            if j < n and src[j] in "lL":
                toks.append(("long", int(src[i:j]))); i = j + 1; continue
            toks.append(("int", int(src[i:j]))); i = j; continue
        if c.isalpha() or c == "_":
            j = i
            while j < n and (src[j].isalnum() or src[j] == "_"):
                j += 1
            w = src[i:j]
            toks.append(("kw", w) if w in KEYWORDS else ("id", w))
            i = j; continue
        if c == "'" and i + 2 < n and src[i + 2] == "'":
            toks.append(("char", ord(src[i + 1]))); i += 3; continue
        if c == '"':
            j, out = i + 1, bytearray()
            while True:
                if j >= n or src[j] == "\n":
                    raise ParseError("unterminated string")
                ch = src[j]
                if ch == '"':
                    j += 1; break
                if ch == "\\":
                    nx = src[j + 1]
                    if nx in "01234567":
                        k = j + 1
                        while k < n and k < j + 4 and src[k] in "01234567":
                            k += 1
                        out.append(int(src[j + 1:k], 8) & 0xff); j = k; continue
                    out.append({"n": 10, "t": 9, "r": 13, "b": 8, "f": 12}.get(nx, ord(nx) & 0xff)); j += 2; continue
                out.extend(ch.encode("latin1", "replace")); j += 1
            toks.append(("str", bytes(out))); i = j; continue
        for p in PUNCT3 + PUNCT2:
            if src.startswith(p, i):
                toks.append(("p", p)); i += len(p); break
        else:
            toks.append(("p", c)); i += 1
    toks.append(("eof", None))
    return toks

# ------------------------------------------------------------------ parser

BINPREC = [  # low -> high ; all left associative
    ["||"], ["&&"], ["|||"], ["^^^"], ["&&&"], ["==", "!="], ["<", ">", "<=", ">="], ["<<<", ">>>"], ["+", "-"], ["*", "/", "%"]]
BINNAME = {"|||": "bor", "^^^": "bxor", "&&&": "band", "==": "eq", "!=": "ne", "<": "lt", ">": "gt", "<=": "le",
           ">=": "ge", "<<<": "shl", ">>>": "shr", "+": "add", "-": "sub", "*": "mul", "/": "div", "%": "mod"}

class Parser:
    def __init__(self, src, loader=None):
        self.t = tokenize(src)
        self.i = 0
        self.recs, self.enums = {}, {}
        self.next_id = 0
        self.loader = loader      # module name -> source text (or None): `use m` is outside the core without it

    def peek(self, k=0):
        return self.t[min(self.i + k, len(self.t) - 1)]
    def isp(self, p, k=0):
        return self.peek(k) == ("p", p)
    def iskw(self, w, k=0):
        return self.peek(k) == ("kw", w)
    def adv(self):
        x = self.t[self.i]; self.i += 1; return x
    def expect(self, p):
        if not self.isp(p):
            raise ParseError("expected %r got %r at token %d" % (p, self.peek(), self.i))
        self.i += 1
    def expect_kw(self, w):
        if not self.iskw(w):
            raise ParseError("expected %r got %r" % (w, self.peek()))
        self.i += 1
    def ident(self):
        k, v = self.adv()
        if k != "id":
            raise ParseError("identifier expected, got %r" % ((k, v),))
        return v

    # ---- program
    def unit(self):
        """`never` of the grammar: [use ...] [enum / record declarations] [top-level items]; returns
        dict(uses, recs, enums, items) with items as in a block: let / varb / funcs / e"""
        uses = []
        while self.iskw("use"):
            self.adv(); uses.append(self.ident())
        while self.iskw("enum") or self.iskw("record"):
            if self.iskw("enum"):
                self.enumdecl()
            else:
                self.recdecl()
        items = []
        while not (self.peek()[0] == "eof" or self.isp("}")):
            if self.iskw("func"):
                f = self.func()
                if items and items[-1][0] == "funcs":
                    items[-1][1].append(f)
                else:
                    items.append(["funcs", [f]])
                if self.isp(";"):
                    self.adv()
            elif self.iskw("extern"):
                raise Unsupported("extern")
            elif (self.iskw("let") or self.iskw("var")) and not self.iskw("func", 1):
                kind = self.adv()[1]; x = self.ident(); self.expect("="); e = self.expr()
                items.append(["let" if kind == "let" else "varb", x, e])
                if self.isp(";"):
                    self.adv()
            elif self.iskw("enum") or self.iskw("record"):
                raise Unsupported("declaration after functions")
            else:
                items.append(["e", self.expr()])
                if self.isp(";"):
                    self.adv()
        return dict(uses=uses, recs=[(n, f) for n, f in self.recs.items()], enums=[(n, it) for n, it in self.enums.items()], items=items)

    def program(self):
        if self.iskw("module"):
            raise Unsupported("modules")
        u = self.unit()
        if self.peek()[0] != "eof":
            raise ParseError("unexpected %r at top level" % (self.peek(),))
        plain = not u["uses"] and all(it[0] == "funcs" for it in u["items"]) and len(u["items"]) <= 1
        if plain:
            funcs = u["items"][0][1] if u["items"] else []
            return dict(recs=u["recs"], enums=u["enums"], funcs=funcs)
        if u["uses"] and self.loader is None:
            raise Unsupported("modules")
        if any(it[0] == "e" for it in u["items"]) and self.loader is None:
            raise Unsupported("top-level expression")
        if self.loader is None:
            raise Unsupported("top-level binding")
        return link_units(u, self.loader)

    def module(self):
        self.expect_kw("module"); name = self.ident(); self.expect("{")
        u = self.unit()
        self.expect("}")
        if self.peek()[0] != "eof":
            raise ParseError("text after the module")
        u["name"] = name
        return u

    def enumdecl(self):
        self.expect_kw("enum"); name = self.ident(); self.expect("{")
        items, val = [], -1
        while True:
            it = self.ident()
            if self.isp("{"):
                self.adv(); fields = []
                while not self.isp("}"):
                    p = self.param(); self.expect(";")
                    self.field_ok(p)
                    fields.append((p["name"], p["ty"], p["mut"], p["dims"]))
                self.adv()
                val += 1
                items.append((it, val, fields))
            elif self.isp("="):
                self.adv(); e = self.expr()
                v = const_int(e)
                if v is None:
                    raise Unsupported("non-literal enum value")
                val = v; items.append((it, val, None))
            else:
                val += 1; items.append((it, val, None))
            if self.isp(","):
                self.adv(); continue
            break
        self.expect("}")
        self.enums[name] = items

    def recdecl(self):
        self.expect_kw("record"); name = self.ident(); self.expect("{")
        fields = []
        while not self.isp("}"):
            p = self.param(); self.expect(";")
            self.field_ok(p)
            fields.append((p["name"], p["ty"], p["mut"], p["dims"]))
        self.adv()
        self.recs[name] = fields

    def field_ok(self, p):
        if p["ty"][0] in ("range", "slice") and (p["dims"] or p["name"] is None):
            raise Unsupported("record field of range/slice type with bound names (r.from)")

    # ---- types / params
    def dims(self):
        """after '[' : dim names of an array type, or the `f .. t` pairs of a range / slice type; consumes ']'.
        returns ("arr", names) or ("rng", ndims, [f1, t1, ...] or [])"""
        if self.isp("..") or (self.peek()[0] == "id" and self.isp("..", 1)):
            n, names, anon = 0, [], 0
            while True:
                if self.isp(".."):
                    self.adv(); anon += 1
                else:
                    f = self.ident(); self.expect(".."); t = self.ident()
                    names += [f, t]
                n += 1
                if self.isp(","):
                    self.adv(); continue
                break
            self.expect("]")
            if anon and names:
                raise Unsupported("range/slice type with some bounds named and some not")
            return ("rng", n, names)
        ds = []
        while True:
            ds.append(self.ident())
            if self.isp(","):
                self.adv(); continue
            break
        self.expect("]")
        return ("arr", ds)

    def bracket_type(self, name):
        """after '[' of `[...] : T` / `name[...] : T`"""
        d = self.dims(); self.expect(":")
        if d[0] == "arr":
            if self.iskw("range"):
                raise ParseError("dimension names before `range`")
            el = self.param()
            return dict(name=name, ty=("arr", len(d[1]), el["ty"]), dims=d[1])
        if self.iskw("range"):
            self.adv()
            return dict(name=name, ty=("range", d[1]), dims=d[2])
        el = self.param()
        return dict(name=name, ty=("slice", d[1], el["ty"]), dims=d[2])

    def param(self):
        mut = None
        if self.iskw("let") or self.iskw("var"):
            mut = self.adv()[1]
        p = self.param_decl()
        p["mut"] = mut
        return p

    def param_list(self):
        """after '(' ; consumes ')'"""
        ps = []
        if self.isp(")"):
            self.adv(); return ps
        while True:
            ps.append(self.param())
            if self.isp(","):
                self.adv(); continue
            break
        self.expect(")")
        return ps

    def param_decl(self):
        k, v = self.peek()
        if k == "kw" and v in BASIC:
            self.adv(); return dict(name=None, ty=(v,), dims=[])
        if k == "kw" and v in ("void", "c_ptr", "range"):
            raise Unsupported("type " + v)
        if self.isp("["):
            self.adv()
            return self.bracket_type(None)
        if self.isp("("):
            self.adv(); ps = self.param_list()
            if self.isp("->"):
                self.adv(); r = self.param()
                return dict(name=None, ty=("func", ps, r["ty"]), dims=[])
            return dict(name=None, ty=("tuple", [p["ty"] for p in ps]), dims=[])
        if k == "id":
            name = self.adv()[1]
            if self.isp(":"):
                self.adv()
                k2, v2 = self.peek()
                if k2 == "kw" and v2 in BASIC:
                    self.adv(); return dict(name=name, ty=(v2,), dims=[])
                if k2 == "kw":
                    raise Unsupported("type " + str(v2))
                if self.isp("("):
                    self.adv(); ps = self.param_list()
                    return dict(name=name, ty=("tuple", [p["ty"] for p in ps]), dims=[])
                tn = self.ident()
                if self.isp("."):
                    self.adv(); tn = tn + "." + self.ident()
                return dict(name=name, ty=("named", tn), dims=[])
            if self.isp("["):
                self.adv()
                return self.bracket_type(name)
            if self.isp("("):
                self.adv(); ps = self.param_list(); self.expect("->"); r = self.param()
                return dict(name=name, ty=("func", ps, r["ty"]), dims=[])
            if self.isp("."):
                self.adv(); name = name + "." + self.ident()
            return dict(name=None, ty=("named", name), dims=[])
        raise ParseError("bad parameter at %r" % (self.peek(),))

    # ---- functions
    def func(self):
        self.expect_kw("func")
        name = ""
        if self.peek()[0] == "id":
            name = self.adv()[1]
        self.expect("(")
        ps = self.param_list()
        self.expect("->")
        ret = self.param()
        fid = self.next_id; self.next_id += 1
        if self.isp("{") and self.isp("}", 1):
            raise Unsupported("empty function body")
        body = self.seq()
        catches = []
        while self.iskw("catch"):
            self.adv()
            if self.isp("("):
                self.adv(); en = self.ident(); self.expect(")")
                catches.append((en, self.seq()))
            else:
                catches.append((None, self.seq()))
        return dict(id=fid, name=name, params=ps, ret=ret["ty"], retmut=ret["mut"], body=body, catches=catches)

    def seq(self):
        self.expect("{")
        items = []
        while True:
            if self.iskw("let") and self.iskw("func", 1):
                items.append(["e", self.expr()])
            elif self.iskw("let") or self.iskw("var"):
                kind = self.adv()[1]; x = self.ident(); self.expect("="); e = self.expr()
                items.append(["let" if kind == "let" else "varb", x, e])
            elif self.iskw("func"):
                fs = [self.func()]
                while self.iskw("func") or (self.isp(";") and self.iskw("func", 1)):
                    if self.isp(";"):
                        self.adv()
                    fs.append(self.func())
                items.append(["funcs", fs])
            else:
                items.append(["e", self.expr()])
            if self.isp(";"):
                self.adv()
                if self.isp("}"):
                    raise ParseError("trailing ; in sequence")
                continue
            if self.iskw("func"):
                continue
            break
        self.expect("}")
        return ["seq", items]

    # ---- expressions
    def expr(self):
        return self.assign()

    def assign(self):
        l = self.ternary()
        if self.isp("="):
            self.adv(); r = self.assign()
            return ["assign", l, r]
        return l

    def ternary(self):
        c = self.binary(0)
        if self.isp("?"):
            self.adv(); t = self.ternary_branch(); self.expect(":"); e = self.ternary_branch()
            return ["cond", c, t, e, "?:"]
        return c

    def ternary_branch(self):
        # operands of ?: may themselves be assignments only when parenthesised; `? :` is right associative
        return self.ternary()

    def binary(self, lvl):
        if lvl == len(BINPREC):
            return self.unary()
        l = self.binary(lvl + 1)
        while self.peek()[0] == "p" and self.peek()[1] in BINPREC[lvl]:
            op = self.adv()[1]
            r = self.binary(lvl + 1)
            if op == "&&":
                l = ["and", l, r]
            elif op == "||":
                l = ["or", l, r]
            else:
                l = ["bin", BINNAME[op], l, r]
        return l

    def unary(self):
        if self.isp("-"):
            self.adv(); return ["un", "neg", self.unary()]
        if self.isp("!"):
            self.adv(); return ["un", "not", self.unary()]
        if self.isp("~~~"):
            self.adv(); return ["un", "bnot", self.unary()]
        e = self.postfix()
        while self.isp("|>"):
            # `l |> f(a, b)` = `f(l, a, b)` (a tuple `l` is unpacked into the first parameters): binds tighter than every
            # unary / binary operator, left associative; the right operand is a postfix expression that must be a call
            self.adv()
            r = self.postfix()
            if r[0] == "call":
                e = ["pipe", e, r[1], r[2]]
            elif r[0] == "builtin":
                if e[0] == "tuple":
                    raise Unsupported("pipe of a tuple into a builtin")
                e = ["builtin", r[1], [e] + r[2], "pipe"]
            else:
                raise Unsupported("pipe into something that is not a call")
        return e

    def args(self):
        """after '(' ; consumes ')'"""
        a = []
        if self.isp(")"):
            self.adv(); return a
        while True:
            a.append(self.expr())
            if self.isp(","):
                self.adv(); continue
            break
        self.expect(")")
        return a

    def postfix(self):
        e = self.primary()
        while True:
            if self.isp("("):
                self.adv(); a = self.args()
                if e[0] == "var" and e[1] in self.recs:
                    e = ["record", e[1], a]
                elif e[0] == "var" and e[1] in BUILTINS and not self.bound(e[1]):
                    e = ["builtin", e[1], a]
                elif e[0] == "var" and e[1] in UNSUPPORTED_BUILTINS and not self.bound(e[1]):
                    raise Unsupported("builtin " + e[1])
                elif e[0] == "enumval":
                    e = ["enumrec", e[1], e[2], a]
                else:
                    e = ["call", e, a]
            elif self.isp("["):
                self.adv()
                first = self.expr()
                if self.isp(".."):
                    self.adv(); bounds = [first, self.expr()]
                    while self.isp(","):
                        self.adv(); bounds.append(self.expr()); self.expect(".."); bounds.append(self.expr())
                    self.expect("]")
                    e = ["slice", e, bounds]
                    continue
                idx = [first]
                while self.isp(","):
                    self.adv(); idx.append(self.expr())
                self.expect("]")
                e = ["index", e, idx]
            elif self.isp("."):
                self.adv(); f = self.ident()
                e = ["field", e, f]
            elif self.isp("::"):
                self.adv(); it = self.ident()
                if e[0] == "field" and e[1][0] == "var":
                    e = ["enumval", e[1][1] + "." + e[2], it]       # `m.E::item`
                elif e[0] != "var":
                    raise Unsupported("enum item of something that is not a name")
                else:
                    e = ["enumval", e[1], it]
            else:
                return e

    def bound(self, name):
        return False   # builtin names are never rebound in the programs we accept (checked by the caller)

    def guard(self):
        """match_guard_item / match_guard_record without the body; returns partial node"""
        en = self.ident()
        if self.isp("."):
            self.adv(); en = en + "." + self.ident()
        self.expect("::"); it = self.ident()
        if self.isp("("):
            self.adv(); binds = []
            if not self.isp(")"):
                while True:
                    binds.append(self.ident())
                    if self.isp(","):
                        self.adv(); continue
                    break
            self.expect(")")
            return ["grec", en, it, binds]
        return ["gitem", en, it]

    def array_sub(self):
        """after '[' of a nested literal; returns (shape, flat elems); consumes ']'"""
        if self.isp("]"):
            raise Unsupported("empty array literal")
        if self.isp("["):
            subs = []
            while True:
                self.expect("["); subs.append(self.array_sub())
                if self.isp(","):
                    self.adv(); continue
                break
            self.expect("]")
            sh = subs[0][0]
            if any(s[0] != sh for s in subs):
                raise Unsupported("ragged array literal")
            return ([len(subs)] + sh, [x for s in subs for x in s[1]])
        elems = [self.expr()]
        while self.isp(","):
            self.adv(); elems.append(self.expr())
        self.expect("]")
        return ([len(elems)], elems)

    def primary(self):
        k, v = self.peek()
        if k == "int":
            self.adv(); return ["int", v]
        if k == "long":
            self.adv(); return ["long", v]
        if k == "float":
            self.adv(); return ["float", f32_bits(float(v)), v]
        if k == "double":
            self.adv(); return ["double", f64_bits(float(v)), v]
        if k == "char":
            self.adv(); return ["char", v]
        if k == "str":
            self.adv(); return ["str", v]
        if k == "id":
            self.adv()
            if not self.isp("("):
                if v in self.recs:
                    return ["recnil", v]
                if v in BUILTINS or v in UNSUPPORTED_BUILTINS:
                    raise Unsupported("builtin used as a value")
            return ["var", v]
        if k == "kw":
            if v == "true" or v == "false":
                self.adv(); return ["bool", v == "true"]
            if v == "nil":
                self.adv(); return ["nil"]
            if v == "c_null":
                raise Unsupported("c_null")
            if v == "if":
                self.adv()
                if self.iskw("let"):
                    self.adv(); self.expect("("); g = self.guard(); self.expect("="); e = self.expr(); self.expect(")")
                    t = self.expr(); els = None
                    if self.iskw("else"):
                        self.adv(); els = self.expr()
                    return ["iflet", g + [t], e, els]
                self.expect("("); c = self.expr(); self.expect(")")
                t = self.expr()
                if self.iskw("else"):
                    self.adv(); e = self.expr()
                    return ["cond", c, t, e, "if"]
                return ["cond", c, t, ["int", 0], "ifnoelse"]
            if v == "while":
                self.adv(); self.expect("("); c = self.expr(); self.expect(")"); b = self.expr()
                return ["while", c, b]
            if v == "do":
                self.adv(); b = self.expr(); self.expect_kw("while"); self.expect("("); c = self.expr(); self.expect(")")
                return ["dowhile", b, c]
            if v == "for":
                self.adv(); self.expect("(")
                if self.peek()[0] == "id" and self.iskw("in", 1):
                    x = self.ident(); self.adv(); coll = self.expr(); self.expect(")"); b = self.expr()
                    return ["forin", x, coll, b]
                i = self.expr(); self.expect(";"); c = self.expr(); self.expect(";"); s = self.expr(); self.expect(")")
                b = self.expr()
                return ["for", i, c, s, b]
            if v == "match":
                self.adv(); e = self.expr(); self.expect("{"); gs = []
                while not self.isp("}"):
                    if self.iskw("else"):
                        self.adv(); self.expect("->"); b = self.expr(); self.expect(";")
                        gs.append(["gelse", b])
                    else:
                        g = self.guard(); self.expect("->"); b = self.expr(); self.expect(";")
                        gs.append(g + [b])
                self.adv()
                return ["match", e, gs]
            if v == "let" and self.iskw("func", 1):
                self.adv(); return ["lam", self.func()]
            raise ParseError("unexpected keyword %s" % v)
        if self.isp("("):
            self.adv(); e = self.expr()
            if self.isp(","):
                elems = [e]
                self.adv()
                if not self.isp(")"):
                    while True:
                        elems.append(self.expr())
                        if self.isp(","):
                            self.adv(); continue
                        break
                self.expect(")"); self.expect(":"); self.expect("(")
                ps = self.param_list()
                return ["tuple", elems, [p["ty"] for p in ps]]
            self.expect(")")
            return e
        if self.isp("{"):
            return self.seq()
        if self.isp("{["):
            self.adv(); ds = [self.expr()]
            while self.isp(","):
                self.adv(); ds.append(self.expr())
            self.expect("]}"); self.expect(":"); el = self.param()
            if el["mut"]:
                raise Unsupported("qualified element type")
            return ["arrnew", el["ty"], ds]
        if self.isp("["):
            self.adv()
            if self.isp("]"):
                raise Unsupported("empty array literal")
            if self.isp("["):
                save = self.i
                try:
                    shape, elems = self.array_sub_outer()
                    self.expect(":"); el = self.param()
                    if el["mut"]:
                        raise Unsupported("qualified element type")
                    return ["arrlit", shape, el["ty"], elems]
                except ParseError:
                    self.i = save
            first = self.expr()
            if self.isp(".."):
                self.adv(); bounds = [first, self.expr()]
                while self.isp(","):
                    self.adv(); bounds.append(self.expr()); self.expect(".."); bounds.append(self.expr())
                self.expect("]")
                return ["range", bounds]
            if self.isp("|"):
                self.adv(); quals = []
                while True:
                    if self.peek()[0] == "id" and self.iskw("in", 1):
                        x = self.ident(); self.adv(); quals.append(["gen", x, self.expr()])
                    else:
                        quals.append(["filter", self.expr()])
                    if self.isp(";"):
                        self.adv(); continue
                    break
                self.expect("]"); self.expect(":"); el = self.param()
                if el["mut"]:
                    raise Unsupported("qualified element type")
                return ["listcomp", el["ty"], first, quals]
            elems = [first]
            while self.isp(","):
                self.adv(); elems.append(self.expr())
            self.expect("]"); self.expect(":"); el = self.param()
            return ["arrlit", [len(elems)], el["ty"], elems]
        raise ParseError("unexpected token %r" % ((k, v),))

    def array_sub_outer(self):
        subs = []
        while True:
            self.expect("["); subs.append(self.array_sub())
            if self.isp(","):
                self.adv(); continue
            break
        self.expect("]")
        sh = subs[0][0]
        if any(s[0] != sh for s in subs):
            raise Unsupported("ragged array literal")
        return [len(subs)] + sh, [x for s in subs for x in s[1]]

def const_int(e):
    if e[0] == "int":
        return e[1]
    if e[0] == "un" and e[1] == "neg":
        v = const_int(e[2])
        return None if v is None else -v
    return None

def parse_program(src, loader=None):
    """loader: module name -> source text of `module name { … }` (or None).  With a loader, programs that `use` modules
    or have top-level bindings / expressions are LINKED into one program of the core (see link_units)."""
    p = Parser(src, loader)
    prog = p.program()
    if "source_override" in prog:
        prog["source_override"] = src
    return prog

# ------------------------------------------------------------------ modules and top-level items
#
# A compilation unit is [use …] [declarations] [items]; its items behave like the items of a block (bindings in order,
# consecutive functions form a group).  A program with modules is evaluated as ONE block: the items of every used
# module in DEPENDENCY order (a module after the modules it uses; otherwise in order of first `use`), then the items of
# the main unit, then `main(args)`.  That block becomes the body of a wrapper `main`; module-level names are qualified
# (`m.x`), so are the records / enums of modules (`m.R`).  The reference evaluator itself is unchanged: modules are
# nested scopes.  The real pipeline is run on the ORIGINAL text (prog["source_override"]) with NEVER_PATH set.

def _walk(node, fn):
    """post-order rewrite of every expression node (lists) inside node, through function dicts"""
    if isinstance(node, dict):
        node["body"] = _walk(node["body"], fn)
        node["catches"] = [(c[0], _walk(c[1], fn)) for c in node["catches"]]
        return node
    if isinstance(node, list):
        out = [(_walk(x, fn) if isinstance(x, (list, dict)) else x) for x in node]
        return fn(out)
    return node

def _types_walk(ty, q):
    k = ty[0]
    if k == "named":
        return ("named", q(ty[1]))
    if k == "arr":
        return ("arr", ty[1], _types_walk(ty[2], q))
    if k == "slice":
        return ("slice", ty[1], _types_walk(ty[2], q))
    if k == "func":
        return ("func", [dict(p, ty=_types_walk(p["ty"], q)) for p in ty[1]], _types_walk(ty[2], q))
    if k == "tuple":
        return ("tuple", [_types_walk(t, q) for t in ty[1]])
    return ty

def _qualify_unit(u, mod, known, rename=True):
    """rename the module-level names of unit `u` (module name `mod`, "" = main unit) to `mod.x`, its records / enums to
    `mod.R`; resolve `n.x`, `n.R(…)` for used modules n.  known: module name -> dict(recs, enums, names)"""
    import src_gen
    pre = (mod + ".") if mod else ""
    own_types = {n for n, _ in u["recs"]} | {n for n, _ in u["enums"]}
    qt = lambda n: (pre + n) if n in own_types else n
    uses = set(u["uses"])
    def fix(e):
        if not e or not isinstance(e[0], str):
            return e
        t = e[0]
        if t == "field" and len(e) == 3 and isinstance(e[1], list) and e[1] and e[1][0] == "var" and e[1][1] in uses:
            n, x = e[1][1], e[2]
            if x in known[n]["recs"]:
                return ["recnil", n + "." + x]
            return ["var", n + "." + x]
        if t == "call" and len(e) == 3 and isinstance(e[1], list) and e[1] and e[1][0] in ("var", "recnil") and "." in e[1][1] and e[1][1].split(".")[0] in uses and e[1][1].split(".", 1)[1] in known[e[1][1].split(".")[0]]["recs"]:
            return ["record", e[1][1], e[2]]
        if t in ("record", "recnil"):
            return [t, qt(e[1])] + e[2:]
        if t in ("enumval", "enumrec", "gitem", "grec"):
            return [t, qt(e[1])] + e[2:]
        if t in ("arrlit",):
            return [t, e[1], _types_walk(e[2], qt)] + e[3:]
        if t in ("arrnew", "listcomp"):
            return [t, _types_walk(e[1], qt)] + e[2:]
        if t == "tuple":
            return [t, e[1], [_types_walk(x, qt) for x in e[2]]]
        return e
    def fix_func_types(f):
        f["params"] = [dict(p, ty=_types_walk(p["ty"], qt)) for p in f["params"]]
        f["ret"] = _types_walk(f["ret"], qt)
    def all_funcs(node, out):
        if isinstance(node, dict):
            out.append(node); all_funcs(node["body"], out)
            for c in node["catches"]:
                all_funcs(c[1], out)
        elif isinstance(node, list):
            for x in node:
                if isinstance(x, (list, dict)):
                    all_funcs(x, out)
    items = _walk(u["items"], fix)
    fs = []; all_funcs(items, fs)
    for f in fs:
        fix_func_types(f)
    if not rename:
        # for the Lean elaboration (Model/SrcMod.lean): types and `n.x` are settled here, the unit's own module-level
        # names are qualified THERE
        recs = [(pre + n, [(x[0], _types_walk(x[1], qt)) + tuple(x[2:]) for x in fl]) for n, fl in u["recs"]]
        enums = [(pre + n, [(it, v, None if fl is None else [(x[0], _types_walk(x[1], qt)) + tuple(x[2:]) for x in fl]) for it, v, fl in its])
                 for n, its in u["enums"]]
        return items, recs, enums, []
    # module-level binders, in order; an item is renamed with the binders BEFORE it in scope (plus its own group)
    out, bs = [], []
    def nu_for(k):
        return lambda x, d: (pre + x) if d < k else x
    for it in items:
        if it[0] in ("let", "varb"):
            e = src_gen.rn_expr(nu_for(len(bs)), bs, it[2])
            out.append([it[0], pre + it[1], e]); bs.append(it[1])
        elif it[0] == "funcs":
            for f in it[1]:
                bs.append(f["name"])
            out.append(["funcs", [src_gen.rn_func(nu_for(len(bs)), bs, f) for f in it[1]]])
        else:
            out.append(["e", src_gen.rn_expr(nu_for(len(bs)), bs, it[1])])
    qf = lambda fl: [(x[0], _types_walk(x[1], qt)) + tuple(x[2:]) for x in fl]
    recs = [(pre + n, qf(fl)) for n, fl in u["recs"]]
    enums = [(pre + n, [(it, v, None if fl is None else qf(fl)) for it, v, fl in its]) for n, its in u["enums"]]
    return out, recs, enums, bs

def link_units(main_unit, loader):
    units, order = {}, []
    def load(name, stack):
        if name in units:
            if name in stack:
                raise Unsupported("cyclic use of modules")
            return
        src = loader(name)
        if src is None:
            raise Unsupported("module %s not found" % name)
        u = Parser(src, loader).module()
        if u["name"] != name:
            raise Unsupported("module file %s declares module %s" % (name, u["name"]))
        units[name] = u
        for n in u["uses"]:
            load(n, stack + [name])
        order.append(name)          # after the modules it uses
    for n in main_unit["uses"]:
        load(n, [])
    known = {n: dict(recs={r for r, _ in u["recs"]}, enums={e for e, _ in u["enums"]}) for n, u in units.items()}
    import copy
    raw = []      # the same units NOT linked: main first, then the used ones in load order (the Lean side orders them itself)
    for n, u in [("", main_unit)] + [(n, units[n]) for n in order]:
        its0, rs0, es0, _ = _qualify_unit(copy.deepcopy(u), n, known, rename=False)
        raw.append(dict(name=n, uses=list(u["uses"]), recs=rs0, enums=es0, items=its0))
    items, recs, enums = [], [], []
    for n in order:
        its, rs, es, _ = _qualify_unit(units[n], n, known)
        items += its; recs += rs; enums += es
    its, rs, es, names = _qualify_unit(main_unit, "", known)
    items += its; recs += rs; enums += es
    mains = [f for it in its if it[0] == "funcs" for f in it[1] if f["name"] == "main"]
    if not mains:
        raise Unsupported("no main")
    m = mains[0]
    ps = [dict(p, name="arg%d_" % i, dims=[]) for i, p in enumerate(m["params"])]
    body = ["seq", items + [["e", ["call", ["var", "main"], [["var", p["name"]] for p in ps]]]]]
    wrapper = dict(id=0, name="main", params=ps, ret=m["ret"], retmut=None, body=body, catches=[])
    # function ids: unique over all units
    counter = [1]
    def renum(node):
        if isinstance(node, dict):
            if node is not wrapper:
                node["id"] = counter[0]; counter[0] += 1
            renum(node["body"])
            for c in node["catches"]:
                renum(c[1])
        elif isinstance(node, list):
            for x in node:
                if isinstance(x, (list, dict)):
                    renum(x)
    renum(wrapper)
    counter[0] = 1
    for u in raw[1:] + raw[:1]:          # the same numbering: used units in load order, then the main unit
        renum(u["items"])
    return dict(recs=recs, enums=enums, funcs=[wrapper], source_override=True, modules=order, units=raw)

# ------------------------------------------------------------------ s-expression printer

def coarse(ty, prog):
    k = ty[0]
    if k in BASIC:
        return k
    if k == "arr":
        return "arr"
    if k == "range":
        return "rng"
    if k == "slice":
        return "slc"
    if k == "func":
        return "func"
    if k == "tuple":
        return "rec"
    if k == "named":
        for n, items in prog["enums"]:
            if n == ty[1]:
                return "rec" if any(it[2] is not None for it in items) else "enum"
        return "rec"
    raise Unsupported("type %r" % (ty,))

def hexs(b):
    return "".join("%02x" % x for x in b)

def sx(x):
    if isinstance(x, (list, tuple)):
        return "(" + " ".join(sx(y) for y in x) + ")"
    return str(x)

def func_sx(f, prog):
    ps = [["p", p["name"] if p["name"] else "-", coarse(p["ty"], prog)] + list(p["dims"] if p["ty"][0] in ("arr", "range", "slice") else []) for p in f["params"]]
    cs = [["catch", c[0] if c[0] else "*", expr_sx(c[1], prog)] for c in f["catches"]]
    return ["func", f["id"], f["name"] if f["name"] else "-", ["params"] + ps, coarse(f["ret"], prog), expr_sx(f["body"], prog), ["catches"] + cs]

def guard_sx(g, prog):
    if g[0] == "gitem":
        return ["gitem", g[1], g[2], expr_sx(g[3], prog)]
    if g[0] == "grec":
        return ["grec", g[1], g[2], ["binds"] + list(g[3]), expr_sx(g[4], prog)]
    return ["gelse", expr_sx(g[1], prog)]

def expr_sx(e, prog):
    t = e[0]
    R = lambda x: expr_sx(x, prog)
    if t in ("int", "long", "char"):
        return [t, e[1]]
    if t in ("float", "double"):
        return [t, e[1]]
    if t == "str":
        return ["str", hexs(e[1])] if len(e[1]) else ["str"]
    if t == "bool":
        return ["bool", 1 if e[1] else 0]
    if t == "nil" or t == "recnil":
        return ["nil"]
    if t == "var":
        return ["var", e[1]]
    if t == "dimvar":
        return ["dimvar", e[1]]
    if t == "un":
        return ["un", e[1], R(e[2])]
    if t == "bin":
        return ["bin", e[1], R(e[2]), R(e[3])]
    if t in ("and", "or", "assign", "while", "dowhile"):
        return [t, R(e[1]), R(e[2])]
    if t == "cond":
        return ["cond", R(e[1]), R(e[2]), R(e[3])]
    if t == "seq":
        items = []
        for it in e[1]:
            if it[0] in ("let", "varb"):
                items.append([it[0], it[1], R(it[2])])
            elif it[0] == "funcs":
                items.append(["funcs"] + [func_sx(f, prog) for f in it[1]])
            else:
                items.append(["e", R(it[1])])
        return ["seq"] + items
    if t == "for":
        return ["for", R(e[1]), R(e[2]), R(e[3]), R(e[4])]
    if t == "forin":
        return ["forin", e[1], R(e[2]), R(e[3])]
    if t == "call":
        return ["call", R(e[1])] + [R(a) for a in e[2]]
    if t == "builtin":
        return ["builtin", e[1]] + [R(a) for a in e[2]]
    if t == "lam":
        return ["lam", func_sx(e[1], prog)]
    if t == "arrlit":
        return ["arrlit", ["dims"] + list(e[1]), coarse(e[2], prog)] + [R(a) for a in e[3]]
    if t == "arrnew":
        return ["arrnew", coarse(e[1], prog)] + [R(a) for a in e[2]]
    if t == "index":
        return ["index", R(e[1])] + [R(a) for a in e[2]]
    if t == "record":
        return ["record", e[1]] + [R(a) for a in e[2]]
    if t == "tuple":
        return ["tuple"] + [R(a) for a in e[1]]
    if t == "field":
        return ["field", R(e[1]), e[2]]
    if t == "enumval":
        return ["enumval", e[1], e[2]]
    if t == "enumrec":
        return ["enumrec", e[1], e[2]] + [R(a) for a in e[3]]
    if t == "match":
        return ["match", R(e[1])] + [guard_sx(g, prog) for g in e[2]]
    if t == "iflet":
        return ["iflet", guard_sx(e[1], prog), R(e[2]), R(e[3] if e[3] is not None else ["int", 0])]
    if t == "listcomp":
        qs = [["gen", q[1], R(q[2])] if q[0] == "gen" else ["filter", R(q[1])] for q in e[3]]
        return ["listcomp", coarse(e[1], prog), R(e[2])] + qs
    if t == "pipe":
        return ["pipe", R(e[1]), R(e[2])] + [R(a) for a in e[3]]
    if t == "range":
        return ["range"] + [R(a) for a in e[1]]
    if t == "slice":
        return ["slice", R(e[1])] + [R(a) for a in e[2]]
    raise Unsupported("expression %s" % t)

# ---- uses of extent / bound names (`D` of `a[D]`, `f`, `t` of `r[f .. t]`): the evaluator computes them where they are
# used (Expr.dimVar); which uses those are is a matter of lexical resolution, done here on the way to the s-expression

# scope entries: [name, is_dim, alias]  (innermost last).  A nested function that uses an extent / bound name of an enclosing
# function's parameter captures its VALUE when the closure is created (func_freevar_emit: ID_DIM_LOCAL / ID_DIM_SLICE /
# the range's cell at that moment; a nil parameter raises nil_pointer THERE): `let D@cap = D` is inserted in front of the
# function and the uses inside it read `D@cap`.  One walk computes the free names of every function (memo by id), one walk
# rewrites.

def _sub_exprs(e):
    for x in e:
        if isinstance(x, list) and x and isinstance(x[0], str) and x[0] in _EXPR_TAGS:
            yield x
        elif isinstance(x, list) and x and all(isinstance(y, list) and y and isinstance(y[0], str) and y[0] in _EXPR_TAGS for y in x):
            for y in x:
                yield y

def _fn_free(f, memo):
    if id(f) in memo:
        return memo[id(f)]
    bound = set()
    for p in f["params"]:
        bound.add(p["name"])
        if p["ty"][0] in ("arr", "range", "slice"):
            bound.update(p["dims"])
    fr = set(_free(f["body"], memo))
    for c in f["catches"]:
        fr |= _free(c[1], memo)
    fr -= bound
    memo[id(f)] = fr
    return fr

def _free(e, memo):
    """names used in e that e does not bind"""
    t = e[0]
    if t in ("var", "dimvar"):
        return {e[1]}
    if t in ("int", "long", "float", "double", "char", "str", "bool", "nil", "recnil", "enumval"):
        return set()
    if t == "seq":
        out, bound = set(), set()
        for it in e[1]:
            if it[0] in ("let", "varb"):
                out |= _free(it[2], memo) - bound; bound = bound | {it[1]}
            elif it[0] == "funcs":
                bound = bound | {f["name"] for f in it[1]}
                for f in it[1]:
                    out |= _fn_free(f, memo) - bound
            else:
                out |= _free(it[1], memo) - bound
        return out
    if t == "forin":
        return _free(e[2], memo) | (_free(e[3], memo) - {e[1]})
    if t == "lam":
        f = e[1]
        return _fn_free(f, memo) - ({f["name"]} if f["name"] else set())
    if t in ("match", "iflet"):
        gs = e[2] if t == "match" else [e[1]]
        out = _free(e[1] if t == "match" else e[2], memo)
        if t == "iflet" and e[3] is not None:
            out |= _free(e[3], memo)
        for g in gs:
            if g[0] == "grec":
                out |= _free(g[4], memo) - set(g[3])
            else:
                out |= _free(g[-1], memo)
        return out
    if t == "listcomp":
        out, bound = set(), set()
        for q in e[3]:
            if q[0] == "gen":
                out |= _free(q[2], memo) - bound; bound = bound | {q[1]}
            else:
                out |= _free(q[1], memo) - bound
        return out | (_free(e[2], memo) - bound)
    out = set()
    for x in _sub_exprs(e):
        out |= _free(x, memo)
    return out

def _dm_lookup(bs, name):
    for i in range(len(bs) - 1, -1, -1):
        if bs[i][0] == name:
            return bs[i]
    return None

def _dm_func(bs, f, memo):
    bs2 = list(bs)
    for p in f["params"]:
        bs2.append([p["name"], False, None])
        if p["ty"][0] in ("arr", "range", "slice"):
            for dn in p["dims"]:
                bs2.append([dn, True, None])
    g = dict(f)
    g["body"] = _dm_expr(bs2, f["body"], memo)
    g["catches"] = [(c[0], _dm_expr(bs2, c[1], memo)) for c in f["catches"]]
    return g

def _dm_closure(bs, fs, own, memo):
    """functions `fs` created in scope bs (own = the names the group / the lambda binds): (let-items, scope for the rest
    of the block, functions)"""
    fr = set()
    for f in fs:
        fr |= _fn_free(f, memo)
    fr -= set(own)
    caps = sorted(n for n in fr if (_dm_lookup(bs, n) or [0, False])[1])
    lets = [["let", n + "@cap", ["dimvar", n]] for n in caps]
    after = list(bs) + [[l[1], False, None] for l in lets]       # the inserted bindings are binders of the block
    inner = list(after) + [[n, False, n + "@cap"] for n in caps] + [[n, False, None] for n in own]
    # (the alias entries are not binders: they only redirect the captured names inside the functions; `own` names are
    # pushed by the caller for the rest of the block)
    return lets, after, [_dm_func(inner, f, memo) for f in fs]

def _dm_guard(bs, g, memo):
    if g[0] == "gitem":
        return ["gitem", g[1], g[2], _dm_expr(bs, g[3], memo)]
    if g[0] == "gelse":
        return ["gelse", _dm_expr(bs, g[1], memo)]
    return ["grec", g[1], g[2], g[3], _dm_expr(bs + [[x, False, None] for x in g[3]], g[4], memo)]

def _dm_expr(bs, e, memo):
    t = e[0]
    R = lambda x: _dm_expr(bs, x, memo)
    if t == "var":
        ent = _dm_lookup(bs, e[1])
        if ent is None:
            return e
        if ent[1]:
            return ["dimvar", e[1]]
        return ["var", ent[2]] if ent[2] else e
    if t in ("int", "long", "float", "double", "char", "str", "bool", "nil", "recnil", "enumval", "dimvar"):
        return e
    if t == "seq":
        bs2, items = list(bs), []
        for it in e[1]:
            if it[0] in ("let", "varb"):
                items.append([it[0], it[1], _dm_expr(bs2, it[2], memo)]); bs2.append([it[1], False, None])
            elif it[0] == "funcs":
                own = [f["name"] for f in it[1]]
                lets, bs2, fs = _dm_closure(bs2, it[1], own, memo)
                items.extend(lets)
                bs2 = bs2 + [[n, False, None] for n in own]
                items.append(["funcs", fs])
            else:
                items.append(["e", _dm_expr(bs2, it[1], memo)])
        return ["seq", items]
    if t == "forin":
        return ["forin", e[1], R(e[2]), _dm_expr(bs + [[e[1], False, None]], e[3], memo)]
    if t == "lam":
        f = e[1]
        lets, _, fs = _dm_closure(bs, [f], [f["name"]] if f["name"] else [], memo)
        return ["seq", lets + [["e", ["lam", fs[0]]]]] if lets else ["lam", fs[0]]
    if t == "match":
        return ["match", R(e[1]), [_dm_guard(bs, g, memo) for g in e[2]]]
    if t == "iflet":
        return ["iflet", _dm_guard(bs, e[1], memo), R(e[2]), None if e[3] is None else R(e[3])]
    if t == "listcomp":
        bs2, qs = list(bs), []
        for q in e[3]:
            if q[0] == "gen":
                qs.append(["gen", q[1], _dm_expr(bs2, q[2], memo)]); bs2.append([q[1], False, None])
            else:
                qs.append(["filter", _dm_expr(bs2, q[1], memo)])
        return ["listcomp", e[1], _dm_expr(bs2, e[2], memo), qs]
    out = []
    for x in e:
        if isinstance(x, list) and x and isinstance(x[0], str) and x[0] in _EXPR_TAGS:
            out.append(R(x))
        elif isinstance(x, list) and x and all(isinstance(y, list) and y and isinstance(y[0], str) and y[0] in _EXPR_TAGS for y in x):
            out.append([R(y) for y in x])
        else:
            out.append(x)
    return out

_EXPR_TAGS = {"int", "long", "float", "double", "char", "str", "bool", "nil", "recnil", "var", "dimvar", "un", "bin", "and", "or",
              "cond", "assign", "seq", "while", "dowhile", "for", "forin", "call", "builtin", "lam", "arrlit", "arrnew", "index",
              "record", "tuple", "field", "enumval", "enumrec", "match", "iflet", "listcomp", "range", "slice", "pipe"}

def mark_dim_uses(prog):
    q = dict(prog)
    top = [[f["name"], False, None] for f in prog["funcs"]]
    memo = {}
    q["funcs"] = [_dm_func(top, f, memo) for f in prog["funcs"]]
    return q

def units_sexpr(prog):
    """a linked program (parse_program with a loader) as its UNLINKED units, for `Never.Src.Mod.elaborate`"""
    us = []
    for u in prog["units"]:
        seq = _dm_expr([], ["seq", u["items"] + [["e", ["int", 0]]]], {})
        items = expr_sx(seq, prog)[1:-1]
        recs = [["rec", n] + [["f", fld[0] if fld[0] else "-", coarse(fld[1], prog)] for fld in fs] for n, fs in u["recs"]]
        enums = []
        for n, its in u["enums"]:
            l = []
            for it, val, fields in its:
                if fields is None:
                    l.append(["item", it, val])
                else:
                    l.append(["item", it, val, ["payload"]] + [["f", fld[0] if fld[0] else "-", coarse(fld[1], prog)] for fld in fields])
            enums.append(["enum", n] + l)
        us.append(["unit", u["name"] if u["name"] else "-", ["uses"] + u["uses"], ["recs"] + recs, ["enums"] + enums, ["items"] + items])
    return sx(["units"] + us)

def prog_sexpr(prog):
    prog = mark_dim_uses(prog)
    recs = [["rec", n] + [["f", fld[0] if fld[0] else "-", coarse(fld[1], prog)] for fld in fs] for n, fs in prog["recs"]]
    enums = []
    for n, items in prog["enums"]:
        its = []
        for it, val, fields in items:
            if fields is None:
                its.append(["item", it, val])
            else:
                its.append(["item", it, val, ["payload"]] + [["f", fld[0] if fld[0] else "-", coarse(fld[1], prog)] for fld in fields])
        enums.append(["enum", n] + its)
    # an enum item with an EMPTY payload list still is a record item: mark it
    return sx(["prog", ["recs"] + recs, ["enums"] + enums, ["funcs"] + [func_sx(f, prog) for f in prog["funcs"]]])

# ------------------------------------------------------------------ Never source printer

def ty_src(ty):
    k = ty[0]
    if k in BASIC:
        return k
    if k == "named":
        return ty[1]
    if k == "arr":
        return "[" + ",".join(["_"] * ty[1]) + "] : " + ty_src(ty[2])
    if k == "range":
        return "[" + ", ".join([".."] * ty[1]) + "] : range"
    if k == "slice":
        return "[" + ", ".join([".."] * ty[1]) + "] : " + ty_src(ty[2])
    if k == "func":
        return "(" + ", ".join(param_src(p, anon=True) for p in ty[1]) + ") -> " + ty_src(ty[2])
    if k == "tuple":
        return "(" + ", ".join(ty_src(t) for t in ty[1]) + ")"
    raise Unsupported("type %r" % (ty,))

def param_src(p, anon=False):
    ty, name = p["ty"], p["name"]
    mut = (p.get("mut") + " ") if p.get("mut") else ""
    k = ty[0]
    if k in ("range", "slice") and (name is not None or p.get("dims")):
        ds = p.get("dims") or []
        inner = ", ".join("%s .. %s" % (ds[2 * i], ds[2 * i + 1]) for i in range(ty[1])) if ds else ", ".join([".."] * ty[1])
        return "%s%s[%s] : %s" % (mut, name or "", inner, "range" if k == "range" else ty_src(ty[2]))
    if name is None or anon and False:
        return mut + ty_src(ty)
    if k in BASIC:
        return "%s%s : %s" % (mut, name, k)
    if k == "named":
        return "%s%s : %s" % (mut, name, ty[1])
    if k == "arr":
        ds = p["dims"] if p.get("dims") else ["_%s_%d" % (name, i) for i in range(ty[1])]
        return "%s%s[%s] : %s" % (mut, name, ", ".join(ds), ty_src(ty[2]))
    if k == "func":
        return "%s%s(%s) -> %s" % (mut, name, ", ".join(param_src(q) for q in ty[1]), ty_src(ty[2]))
    if k == "tuple":
        return "%s%s : (%s)" % (mut, name, ", ".join(ty_src(t) for t in ty[1]))
    raise Unsupported("param type %r" % (ty,))

def str_lit(b):
    out = ['"']
    for c in b:
        if c == 34 or c == 92:
            out.append("\\" + chr(c))
        elif 32 <= c < 127:
            out.append(chr(c))
        else:
            out.append("\\%03o" % c)
    out.append('"')
    return "".join(out)

BINSRC = {v: k for k, v in BINNAME.items()}

def func_src(f, ind):
    pad = "    " * ind
    head = "func %s(%s) -> %s%s" % (f["name"], ", ".join(param_src(p) for p in f["params"]), (f.get("retmut") + " ") if f.get("retmut") else "", ty_src(f["ret"]))
    s = head + "\n" + pad + expr_src(f["body"], ind)
    for en, b in f["catches"]:
        s += "\n" + pad + ("catch (%s) " % en if en else "catch ") + expr_src(b, ind)
    return s

def guard_src(g, ind):
    if g[0] == "gitem":
        return "%s::%s" % (g[1], g[2])
    return "%s::%s(%s)" % (g[1], g[2], ", ".join(g[3]))

def nested_lit(shape, elems, ind):
    if len(shape) == 1:
        return "[ " + ", ".join(expr_src(x, ind) for x in elems) + " ]"
    n = len(elems) // shape[0]
    return "[ " + ", ".join(nested_lit(shape[1:], elems[i * n:(i + 1) * n], ind) for i in range(shape[0])) + " ]"

def pipe_left(e, ind):
    """the left operand of `|>`: anything that is not an atom / postfix expression is parenthesised by its own printer,
    except the unparenthesised forms"""
    s = expr_src(e, ind)
    if e[0] in ("var", "int", "long", "float", "double", "char", "str", "bool", "index", "field", "slice", "call", "builtin",
                "record", "enumval", "enumrec", "range", "seq") or s.startswith("("):
        return s
    return "(" + s + ")"

def expr_src(e, ind=0):
    t = e[0]
    S = lambda x: expr_src(x, ind)
    pad = "    " * ind
    if t == "int":
        return str(e[1]) if e[1] >= 0 else "(0 - %d)" % (-e[1])
    if t == "long":
        return "%dL" % e[1] if e[1] >= 0 else "(0L - %dL)" % (-e[1])
    if t == "float":
        return e[2]
    if t == "double":
        return e[2] + "d"
    if t == "char":
        return "'%s'" % chr(e[1])
    if t == "str":
        return str_lit(e[1])
    if t == "bool":
        return "true" if e[1] else "false"
    if t == "nil":
        return "nil"
    if t == "recnil":
        return e[1]
    if t == "var":
        return e[1]
    if t == "un":
        return "(%s%s)" % ({"neg": "-", "not": "!", "bnot": "~~~"}[e[1]], S(e[2]))
    if t == "bin":
        return "(%s %s %s)" % (S(e[2]), BINSRC[e[1]], S(e[3]))
    if t == "and":
        return "(%s && %s)" % (S(e[1]), S(e[2]))
    if t == "or":
        return "(%s || %s)" % (S(e[1]), S(e[2]))
    if t == "cond":
        style = e[4] if len(e) > 4 else "?:"
        if style == "?:":
            return "(%s ? %s : %s)" % (S(e[1]), S(e[2]), S(e[3]))
        if style == "ifnoelse":
            return "(if (%s) %s)" % (S(e[1]), S(e[2]))
        return "(if (%s) %s else %s)" % (S(e[1]), S(e[2]), S(e[3]))
    if t == "assign":
        return "(%s = %s)" % (S(e[1]), S(e[2]))
    if t == "seq":
        parts, prev_func = [], False
        ip = "    " * (ind + 1)
        for it in e[1]:
            if it[0] in ("let", "varb"):
                parts.append("%s %s = %s" % ("let" if it[0] == "let" else "var", it[1], expr_src(it[2], ind + 1)))
            elif it[0] == "funcs":
                for f in it[1]:
                    parts.append(func_src(f, ind + 1))
            else:
                parts.append(expr_src(it[1], ind + 1))
        return "{\n" + ";\n".join(ip + p for p in parts) + "\n" + pad + "}"
    if t == "while":
        return "(while (%s) %s)" % (S(e[1]), S(e[2]))
    if t == "dowhile":
        return "(do %s while (%s))" % (S(e[1]), S(e[2]))
    if t == "for":
        return "(for (%s; %s; %s) %s)" % (S(e[1]), S(e[2]), S(e[3]), S(e[4]))
    if t == "forin":
        return "(for (%s in %s) %s)" % (e[1], S(e[2]), S(e[3]))
    if t == "call":
        return "%s(%s)" % (S(e[1]) if e[1][0] == "var" else "(" + S(e[1]) + ")", ", ".join(S(a) for a in e[2]))
    if t == "builtin":
        if len(e) > 3 and e[3] == "pipe":
            return "(%s |> %s(%s))" % (pipe_left(e[2][0], ind), e[1], ", ".join(S(a) for a in e[2][1:]))
        return "%s(%s)" % (e[1], ", ".join(S(a) for a in e[2]))
    if t == "pipe":
        return "(%s |> %s(%s))" % (pipe_left(e[1], ind), S(e[2]) if e[2][0] == "var" else "(" + S(e[2]) + ")", ", ".join(S(a) for a in e[3]))
    if t == "lam":
        return "(let " + func_src(e[1], ind) + ")"
    if t == "arrlit":
        return "(" + nested_lit(e[1], e[3], ind) + " : " + ty_src(e[2]) + ")"
    if t == "arrnew":
        return "({[ %s ]} : %s)" % (", ".join(S(a) for a in e[2]), ty_src(e[1]))
    if t == "index":
        return "%s[%s]" % (S(e[1]) if e[1][0] in ("var", "index", "field", "slice", "range") else "(" + S(e[1]) + ")", ", ".join(S(a) for a in e[2]))
    if t == "record":
        return "%s(%s)" % (e[1], ", ".join(S(a) for a in e[2]))
    if t == "tuple":
        return "((%s%s) : (%s))" % (", ".join(S(a) for a in e[1]), "," if len(e[1]) == 1 else "", ", ".join(ty_src(x) for x in e[2]))
    if t == "field":
        return "%s.%s" % (S(e[1]) if e[1][0] in ("var", "index", "field", "call") else "(" + S(e[1]) + ")", e[2])
    if t == "enumval":
        return "%s::%s" % (e[1], e[2])
    if t == "enumrec":
        return "%s::%s(%s)" % (e[1], e[2], ", ".join(S(a) for a in e[3]))
    if t == "match":
        ip = "    " * (ind + 1)
        gs = []
        for g in e[2]:
            if g[0] == "gelse":
                gs.append(ip + "else -> " + expr_src(g[1], ind + 1) + ";")
            else:
                gs.append(ip + guard_src(g, ind) + " -> " + expr_src(g[-1], ind + 1) + ";")
        return "(match %s {\n%s\n%s})" % (S(e[1]), "\n".join(gs), pad)
    if t == "iflet":
        g = e[1]
        s = "(if let (%s = %s) %s" % (guard_src(g, ind), S(e[2]), S(g[-1]))
        if e[3] is not None:
            s += " else " + S(e[3])
        return s + ")"
    if t == "listcomp":
        qs = "; ".join(("%s in %s" % (q[1], S(q[2]))) if q[0] == "gen" else S(q[1]) for q in e[3])
        return "([ %s | %s ] : %s)" % (S(e[2]), qs, ty_src(e[1]))
    if t == "range":
        b = e[1]
        return "[ " + ", ".join("%s .. %s" % (S(b[2 * i]), S(b[2 * i + 1])) for i in range(len(b) // 2)) + " ]"
    if t == "slice":
        b = e[2]
        return "%s[ %s ]" % (S(e[1]) if e[1][0] in ("var", "index", "field", "slice", "range") else "(" + S(e[1]) + ")",
                             ", ".join("%s .. %s" % (S(b[2 * i]), S(b[2 * i + 1])) for i in range(len(b) // 2)))
    raise Unsupported("expression %s" % t)

def prog_src(prog):
    if isinstance(prog.get("source_override"), str):
        return prog["source_override"]       # linked programs (modules, top-level items): the real pipeline runs the original text
    out = []
    for n, items in prog["enums"]:
        its = []
        explicit = [x[1] for x in items] != list(range(len(items)))
        for it, val, fields in items:
            if fields is not None:
                its.append("%s { %s }" % (it, " ".join(param_src(dict(name=fld[0], ty=fld[1], dims=(fld[3] if len(fld) > 3 else []), mut=fld[2] if len(fld) > 2 else None)) + ";" for fld in fields)))
            else:
                its.append("%s = %s" % (it, val) if explicit else it)
        out.append("enum %s { %s }" % (n, ", ".join(its)))
    for n, fs in prog["recs"]:
        out.append("record %s { %s }" % (n, " ".join(param_src(dict(name=fld[0], ty=fld[1], dims=(fld[3] if len(fld) > 3 else []), mut=fld[2] if len(fld) > 2 else None)) + ";" for fld in fs)))
    for f in prog["funcs"]:
        out.append(func_src(f, 0))
    return "\n\n".join(out) + "\n"
