#!/bin/bash
# wave_stage.sh <property> <k: a|b|c> <new seed id> : copy a sub-agent's deliverable /tmp/seedw5/<property>/out/<k>/ into seeded/<id>/
p=$1; k=$2; id=$3; root=${4:-/tmp/seedw5}; src=$root/$p/out/$k; dst=/verif/seeded/$id
mkdir -p $dst && cp -r $src/. $dst/ && python3 - "$dst" "$id" "$p" <<'PY'
import json, sys, os
dst, sid, prop = sys.argv[1:4]
title = open(os.path.join(dst, "README.md")).readline().strip().lstrip("# ").strip() if os.path.exists(os.path.join(dst, "README.md")) else ""
meta = {"id": sid, "property": prop, "change": title, "needs_to_manifest": "see README.md (written by the seeding sub-agent)",
        "author": "independent sub-agent given only the property record and a scratch worktree", "confirmed_by": "PENDING confirmation", "confirmation": {}, "caught_by": [], "matrix": {}}
json.dump(meta, open(os.path.join(dst, "meta.json"), "w"), indent=1)
PY
ls $dst
