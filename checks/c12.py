"""C12 — array, range, slice and string indexing is bounds-checked and exact."""
from common import *
import idx_corr
PROP_MODULE = "NeverModel.Props.C12"
REQUIRED = ["Never.Idx.rowmajor_exact", "Never.Idx.rowmajor_oob", "Never.Idx.rowmajor_injective", "Never.Idx.range_denotation_partial", "Never.Idx.range_denotation",
            "Never.Idx.slice_of_slice", "Never.Idx.slice_deref_exact_partial", "Never.Idx.string_index", "Never.Idx.slice_string",
            "Never.Idx.shape_conformance", "Never.Idx.deref_negative_rejected"]

def check(tier, seed):
    rep = Report("C12", tier, seed, "proof")
    proof_stage(rep, PROP_MODULE, required=REQUIRED)
    res = idx_corr.run_correspondence(rep, tier, seed)
    # source level: the same denotations through the WHOLE pipeline (parser, emitter's stack-level bookkeeping between the
    # dimensions, handlers): ranges / slices / slices of slices of 2 and 3 dimensions whose bounds are variables; every
    # denoted element and one position beyond each end; expectations computed by progs.denote_family from the denotation
    import vm_checks
    src_level = vm_checks.expectation_stage(rep, tier, seed, "idxsrc", want=lambda meta: meta.get("idx"))
    rep.cov.update(trusted_base=["Lean 4.33 kernel", "axioms: propext, Classical.choice, Quot.sound", "h_idx.c harness + idx_corr.py spec oracle", "gcc/ASan"],
                   evaluations=res["ops"], distinct_nontrivial=res["ops"], exhaustive=True,
                   rule="exhaustive small scope (dims<=2/3, extents<=3/4, indices -2..ext+1; all range compositions over a window; strings<=6) + seeded large shapes; each op distinct by construction",
                   samples=res["samples"], source_level_programs=src_level, index=dict((k, v) for k, v in res.items() if k != "samples"))
    rep.assumptions = ["composed range bounds are computed over the integers in the model and in 64 bits in vm_get_slice_range (repo fix b3c4919): exact for every int input", "element-wise/matrix arithmetic bodies are not modelled here, only their shape guards"]
    return rep.finish()

def replay(path):
    print(open(path).read()); return 0
