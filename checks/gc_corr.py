"""Correspondence M-Heap (Lean, `nmdrv gc`) <-> back/gc.c (harness/h_gc.c).

Histories are generated *interactively against the implementation*: after every
operation the generator reads I's state line and picks the next operation from the
cells that are really allocated there (so stores stay well-typed without a third model
of the allocator).  The same operation list is then replayed through the Lean driver
and the two answer streams are compared line by line (strict: free-list order, list
order, marks, stale `next` words, payloads).  Independently the S-level oracle
(Inv + exact collection + payload preservation) is evaluated on I's own states."""
import os, subprocess, sys
from common import *
import buildimpl

def parse_state(line):
    # "<tag> st free=.. w=.. wb0=.. wb1=.. | c0 c1 .."
    try:
        head, cells = line.split(" | ", 1) if " | " in line else (line.rstrip(" |"), "")
        toks = head.split()
        i = toks.index("st")
        kv = dict(t.split("=", 1) for t in toks[i + 1:])
        lst = lambda s: [x for x in s.split(",") if x != ""]
        st = dict(tag=" ".join(toks[:i]), free=lst(kv["free"]), w=int(kv["w"]),
                  wb0=[int(x) for x in lst(kv["wb0"])], wb1=[int(x) for x in lst(kv["wb1"])], cells=[])
        for c in cells.split():
            mn, obj = c.split(":", 1)
            m, n = mn.split("/")
            st["cells"].append((int(m), int(n), obj))
        return st
    except Exception:
        return None

def obj_refs(o):
    k = o[0]
    if k in "RWB":
        return [int(o[1:])]
    if k == "V":
        return [int(x) for x in o[1:].split(",") if x]
    if k == "A":
        return [int(x) for x in o.split(";", 1)[1].split(",") if x]
    if k == "U":
        return [int(o[1:].split("@")[0])]
    return []

def reach(st, roots):
    seen, todo = set(), [r for r in roots]
    n = len(st["cells"])
    while todo:
        a = todo.pop()
        if a == 0 or a in seen or a >= n or st["cells"][a][2] == "-":
            continue
        seen.add(a)
        todo.extend(obj_refs(st["cells"][a][2]))
    return seen

def inv_violations(st):
    """the S-level invariant of C09 evaluated on a state line"""
    bad = []
    n = len(st["cells"])
    alloc = {i for i, c in enumerate(st["cells"]) if c[2] != "-"}
    free = st["free"]
    if any((not x.isdigit()) for x in free):
        bad.append("free chain leaves the heap: %s" % free); return bad
    free = [int(x) for x in free]
    if 0 in free:
        bad.append("free chain is cyclic")
    if len(set(free)) != len(free):
        bad.append("free chain has duplicates")
    if set(free) & alloc:
        bad.append("cells both free and allocated: %s" % sorted(set(free) & alloc))
    cur, oth = (st["wb1"], st["wb0"]) if st["w"] else (st["wb0"], st["wb1"])
    if len(set(cur)) != len(cur):
        bad.append("allocated list has duplicates")
    if set(cur) != alloc:
        bad.append("allocated list %s != cells holding an object %s" % (sorted(cur), sorted(alloc)))
    if oth:
        bad.append("other list not empty")
    lost = set(range(1, n)) - set(free) - alloc
    if lost:
        bad.append("cells lost from both lists: %s" % sorted(lost))
    if 0 in alloc:
        bad.append("nil cell allocated")
    if any(c[0] for c in st["cells"]):
        bad.append("mark left set")
    return bad

class Impl:
    def __init__(self, exe):
        env = dict(os.environ, ASAN_OPTIONS="detect_leaks=0:abort_on_error=0", UBSAN_OPTIONS="print_stacktrace=1")
        self.p = subprocess.Popen([exe], stdin=subprocess.PIPE, stdout=subprocess.PIPE, stderr=subprocess.PIPE, text=True, env=env, bufsize=1)
        self.dead = False
    def send(self, op):
        if self.dead:
            return "crash"
        try:
            self.p.stdin.write(op + "\n"); self.p.stdin.flush()
            line = self.p.stdout.readline()
        except BrokenPipeError:
            line = ""
        if not line:
            self.dead = True
            return "crash"
        return line.rstrip("\n")
    def close(self):
        err = ""
        try:
            self.p.stdin.close()
            err = self.p.stderr.read()
            self.p.wait(timeout=10)
        except Exception:
            self.p.kill()
        return err

def run_impl(exe, ops):
    im = Impl(exe)
    out = []
    for op in ops:
        l = im.send(op)
        out.append(l)
        if l == "crash":
            break
    err = im.close()
    return out, err

def run_model(ops):
    r = subprocess.run([NMDRV, "gc"], input="\n".join(ops) + "\n", stdout=subprocess.PIPE, stderr=subprocess.PIPE, text=True)
    out = []
    for l in r.stdout.split("\n"):
        if l == "":
            continue
        out.append(l)
        if l == "crash":
            break
    return out

KINDS = [("int", 6), ("long", 2), ("float", 2), ("double", 2), ("char", 2), ("str", 4), ("strref", 4), ("cptr", 1),
         ("vec", 10), ("vecref", 5), ("arr", 8), ("arrref", 4), ("func", 6)]

def gen_history(rng, exe, heap, nops, stats):
    """returns (ops, impl_lines, s_failures)"""
    im = Impl(exe)
    ops, lines, sfail = [], [], []
    def do(op):
        ops.append(op)
        l = im.send(op)
        lines.append(l)
        return l
    l = do("new %d" % heap)
    st = parse_state(l)
    for _ in range(nops):
        if st is None or im.dead:
            break
        cells = st["cells"]
        by = {}
        for i, c in enumerate(cells):
            if c[2] != "-":
                by.setdefault(c[2][0], []).append(i)
        allocd = [i for i, c in enumerate(cells) if c[2] != "-"]
        anyref = lambda: rng.choice(allocd) if allocd and not rng.chance(0.15) else 0
        kindref = lambda k: rng.choice(by[k]) if by.get(k) and not rng.chance(0.15) else 0
        what = rng.weighted([("alloc", 50), ("store", 25), ("collect", 10), ("omfalos", 3), ("run", 10), ("wants", 1), ("sweep", 0)])
        pre = st
        roots = None
        if what == "alloc":
            k = rng.weighted(KINDS)
            if k == "int": op = "alloc int %d" % rng.choice([0, 1, -1, 2147483647, -2147483648, rng.range(-1000, 1000)])
            elif k == "long": op = "alloc long %d" % rng.choice([0, -1, 9223372036854775807, -9223372036854775808, rng.range(-10**12, 10**12)])
            elif k == "float": op = "alloc float %d" % rng.choice([0, 0x3f800000, 0x7f800000, 0x7fc00000, 0x80000000, rng.below(1 << 32)])
            elif k == "double": op = "alloc double %d" % rng.choice([0, 0x3ff0000000000000, 0x7ff0000000000000, rng.below(1 << 64)])
            elif k == "char": op = "alloc char %d" % rng.range(-128, 127)
            elif k == "str": op = ("alloc str " + "".join("%02x" % rng.range(1, 255) for _ in range(rng.below(5)))).rstrip()
            elif k == "strref": op = "alloc strref %d" % kindref("S")
            elif k == "cptr": op = "alloc cptr"
            elif k == "vec": op = "alloc vec %d" % rng.below(5)
            elif k == "vecref": op = "alloc vecref %d" % kindref("V")
            elif k == "arr": op = "alloc arr " + " ".join(str(rng.below(4)) for _ in range(rng.range(1, 3)))
            elif k == "arrref": op = "alloc arrref %d" % kindref("A")
            else: op = "alloc func %d %d" % (kindref("V"), rng.below(1000))
            stats["alloc " + k] = stats.get("alloc " + k, 0) + 1
        elif what == "store":
            cands = []
            for i in by.get("V", []):
                nf = len(obj_refs(cells[i][2]))
                if nf: cands.append("setvec %d %d %d" % (i, rng.below(nf), anyref()))
            for i in by.get("A", []):
                ne = len(obj_refs(cells[i][2]))
                if ne: cands.append("setarr %d %d %d" % (i, rng.below(ne), anyref()))
                if cells[i][2].count("x") == 0 and "*" in cells[i][2]: cands.append("append %d %d" % (i, anyref()))
            for i in by.get("U", []): cands.append("setfuncvec %d %d" % (i, kindref("V")))
            for i in by.get("W", []): cands.append("setvecref %d %d" % (i, kindref("V")))
            for i in by.get("B", []): cands.append("setarrref %d %d" % (i, kindref("A")))
            for i in by.get("R", []): cands.append("setstrref %d %d" % (i, kindref("S")))
            if not cands:
                continue
            op = rng.choice(cands)
            stats[op.split()[0]] = stats.get(op.split()[0], 0) + 1
        elif what in ("collect", "omfalos", "run"):
            p = rng.choice([0.0, 0.1, 0.3, 0.6, 1.0])
            slots, roots = [], []
            for a in allocd:
                if rng.chance(p):
                    slots.append("a:%d" % a); roots.append(a)
            for _ in range(rng.below(4)):
                slots.append(rng.choice(["u", "a:0", "i:%d" % rng.below(50), "s:%d" % rng.range(-1, 40)]))
            # rarely: a root naming a free cell (the collector must ignore it)
            freec = [int(x) for x in st["free"] if x.isdigit()]
            if freec and rng.chance(0.05):
                slots.append("a:%d" % rng.choice(freec))
            # shuffle
            for i in range(len(slots) - 1, 0, -1):
                j = rng.below(i + 1); slots[i], slots[j] = slots[j], slots[i]
            if what in ("collect", "run"):
                gp = kindref("V") if rng.chance(0.7) else anyref()
                if gp: roots.append(gp)
                op = "%s %d %s" % (what, gp, " ".join(slots))
            else:
                op = "omfalos " + " ".join(slots)
            op = op.rstrip()
            stats[what] = stats.get(what, 0) + 1
        elif what == "wants":
            op = "wants"
        else:
            op = "sweep"
        l = do(op)
        if l.startswith("wants") or l == "crash":
            continue
        st2 = parse_state(l)
        if st2 is None:
            sfail.append((len(ops) - 1, "unparsable state: " + l[:200])); break
        bad = inv_violations(st2)
        if what == "run" and not bad:
            npre = len([1 for c in pre["cells"] if c[2] != "-"])
            unchanged = (st2["cells"] == pre["cells"] and st2["free"] == pre["free"] and st2["w"] == pre["w"])
            if unchanged:
                roots = None
                if not (5 * npre < 4 * len(pre["cells"])):
                    bad.append("gc_run did not collect although %d of %d cells are allocated (>= 80%%): bounded live data can exhaust the heap" % (npre, len(pre["cells"])))
                stats["run_skipped"] = stats.get("run_skipped", 0) + 1
            else:
                stats["run_collected"] = stats.get("run_collected", 0) + 1
        if roots is not None and not bad:
            want = reach(pre, roots)
            got = {i for i, c in enumerate(st2["cells"]) if c[2] != "-"}
            if got != want:
                if want - got: bad.append("reachable cells reclaimed: %s" % sorted(want - got))
                if got - want: bad.append("garbage not reclaimed: %s" % sorted(got - want))
            for a in want & got:
                if pre["cells"][a][2] != st2["cells"][a][2]:
                    bad.append("reachable cell %d altered: %s -> %s" % (a, pre["cells"][a][2], st2["cells"][a][2]))
            if roots: stats["collections_with_survivors"] = stats.get("collections_with_survivors", 0) + (1 if want else 0)
            stats["cells_reclaimed"] = stats.get("cells_reclaimed", 0) + len({i for i, c in enumerate(pre["cells"]) if c[2] != "-"} - want)
        if l.startswith("oom"):
            stats["oom"] = stats.get("oom", 0) + 1
        if bad:
            sfail.append((len(ops) - 1, "; ".join(bad)))
        st = st2
    err = im.close()
    return ops, lines, sfail, err

def edge_histories(exe):
    """Directed histories, one per (root kind, holder, chain of reference kinds, leaf kind): the ONLY path from the roots to the
    leaf goes through that holder and those references.  Collect twice with allocations in between (a cell reclaimed by mistake is
    handed out again and its payload changes).  The random generator reaches such shapes only by luck; a marker that skips one edge
    kind (array element -> string reference -> string, function -> environment, vector reference inside an array …) shows on the
    first of these.  Addresses are learnt from I's own state lines."""
    out = []
    leaves = [("int", "alloc int 7"), ("str", "alloc str 6869"), ("double", "alloc double 4607182418800017408"), ("cptr", "alloc cptr"),
              ("emptyarr", "alloc arr 0"), ("emptyvec", "alloc vec 0"), ("emptystr", "alloc str")]
    chains = [[], ["strref"], ["vecref"], ["arrref"], ["func"], ["vec"], ["arr"], ["vecref", "vec"], ["arr", "strref"], ["vec", "arrref"], ["func", "arr"], ["arr", "arr"], ["vec", "func"]]
    for holder in ("vec", "arr", "arr2"):
        for chain in chains:
            for lname, lop in leaves:
                if chain and chain[-1] == "strref" and lname != "str":
                    continue
                for rootkind in ("slot", "gp"):
                    if rootkind == "gp" and holder != "vec":
                        continue
                    im = Impl(exe)
                    ops = []
                    def do(op):
                        ops.append(op)
                        return parse_state(im.send(op))
                    st = do("new 40")
                    def alloc(op, st0):
                        st1 = do(op)
                        if st0 is None or st1 is None:
                            return None, st1
                        a0 = {i for i, c in enumerate(st0["cells"]) if c[2] != "-"}
                        a1 = {i for i, c in enumerate(st1["cells"]) if c[2] != "-"}
                        d = sorted(a1 - a0)
                        return (d[0] if d else None), st1
                    ok = True
                    cur, st = alloc(lop, st)
                    # build the chain from the leaf outwards
                    for k in reversed(chain):
                        if cur is None: ok = False; break
                        if k == "strref": cur, st = alloc("alloc strref %d" % cur, st)
                        elif k == "vecref":
                            v, st = alloc("alloc vec 2", st); st = do("setvec %d 1 %d" % (v, cur)); cur, st = alloc("alloc vecref %d" % v, st)
                        elif k == "arrref":
                            a, st = alloc("alloc arr 2", st); st = do("setarr %d 0 %d" % (a, cur)); cur, st = alloc("alloc arrref %d" % a, st)
                        elif k == "func":
                            v, st = alloc("alloc vec 1", st); st = do("setvec %d 0 %d" % (v, cur)); cur, st = alloc("alloc func %d 17" % v, st)
                        elif k == "vec":
                            v, st = alloc("alloc vec 3", st); st = do("setvec %d 2 %d" % (v, cur)); cur = v
                        elif k == "arr":
                            a, st = alloc("alloc arr 3", st); st = do("setarr %d 0 %d" % (a, cur)); st = do("setarr %d 1 %d" % (a, cur)); cur = a
                    if not ok or cur is None or st is None:
                        im.close(); continue
                    if holder == "vec":
                        h, st = alloc("alloc vec 2", st); st = do("setvec %d 1 %d" % (h, cur))
                    elif holder == "arr":
                        # every slot of the array holds the reference (arrays are homogeneous in real programs; a marker that
                        # looks at the first element to decide how to treat the rest must still follow it)
                        h, st = alloc("alloc arr 2", st); st = do("setarr %d 0 %d" % (h, cur)); st = do("setarr %d 1 %d" % (h, cur))
                    else:
                        h, st = alloc("alloc arr 2 2", st); st = do("setarr %d 3 %d" % (h, cur))
                    if h is None:
                        im.close(); continue
                    for g in range(3):
                        do("alloc int %d" % (900 + g))
                    root = ("collect %d" % h) if rootkind == "gp" else ("collect 0 u a:%d i:5" % h)
                    do(root)
                    for g in range(6):
                        do("alloc str 7a7a")
                    do(root)
                    do("collect 0")
                    im.close()
                    out.append(("edge:%s:%s:%s:%s" % (rootkind, holder, "-".join(chain) or "direct", lname), ops))
    # an array with MORE slots than the heap has cells: the leading slots all alias one container that is reachable only through
    # the array, the trailing slots hold the only references to other cells (a marker with a work list sized by the number of
    # cells, or one that counts visits, drops the tail)
    for (heap, dims) in ((24, "60"), (20, "8 8"), (32, "5 5 4")):
        nslots = 1
        for d in dims.split():
            nslots *= int(d)
        im = Impl(exe)
        ops = []
        def do(op):
            ops.append(op)
            return parse_state(im.send(op))
        def alloc(op, st0):
            st1 = do(op)
            if st0 is None or st1 is None:
                return None, st1
            a0 = {i for i, c in enumerate(st0["cells"]) if c[2] != "-"}
            d = sorted({i for i, c in enumerate(st1["cells"]) if c[2] != "-"} - a0)
            return (d[0] if d else None), st1
        st = do("new %d" % heap)
        inner, st = alloc("alloc int 5", st)
        shared, st = alloc("alloc vec 2", st)
        st = do("setvec %d 1 %d" % (shared, inner))
        leaves = []
        for g in range(4):
            l, st = alloc("alloc str %02x%02x" % (0x61 + g, 0x61 + g), st)
            leaves.append(l)
        arr, st = alloc("alloc arr " + dims, st)
        if None not in (inner, shared, arr) and None not in leaves:
            for e in range(nslots - len(leaves)):
                do("setarr %d %d %d" % (arr, e, shared))
            for g, l in enumerate(leaves):
                do("setarr %d %d %d" % (arr, nslots - len(leaves) + g, l))
            do("alloc int 901"); do("alloc int 902")
            do("collect 0 a:%d" % arr)
            for g in range(5):
                do("alloc str 7a7a")
            do("collect 0 a:%d" % arr)
            do("collect 0")
            out.append(("edge:wide-aliasing-array:%d:%s" % (heap, dims.replace(" ", "x")), ops))
        im.close()
    return out

def first_divergence(a, b):
    for i in range(max(len(a), len(b))):
        x = a[i] if i < len(a) else "<no line>"
        y = b[i] if i < len(b) else "<no line>"
        if x != y:
            return i, x, y
    return None

def s_check_ops(exe, ops):
    """replay ops on I and evaluate the S-level oracle; returns first failure text or None"""
    out, err = run_impl(exe, ops)
    pre = None
    for i, (op, l) in enumerate(zip(ops, out)):
        if l == "crash":
            return None
        if l.startswith("wants"):
            continue
        st = parse_state(l)
        if st is None:
            return "op %d: unparsable" % i
        bad = inv_violations(st)
        w = op.split()
        if w[0] == "run" and pre is not None and st["cells"] == pre["cells"] and st["free"] == pre["free"] and st["w"] == pre["w"]:
            npre = len([1 for c in pre["cells"] if c[2] != "-"])
            if not (5 * npre < 4 * len(pre["cells"])):
                bad.append("gc_run did not collect at >= 80% occupancy")
        elif w[0] in ("collect", "omfalos", "run") and pre is not None:
            roots = [int(s[2:]) for s in w[1:] if s.startswith("a:")]
            if w[0] in ("collect", "run") and int(w[1]) > 0:
                roots.append(int(w[1]))
            want = reach(pre, roots)
            got = {j for j, c in enumerate(st["cells"]) if c[2] != "-"}
            if want - got: bad.append("reachable cells reclaimed: %s" % sorted(want - got))
            if got - want: bad.append("garbage not reclaimed: %s" % sorted(got - want))
            for a in want & got:
                if pre["cells"][a][2] != st["cells"][a][2]:
                    bad.append("reachable cell %d altered" % a)
        if bad:
            return "op %d (%s): %s" % (i, op, "; ".join(bad))
        pre = st
    return None

def shrink(ops, still_fails, budget=150):
    """greedy delta debugging on the op list (keeps op 0 = new)"""
    cur = list(ops)
    n = 2
    while len(cur) > 2 and budget > 0:
        chunk = max(1, (len(cur) - 1) // n)
        removed = False
        i = 1
        while i < len(cur) and budget > 0:
            cand = cur[:i] + cur[i + chunk:]
            budget -= 1
            if len(cand) >= 1 and still_fails(cand):
                cur = cand; removed = True
            else:
                i += chunk
        if not removed:
            if chunk == 1:
                break
            n *= 2
    return cur

def run_correspondence(rep, tier, seed, pid_filter=None):
    """returns dict of stats; reports violations through rep"""
    info = buildimpl.build("asan")
    d = scratch_dir("gc")
    exe = buildimpl.link_harness(info, os.path.join(VERIF, "harness", "h_gc.c"), os.path.join(d, "h_gc"), ["-Wl,--wrap=exit"])
    rng = Rng(seed)
    stats, samples = {}, []
    nhist = 400 if tier == "quick" else 12000
    heaps = [1, 2, 3, 4, 5, 6, 8, 12, 16, 24, 32, 64]
    total_ops = diverged = sviol = 0
    distinct = set()
    # corpus first
    corpus_dir = os.path.join(VERIF, "corpus", "gc")
    histories = []
    if os.path.isdir(corpus_dir):
        for f in sorted(os.listdir(corpus_dir)):
            histories.append(("corpus:" + f, [l.strip() for l in open(os.path.join(corpus_dir, f)) if l.strip() and not l.startswith("#")]))
    edges = edge_histories(exe)
    stats["edge_histories"] = len(edges)
    histories += edges
    for name, ops in histories:
        il, err = run_impl(exe, ops)
        ml = run_model(ops)
        dv = first_divergence(il, ml)
        sf = s_check_ops(exe, ops)
        total_ops += len(ops)
        if sf:
            sviol += 1
            rep.violation("corpus_" + name, "# S-level failure on I: %s\n%s" % (sf, "\n".join(ops)), True)
        elif dv:
            diverged += 1
            rep.violation("corpus_div_" + name, "# correspondence M-Heap<->gc.c broken at op %d\n# I: %s\n# M: %s\n%s" % (dv[0], dv[1][:300], dv[2][:300], "\n".join(ops)), False)
    for h in range(nhist):
        r = rng.fork()
        heap = r.choice(heaps) if not r.chance(0.02) else 5000
        nops = r.range(5, 60) if heap != 5000 else r.range(5, 25)
        ops, il, sfail, err = gen_history(r, exe, heap, nops, stats)
        total_ops += len(ops)
        distinct.add(hash(tuple(ops)))
        if len(samples) < 3 and len(ops) > 8:
            samples.append(ops[:14])
        ml = run_model(ops)
        dv = first_divergence(il, ml)
        if sfail:
            sviol += 1
            fails = lambda cand: s_check_ops(exe, cand) is not None
            small = shrink(ops[:sfail[0][0] + 1], fails)
            rep.violation("gc_hist_s_%d" % h, "# property fails on the implementation (S-level oracle on I's own state)\n# %s\n# replay: feed these lines to harness/h_gc (built against /repo)\n%s" % (s_check_ops(exe, small), "\n".join(small)), True)
            if sviol >= 3: break
        elif dv:
            diverged += 1
            def fails(cand):
                a, _ = run_impl(exe, cand); b = run_model(cand)
                return first_divergence(a, b) is not None
            small = shrink(ops[:dv[0] + 1], fails)
            a, e2 = run_impl(exe, small); b = run_model(small)
            dv2 = first_divergence(a, b)
            # hunt: does the property itself fail nearby? (S oracle on small, on the full history, and on fresh histories)
            sf = s_check_ops(exe, small) or s_check_ops(exe, ops)
            crash = (a and a[-1] == "crash" and (not b or b[-1] != "crash"))
            txt = "# correspondence M-Heap<->gc.c broken at op %d\n# I: %s\n# M: %s\n# stderr(I): %s\n%s" % (dv2[0] if dv2 else -1, (dv2[1] if dv2 else "")[:400], (dv2[2] if dv2 else "")[:400], e2[-600:].replace("\n", "\n# "), "\n".join(small))
            if sf or crash:
                rep.violation("gc_hist_div_%d" % h, "# property fails: %s\n%s" % (sf or "implementation crashes on a well-typed history", txt), True)
            else:
                rep.violation("gc_hist_div_%d" % h, "# theorem ties broken: NeverModel.Model.Heap no longer mirrors back/gc.c; no property failure found on I\n" + txt, False)
            if diverged >= 3: break
    stats.update(histories=nhist, ops=total_ops, diverged=diverged, s_failures=sviol)
    shutil_rm(d)
    return dict(stats=stats, samples=samples, distinct=len(distinct), total_ops=total_ops, histories=nhist)

def shutil_rm(d):
    import shutil
    shutil.rmtree(d, ignore_errors=True)
