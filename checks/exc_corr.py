"""Correspondence M-ExcTab (Lean) <-> back/exctab.c on seeded tables (sorted = as the emitter
builds them, and arbitrary = soundness side), plus the S-level oracle (linear scan)."""
import os, subprocess
from common import *
import buildimpl

def gen_table(rng, sorted_=True):
    n = rng.choice([1, 1, 2, 3, 4, 5, 7, 8, 16, 33, 100]) if rng.chance(0.9) else rng.range(1, 400)
    if sorted_:
        step = rng.choice([1, 2, 5, 50, 100000])
        b, blocks = 0, []
        for i in range(n):
            blocks.append(b)
            b += rng.range(1, step + 1)
        top = blocks[-1]
    else:
        blocks = [rng.below(60) for _ in range(n)]
        top = 60
    hs = [rng.below(100000) for _ in range(n)]
    return blocks, hs, top

def s_lookup(blocks, hs, ip):
    """the specification: the unique i with block_i <= ip < block_{i+1} (sentinel UINT_MAX)"""
    ext = blocks + [4294967295]
    hits = [i for i in range(len(blocks)) if ext[i] <= ip < ext[i + 1]]
    return hits

def run_correspondence(rep, tier, seed):
    info = buildimpl.build("asan")
    d = scratch_dir("exc")
    exe = buildimpl.link_harness(info, os.path.join(VERIF, "harness", "h_exc.c"), os.path.join(d, "h_exc"))
    rng = Rng(seed)
    ntab = 300 if tier == "quick" else 30000
    lines, meta = [], []
    # exhaustive small scope (thorough): all sorted tables with <= 4 blocks over addresses <= 7
    tables = []
    if tier == "thorough":
        import itertools
        for n in range(1, 5):
            for rest in itertools.combinations(range(1, 8), n - 1):
                tables.append(([0] + list(rest), list(range(100, 100 + n)), 8, True))
    for t in range(ntab):
        r = rng.fork()
        srt = not r.chance(0.2)
        b, h, top = gen_table(r, srt)
        tables.append((b, h, top, srt))
    for (b, h, top, srt) in tables:
        lines.append("tab " + " ".join("%d:%d" % x for x in zip(b, h)))
        meta.append(None)
        qs = set([0, 1, top, top + 1, 4294967294, 4294967295] + b + [x - 1 for x in b if x > 0] + [x + 1 for x in b])
        r2 = Rng(len(lines) + seed)
        for _ in range(6):
            qs.add(r2.below(top + 3))
        for q in sorted(qs):
            lines.append("q %d" % q)
            meta.append((b, h, q, srt))
    inp = "\n".join(lines) + "\n"
    env = dict(os.environ, ASAN_OPTIONS="detect_leaks=0")
    pi = subprocess.run([exe], input=inp, stdout=subprocess.PIPE, stderr=subprocess.PIPE, text=True, env=env)
    pm = subprocess.run([NMDRV, "exc"], input=inp, stdout=subprocess.PIPE, stderr=subprocess.PIPE, text=True)
    il, ml = pi.stdout.split("\n"), pm.stdout.split("\n")
    nq = div = sviol = 0
    samples = []
    for i, (op, m) in enumerate(zip(lines, meta)):
        a = il[i] if i < len(il) and il[i] != "" else "crash"
        bm = ml[i] if i < len(ml) else "<none>"
        if m is None:
            cur = op
            continue
        nq += 1
        b, h, q, srt = m
        if len(samples) < 3 and nq % 97 == 5:
            samples.append(dict(table=cur[:120], query=q, impl=a, model=bm))
        # S-level on I (sorted tables only: the property's tables)
        if srt:
            hits = s_lookup(b, h, q)
            want = ("h %d" % h[hits[0]]) if hits else "null"
            if a != want:
                sviol += 1
                if sviol <= 3:
                    rep.violation("exc_s_%d" % i, "# exception-table lookup wrong on I\n# expected %s got %s\n%s\nq %d" % (want, a, cur, q), True)
                continue
        if a != bm:
            div += 1
            if div <= 3:
                rep.violation("exc_div_%d" % i, "# correspondence M-ExcTab<->exctab.c broken (theorems of Props/C03 part 1 no longer tied)\n# I: %s\n# M: %s\n# stderr: %s\n%s\nq %d" % (a, bm, pi.stderr[-400:].replace("\n", "\n# "), cur, q), a == "crash")
    import shutil; shutil.rmtree(d, ignore_errors=True)
    return dict(tables=len(tables), queries=nq, diverged=div, s_failures=sviol, samples=samples,
                exhaustive_small_scope=(tier == "thorough"))
