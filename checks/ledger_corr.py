"""Correspondence M-Ledger (Lean, `nmdrv ledger`) <-> back/gc.c + back/object.c
(harness/h_gcl.c = h_gc + a malloc/free counting shim).

Histories come from gc_corr's generator (interactive against the implementation), each is
closed with `delete` (gc_delete).  Compared per operation: the number of malloc events,
the number of free events, the number of live blocks — and the whole collector state, as
in C09.  Independently of the model (S-level, on I alone): after `delete` no block is
live, and ASan reports no double free / use after free; LeakSanitizer checks the harness
process at exit."""
import os, re, subprocess
from common import *
import buildimpl, gc_corr

WRAP = ["-Wl,--wrap=malloc,--wrap=free,--wrap=realloc,--wrap=calloc,--wrap=strdup,--wrap=exit"]
LED = re.compile(r" mal=(-?\d+) fre=(-?\d+) live=(-?\d+)")

def build_harness(d):
    info = buildimpl.build("asan")
    return buildimpl.link_harness(info, os.path.join(VERIF, "harness", "h_gcl.c"), os.path.join(d, "h_gcl"), WRAP)

def run_model(ops):
    r = subprocess.run([NMDRV, "ledger"], input="\n".join(ops) + "\n", stdout=subprocess.PIPE, stderr=subprocess.PIPE, text=True)
    return [l for l in r.stdout.split("\n") if l != ""]

def run_impl(exe, ops, leaks=True):
    env = dict(os.environ, ASAN_OPTIONS="detect_leaks=%d:abort_on_error=0" % (1 if leaks else 0), UBSAN_OPTIONS="print_stacktrace=1")
    r = subprocess.run([exe], input="\n".join(ops) + "\n", stdout=subprocess.PIPE, stderr=subprocess.PIPE, text=True, env=env)
    out = [l for l in r.stdout.split("\n") if l != ""]
    return out, r.stderr, r.returncode

def ledger_of(line):
    m = LED.search(line)
    return tuple(int(x) for x in m.groups()) if m else None

def strip_ledger(line):
    return LED.sub("", line)

def compare(il, ml):
    """-> None or (index, kind, impl_line, model_line); kind = 'ledger' | 'state'"""
    for i in range(max(len(il), len(ml))):
        x = il[i] if i < len(il) else "<no line>"
        y = ml[i] if i < len(ml) else "<no line>"
        if x == y:
            continue
        if strip_ledger(x) == strip_ledger(y):
            return i, "ledger", x, y
        return i, "state", x, y
    return None

def s_level(ops, il, err, rc):
    """the property's own observable on I: returns a failure text or None"""
    if "AddressSanitizer" in err and "LeakSanitizer" not in err.split("AddressSanitizer")[0][-200:]:
        m = re.search(r"ERROR: AddressSanitizer: ([a-z-]+)", err)
        if m:
            return "AddressSanitizer: %s" % m.group(1)
    if "LeakSanitizer: detected memory leaks" in err:
        return "LeakSanitizer: blocks left after gc_delete"
    if ops and ops[-1] == "delete" and len(il) == len(ops):
        led = ledger_of(il[-1])
        if led is None or led[2] != 0:
            return "after gc_delete %s block(s) of the collector are still allocated" % (led[2] if led else "?")
    if any(ledger_of(l) and ledger_of(l)[2] < 0 for l in il):
        return "more frees than mallocs"
    return None

def run_correspondence(rep, tier, seed):
    d = scratch_dir("ledger")
    exe = build_harness(d)
    rng = Rng(seed ^ 0xC16)
    stats = {}
    nhist = 300 if tier == "quick" else 6000
    heaps = [2, 3, 4, 5, 6, 8, 12, 16, 24, 32, 64]
    total_ops = frees = mallocs = collections_freeing = ooms = 0
    bad_state = bad_ledger = sviol = 0
    samples = []
    distinct = set()
    hists = []
    corpus_dir = os.path.join(VERIF, "corpus", "ledger")
    if os.path.isdir(corpus_dir):
        for f in sorted(os.listdir(corpus_dir)):
            hists.append(("corpus:" + f, [l.strip() for l in open(os.path.join(corpus_dir, f)) if l.strip() and not l.startswith("#")]))
    for h in range(nhist):
        r = rng.fork()
        heap = r.choice(heaps) if not r.chance(0.02) else 5000
        nops = r.range(5, 60) if heap != 5000 else r.range(5, 25)
        ops, _il, _sf, _err = gc_corr.gen_history(r, exe, heap, nops, stats)
        ops = [o for o in ops if o != "sweep"] + ["delete"]
        hists.append(("h%d" % h, ops))
    for name, ops in hists:
        il, err, rc = run_impl(exe, ops)
        ml = run_model(ops)
        total_ops += len(ops)
        distinct.add(hash(tuple(ops)))
        for l in il:
            led = ledger_of(l)
            if led:
                mallocs += led[0]; frees += led[1]
                if led[1] and not l.startswith("deleted"):
                    collections_freeing += 1
            if l.startswith("oom"):
                ooms += 1
        if len(samples) < 2 and len(ops) > 8:
            samples.append([strip_ledger(o) for o in ops[:10]] + [il[-1] if il else ""])
        sf = s_level(ops, il, err, rc)
        cmpd = compare(il, ml)
        if sf:
            sviol += 1
            def fails(c):
                a, e, rc2 = run_impl(exe, c if c[-1:] == ["delete"] else c + ["delete"])
                return s_level(c if c[-1:] == ["delete"] else c + ["delete"], a, e, rc2) is not None
            small = gc_corr.shrink(ops, fails, budget=80)
            if small[-1:] != ["delete"]:
                small = small + ["delete"]
            a, e, rc2 = run_impl(exe, small)
            rep.violation("ledger_s_" + name, "# property fails on the implementation: %s\n# replay: feed these lines to harness/h_gcl (built against /repo; see checks/ledger_corr.py)\n# stderr(I): %s\n%s" %
                          (s_level(small, a, e, rc2) or sf, e[-1500:].replace("\n", "\n# "), "\n".join(small)), True)
        elif cmpd:
            i, kind, x, y = cmpd
            if kind == "ledger":
                bad_ledger += 1
            else:
                bad_state += 1
            def fails(c):
                a, e, rc2 = run_impl(exe, c, leaks=False); b = run_model(c)
                return compare(a, b) is not None
            small = gc_corr.shrink(ops[:i + 1], fails, budget=80)
            a, e, rc2 = run_impl(exe, small, leaks=False); b = run_model(small)
            c2 = compare(a, b)
            what = ("malloc/free events of gc.c/object.c differ from M-Ledger (blocksOf / Gc.events no longer mirror object_new_*/object_delete/gc_sweep_all/gc_delete)"
                    if kind == "ledger" else "collector state differs from M-Heap (see also C09)")
            # hunt for a failure of the property itself: close the diverging history and look at the S-level
            closed = small + ([] if small[-1:] == ["delete"] else ["delete"])
            a2, e2, rc3 = run_impl(exe, closed)
            sf2 = s_level(closed, a2, e2, rc3)
            txt = "# correspondence broken at op %s: %s\n# I: %s\n# M: %s\n%s" % (c2[0] if c2 else "?", what, (c2[2] if c2 else x)[:300], (c2[3] if c2 else y)[:300], "\n".join(closed))
            if sf2:
                rep.violation("ledger_div_" + name, "# property fails on the implementation: %s\n%s" % (sf2, txt), True)
            else:
                rep.violation("ledger_div_" + name, "# theorem tie broken, no leak/double free observed on I for this history\n" + txt, False)
        if sviol + bad_ledger + bad_state >= 3:
            break
    gc_corr.shutil_rm(d)
    return dict(histories=len(hists), total_ops=total_ops, distinct=len(distinct), malloc_events=mallocs, free_events=frees,
                ops_that_freed=collections_freeing, oom=ooms, diverged_ledger=bad_ledger, diverged_state=bad_state,
                s_failures=sviol, samples=samples, op_kinds=stats)

def replay_ops(path):
    d = scratch_dir("ledgerreplay")
    exe = build_harness(d)
    ops = [l.strip() for l in open(path) if l.strip() and not l.startswith("#")]
    il, err, rc = run_impl(exe, ops)
    ml = run_model(ops)
    sf = s_level(ops, il, err, rc)
    c = compare(il, ml)
    print("S-level:", sf)
    print("divergence:", c)
    gc_corr.shutil_rm(d)
    return 1 if (sf or c) else 0
