"""C10 — compile-time constant reduction agrees with run-time evaluation (translator-tied proof)."""
from common import *
import num_corr

PROP_MODULE = "NeverModel.Props.C10"
REQUIRED = ["Never.C10.rows_agree_partial", "Never.C10.fold_eq_run_partial", "Never.C10.fold_total_partial",
            "Never.C10.fold_total_float", "Never.C10.fold_total_counterexample", "Never.C10.fold_eq_run_counterexample",
            "Never.C10.fold_eq_run_counterexample_neq_bool", "Never.C10.fold_eq_run_counterexample_enum_cmp",
            "Never.C11.vm_handlers_eq_model"]

def check(tier, seed):
    rep = Report("C10", tier, seed, "proof")
    corr = num_corr.Corr("C10", tier, seed)
    try:
        corr.prepare()
        rep.cov["translator"] = dict(regenerated=corr.changed, **{k: v for k, v in corr.gen_stats.items()})
        if corr.tie_error:
            # a clause / handler the translator does not recognise = broken tie; look for a failing input anyway
            lake_build(["nmdrv"])
            found = corr.search()
            rep.violation("tie_broken", "translator gen/numtab.py: broken tie (tables NOT regenerated, proofs below are about the last good tables)\n%s%s"
                          % (corr.tie_error, ("\n--- failing input found on the implementation ---\n" + found) if found else ""), bool(found))
        def search():
            lake_build(["nmdrv"])
            return corr.search()
        ok = proof_stage(rep, PROP_MODULE, search=search, required=[r for r in REQUIRED if r.startswith("Never.C10")])
        st = corr.evaluate(rep)
        # enumerator values defined through enumerators of other enum types (plain, valued, record-carrying; declared before and
        # after): reducer value = run-time value of a variable holding the enumerator; expectations from progs.enumred_family
        import vm_checks
        st["enum_cross_programs"] = vm_checks.expectation_stage(rep, tier, seed, "enumred", want=lambda meta: meta.get("enumred"))
        rep.cov.update(trusted_base=["Lean 4.33 kernel", "axioms: propext, Classical.choice, Quot.sound",
                                     "gen/numtab.py + clang-14 JSON AST (typing, macro expansion, implicit casts)",
                                     "C semantics assumed by Model/CExpr.lean (wrap-around, idiv trap, FLT_EVAL_METHOD 0, cvtt*2si)",
                                     "Lean Float32/Float (opaque: float statements are structural)", "h_num.c + num_corr.py Python oracle", "gcc"],
                       evaluations=st["programs"], distinct_nontrivial=st["distinct_cases"], exhaustive=False,
                       rule="per (operator, admitted operand-type pair): every corner value of each side at least once (quick) / full corner x corner (thorough) + seeded random; two programs (literal / variable form) per case, compiled and run by the whole implementation",
                       samples=st["samples"], numeric=dict((k, v) for k, v in st.items() if k != "samples"),
                       known_defects_present_in_tables=corr.known_present)
        rep.assumptions = ["float results: structural equality of the same Float32/Float term in Lean; bit-level agreement with gcc/x86 observed by correspondence",
                           "out-of-range shift counts are undefined on both sides (separate stream, not compared)",
                           "and / or: the emitter's JUMPZ ladder is hand-modelled (pseudo handler), tied by correspondence only",
                           "typing rules are evaluated by the translator for scalar operand types with ITEM enums of one enum type and a variable on the left of an assignment"]
        return rep.finish()
    finally:
        corr.cleanup()

def replay(path):
    return num_corr.replay_file(path)
