#!/usr/bin/env python3
"""ad-hoc: vmtry.py [-m mem] [-s stack] [-g gc] [-x execs] (-e src | -f file)  -> status of M-VM vs I"""
import sys, os, argparse
sys.path.insert(0, os.path.dirname(os.path.abspath(__file__)))
import vm_corr
ap = argparse.ArgumentParser()
ap.add_argument("-e"); ap.add_argument("-f"); ap.add_argument("-m", type=int, default=5000); ap.add_argument("-s", type=int, default=200)
ap.add_argument("-g", type=int, default=0); ap.add_argument("-x", type=int, default=1); ap.add_argument("-v", action="store_true")
ap.add_argument("args", nargs="*")
a = ap.parse_args()
h = vm_corr.VmHarness()
r = h.run(src=a.e, file=a.f, mem=a.m, stack=a.s, gc=a.g, execs=a.x, args=a.args)
ml, me = h.model(r)
st, det = vm_corr.compare(r, ml, me)
print("status:", st); print(det[:1500])
io = vm_corr.impl_outcome(r)
print("impl:", io["kind"], io["execs"]); print("stdout:", r["out"][:300]); print("stderr:", r["err"][-400:])
if a.v:
    print("\n".join(l[:300] for l in ml[:12]))
h.close()
