"""C06 correspondence: M-Src `check` (Lean, `nmdrv tc`) <-> front/typecheck.c through
`nev_compile_str` (harness/h_tc.c), on (i) the negative samples of /repo/sample, (ii) a hand-kept
corpus, (iii) seeded well-typed core programs P and every applicable single-fault mutant m(P).

Verdicts per mutant (three witnesses: the mutator's own expectation = the property's statement,
the real compiler, the model):
  compiler ACCEPTS (rc 0)                      -> the property is broken at this input: VIOLATION
                                                  (or KNOWN-FINDING by signature rule+context)
  compiler rejects, first `error:` line/kind
     differs from the model's                  -> correspondence broken: VIOLATION(no failing input)
  model's line/kind differs from the mutator's -> same (the theorems' reading of "offending line")
Unmutated P: must compile on both sides; a P the compiler rejects is counted (`gen_rejected`) and
reported as a broken correspondence when the model accepts it.
"""
import os, re, subprocess, shutil, glob
from common import *
import buildimpl
import c06_gen as G

MSG_RE = re.compile(r'^(.*?):(\d+): (error|warning): (.*)$')

RULE_PATTERNS = [(re.compile(p), r) for p, r in [
    (r'^cannot find identifier ', 'undefId'),
    (r'^cannot find attribute ', 'undefAttr'),
    (r'^cannot get record attribute of type', 'attrNonRecord'),
    (r'^cannot find enum item ', 'matchGuardItem'),
    (r'^cannot find enum \S+::', 'undefEnumItem'),
    (r'^cannot find enum ', 'matchGuardEnum'),
    (r'^found .* instead of enum', 'matchGuardNotEnum'),
    (r'^cannot get enumerator on type', 'enumOnNonEnum'),
    (r'^cannot find record or enum', 'undefType'),
    (r'^expected record or enum but', 'notAType'),
    (r'already defined at line', 'redefined'),
    (r'^cannot assign to (const|temp|var) ', 'assignConst'),
    (r'^cannot assign different types', 'assignType'),
    (r'^cannot assign const .* to var', 'varFromConst'),
    (r'^function call type mismatch', 'callMismatch'),
    (r'^expected param ', 'paramKind'),
    (r'^passing \S+ expression to variable param', 'constToVarParam'),
    (r'^record create type mismatch', 'recordCreate'),
    (r'^enum record type mismatch', 'enumCreate'),
    (r'^cannot execute function on type', 'notCallable'),
    (r'^cannot exec arithmetic operation', 'arith'),
    (r'^cannot exec mod operation', 'modOp'),
    (r'^cannot compare types', 'compare'),
    (r'^cannot ne type', 'notOp'),
    (r'^cannot negate type', 'negOp'),
    (r'^cannot bin not type', 'binNot'),
    (r'^cannot execute conditional operator on', 'condNotBool'),
    (r'^while loop condition type is', 'whileNotBool'),
    (r'^types on conditional expression do not match', 'condBranches'),
    (r'^arrays are different', 'branchArrays'),
    (r'^ranges are different', 'branchRanges'),
    (r'^slices are different', 'branchSlices'),
    (r'^touple is not well formed', 'tupleForm'),
    (r'^touples can be dereferenced in 1 dimension', 'tupleDerefDims'),
    (r'^touples can be dereferenced with int type', 'tupleDerefType'),
    (r'^touples index .* out of bounds', 'tupleIndex'),
    (r'^touples index not proper', 'tupleIndexProper'),
    (r'^incorrect dimesions in array', 'arrayShape'),
    (r'^expected range from of type int', 'rangeFrom'),
    (r'^expected range to of type int', 'rangeTo'),
    (r'^incorrect number of dimensions passed to slice', 'sliceDims'),
    (r'^incorrect number of dimensions passed to deref', 'derefDims'),
    (r'^incorrect types of arguments passed to deref', 'derefIndex'),
    (r'^cannot compose type', 'pipeNotFunc'),
    (r'^enum record \S+ takes', 'guardBinds'),
    (r'^no function or expression in the main unit', 'emptyMainUnit'),
    (r'^a function declared here needs a name', 'funcNoName'),
    (r'^functions are different', 'branchFuncs'),
    (r'^incorrect return type in function', 'returnType'),
    (r'^expression is .* not enum name', 'matchNotEnum'),
    (r'^enums are different', 'matchGuardDiffers'),
    (r'^match expression does not cover', 'matchMissing'),
    (r'^unknown exception', 'unknownException'),
    (r'^incorrect types in array', 'arrayElem'),
    (r'^incorrect number of dimesions passed to deref array', 'derefDims'),
    (r'^strings can be deref only', 'derefDims'),
    (r'^incorrect types .* passed to deref array', 'derefIndex'),
    (r'^cannot deref', 'derefNonArray'),
    (r'^generators over one dimensional', 'genNotArray'),
    (r'^filter should be bool', 'filterNotBool'),
    (r'^incorrect return type in list comprehension', 'listcompRet'),
    (r'^for in loop expression is not of one dimensional', 'forinNotArray'),
    (r'^last item in sequence', 'seqLast'),
    (r'^no type in sequence', 'seqLast'),
    (r'^cannot .* types ', 'binOp'),
]]


def rule_of(text):
    for p, r in RULE_PATTERNS:
        if p.search(text):
            return r
    return "other:" + text[:60]


class Impl:
    """runs sources through h_tc; restarts the harness after a crash"""
    def __init__(self):
        self.info = buildimpl.build("asan")
        self.dir = scratch_dir("tc")
        self.exe = buildimpl.link_harness(self.info, os.path.join(VERIF, "harness", "h_tc.c"), os.path.join(self.dir, "h_tc"))
        self.restarts = 0

    def close(self):
        shutil.rmtree(self.dir, ignore_errors=True)

    def run(self, sources):
        """-> list of dict(rc, msgs=[(line, kind, text)], crash=str|None)"""
        res = [None] * len(sources)
        start = 0
        env = dict(os.environ, ASAN_OPTIONS="detect_leaks=0:abort_on_error=0", UBSAN_OPTIONS="print_stacktrace=1",
                   NEVER_PATH="%s:%s" % (os.path.join(VERIF, "corpus", "tc_neg", "modules"), os.path.join(REPO, "sample")))
        while start < len(sources):
            inp = b"".join(b"prog %d %d\n" % (i, len(sources[i].encode())) + sources[i].encode() for i in range(start, len(sources)))
            errf = os.path.join(self.dir, "stderr.txt")
            with open(errf, "wb") as ef:
                p = subprocess.run([self.exe], input=inp, stdout=subprocess.PIPE, stderr=ef, env=env)
            out = p.stdout.decode("utf-8", "replace").split("\n")
            cur, i = None, 0
            done = start
            while i < len(out):
                l = out[i]
                if l.startswith("begin "):
                    cur = int(l.split()[1])
                    rec = dict(rc=None, msgs=[], crash=None)
                    i += 1
                    if i < len(out) and out[i].startswith("ret "):
                        w = out[i].split()
                        rec["rc"] = int(w[1])
                        k = int(w[3])
                        for j in range(k):
                            m = MSG_RE.match(out[i + 1 + j]) if i + 1 + j < len(out) else None
                            if m:
                                rec["msgs"].append((int(m.group(2)), m.group(3), m.group(4)))
                            else:
                                rec["msgs"].append((0, "raw", out[i + 1 + j] if i + 1 + j < len(out) else ""))
                        i += 1 + k
                        if i < len(out) and out[i] == "end %d" % cur:
                            res[cur] = rec
                            done = cur + 1
                            cur = None
                            i += 1
                            continue
                    break
                i += 1
            if done >= len(sources) and p.returncode == 0:
                break
            if done >= len(sources):
                break
            # the program `done` crashed the harness (or the stream broke there)
            tail = open(errf, "rb").read().decode("utf-8", "replace")
            sig = "exit=%d" % p.returncode
            mm = re.search(r"(ERROR: AddressSanitizer: [^\n]*|runtime error: [^\n]*|Assertion[^\n]*failed[^\n]*)", tail)
            res[done] = dict(rc=None, msgs=[], crash=sig + " " + (mm.group(1)[:200] if mm else tail[-200:].replace("\n", " | ")))
            self.restarts += 1
            start = done + 1
        return res


def first_error(rec):
    for (ln, kind, text) in rec["msgs"]:
        if kind == "error":
            return ln, rule_of(text), text
    return None


def run_model(sxs):
    p = subprocess.run([NMDRV, "tc"], input="\n".join(sxs) + "\n", stdout=subprocess.PIPE, stderr=subprocess.PIPE, text=True)
    out = p.stdout.split("\n")
    res = []
    for i in range(len(sxs)):
        o = out[i] if i < len(out) else "<none>"
        w = o.split()
        if o == "ok":
            res.append(("ok", None, None))
        elif len(w) == 3 and w[0] == "err":
            res.append(("err", int(w[1]), w[2]))
        else:
            res.append(("bad", None, o))
    return res


# ---------------------------------------------------------------- stage 1: negative samples

def sample_stage(rep, impl, stats):
    repo_samples = os.path.join(REPO, "sample")
    errs = sorted(glob.glob(os.path.join(repo_samples, "*.nev.err")))
    # negative programs for constructs outside the modelled core (pipe operator …): expected (line, severity)
    # written by hand from the rule, compared with the real compiler only
    errs += sorted(glob.glob(os.path.join(os.path.dirname(os.path.dirname(os.path.abspath(__file__))), "corpus", "tc_neg", "*.nev.err")))
    srcs, exps, names = [], [], []
    for e in errs:
        s = e[:-4]
        if not os.path.exists(s):
            continue
        srcs.append(open(s, encoding="utf-8", errors="replace").read())
        exp = []
        for l in open(e, encoding="utf-8", errors="replace").read().split("\n"):
            m = MSG_RE.match(l.strip())
            if m:
                exp.append((int(m.group(2)), m.group(3), m.group(4).rstrip()))
        exps.append(exp)
        names.append(("neg:" if "tc_neg" in e else "") + os.path.basename(s))
    res = impl.run(srcs)
    bad = 0
    real_violation = rep.violation

    def capped(tag, text, found=True):
        if bad <= 8:
            real_violation(tag, text, found)
        else:
            rep.violations += 1
    for n, src, exp, r in zip(names, srcs, exps, res):
        got = [(ln, k, t.rstrip()) for (ln, k, t) in r["msgs"]] if r["crash"] is None else None
        want_fail = any(k == "error" for _, k, _ in exp)
        if r["crash"] is not None:
            bad += 1
            capped("sample_" + n, "# negative sample %s crashes the compiler: %s\n%s" % (n, r["crash"], src), True)
        elif want_fail and r["rc"] == 0:
            bad += 1
            capped("sample_" + n, "# negative sample %s is ACCEPTED (rc 0); expected diagnostics:\n# %s\n%s" % (n, exp, src), True)
        elif n.startswith("neg:") and got and [(l, k) for l, k, _ in exp][0] in [(l, k) for l, k, _ in got]:
            pass      # hand-written negative: rejected, with a diagnostic at the offending line (the property's wording; some checks
                      # of the compiler print a first line without position — `file:0:` — before the located one)
        elif [(l, k) for l, k, _ in got] != [(l, k) for l, k, _ in exp] or (not want_fail and r["rc"] != 0):
            # lines and severities must be those of the .err file (the wording may change)
            bad += 1
            capped("sample_" + n, "# negative sample %s: diagnostics (line, severity) differ from %s.err\n# expected %s\n# got      %s rc=%s\n%s" % (n, n, exp, got, r["rc"], src), True)
        elif got != exp:
            stats["samples_reworded"] = stats.get("samples_reworded", 0) + 1
    # corpus/tc_known: programs that break a static rule and that the tree is KNOWN to accept (design decisions / repairs that
    # would refuse sample programs): each is a finding keyed by its file name — KNOWN-FINDING while listed and still accepted,
    # silent once the compiler refuses it, a VIOLATION if it is accepted and not listed
    kdir = os.path.join(os.path.dirname(os.path.dirname(os.path.abspath(__file__))), "corpus", "tc_known")
    kfiles = sorted(glob.glob(os.path.join(kdir, "*.nev")))
    if kfiles:
        ksrcs = [open(f, encoding="utf-8", errors="replace").read() for f in kfiles]
        for f, src, r in zip(kfiles, ksrcs, impl.run(ksrcs)):
            nm = os.path.basename(f)[:-4]
            if r["crash"] is not None:
                capped("known_" + nm, "# %s crashes the compiler: %s\n%s" % (nm, r["crash"], src), True)
            elif r["rc"] == 0:
                rep.finding("accepted:" + nm, "# ACCEPTED (rc 0) although it breaks a static rule\n" + src)
        stats["known_accepted_probes"] = len(kfiles)
    # element-type matrix: for every ordered pair of distinct scalar types, an array / tuple / function value / array variable over
    # the first where the second is declared — arguments, and assignment.  Element types are compared exactly (no promotion inside
    # containers): every one of the programs must be refused with a diagnostic at the offending line (line 5).
    import itertools
    TY = {"bool": ("true", "false"), "int": ("1", "2"), "long": ("1L", "2L"), "float": ("1.5", "2.5"), "double": ("1.5d", "2.5d"), "char": ("'a'", "'b'"), "string": ('"a"', '"b"')}
    msrc, mname = [], []
    for t1, t2 in itertools.permutations(TY, 2):
        v1, v2 = TY[t1]
        forms = {
            "arr": "func first(a[D] : %s) -> int { 0 }\nfunc main() -> int\n{\n    let x = [ %s, %s ] : %s;\n    first(x)\n}\n" % (t2, v1, v2, t1),
            "tup": "func first(t : (%s, %s)) -> int { 0 }\nfunc main() -> int\n{\n    let x = (%s, %s) : (%s, %s);\n    first(x)\n}\n" % (t2, t2, v1, v2, t1, t1),
            "fun": "func apply(f(x : %s) -> %s) -> int { 0 }\nfunc g(x : %s) -> %s { x }\nfunc main() -> int\n{\n    apply(g)\n}\n" % (t2, t2, t1, t1),
            "ass": "func main() -> int\n{\n    var a = [ %s ] : %s;\n    let b = [ %s ] : %s;\n    a = b;\n    0\n}\n" % (TY[t2][0], t2, v1, t1)}
        for k, src in forms.items():
            msrc.append(src); mname.append("elem_%s_%s_as_%s" % (k, t1, t2))
    mbad = 0
    for n, src, r in zip(mname, msrc, impl.run(msrc)):
        if r["crash"] is not None:
            mbad += 1; capped("matrix_" + n, "# %s crashes the compiler: %s\n%s" % (n, r["crash"], src), True)
        elif r["rc"] == 0:
            mbad += 1; capped("matrix_" + n, "# element-type mismatch ACCEPTED (rc 0): %s\n%s" % (n, src), True)
        elif not any(k == "error" and ln == 5 for (ln, k, t) in r["msgs"]):
            mbad += 1; capped("matrix_" + n, "# element-type mismatch refused without a diagnostic at the offending line 5: %s\n# got %s\n%s" % (n, r["msgs"][:4], src), True)
    stats["element_type_matrix"] = len(msrc)
    stats["element_type_matrix_bad"] = mbad
    stats["samples_run"] = len(names)
    stats["samples_bad"] = bad
    stats["sample_error_lines"] = sum(len(e) for e in exps)


# ---------------------------------------------------------------- stage 2/3: corpus and generated

def gen_case(seed, size):
    """deterministic: the same seed gives the same program object graph"""
    rng = Rng(seed)
    g = G.Gen(rng.fork(), size)
    p = g.program()
    return g, p, rng


def build_cases(seed, nprog, size, stats):
    """-> list of dict(kind, rule, src, sx, exp_line, exp_rule, ctx, seed)"""
    cases = []
    top = Rng(seed)
    for i in range(nprog):
        s = top.next()
        g, p, rng = gen_case(s, size)
        lay = rng.next()
        src, sx = G.render(p, Rng(lay))
        cases.append(dict(kind="P", rule=None, src=src, sx=sx, seed=s, ctx=[], exp_line=None, exp_rule=None, note=""))
        # which of the D11 constructs this program contains (shares reported in the evidence)
        for tag, pat in (("tuples", "(tuple "), ("projections", "(proj "), ("ranges", "(range "), ("slices", "(slice "), ("forin", "(forin "),
                         ("pipes", "(pipe "), ("matches", "(match "), ("iflet", "(iflet "), ("enum_records", "(enumrec "), ("record_guards", "(grec "), ("ctors", "(ctor "), ("range_slice_params", " (rng "), ("nd_arrays", "(sub"), ("tuple_types", "(tup ")):
            if pat in sx:
                stats["P_with_" + tag] = stats.get("P_with_" + tag, 0) + 1
        for k, v in g.stats.items():
            stats["gen_" + k] = stats.get("gen_" + k, 0) + v
        for rule in G.RULES + ["call_kind_inner_fn", "call_kind_inner_var", "call_kind_result_var", "match_empty",
                               "slice_assign_let", "pipe_tuple_const_to_var"]:
            g2, p2, rng2 = gen_case(s, size)
            mrng = Rng(s ^ (hash_str(rule) & 0xFFFFFFFF))
            mu = G.Mutator(g2, p2, mrng)
            try:
                m = getattr(mu, rule)()
            except Exception as e:   # a mutator that cannot be applied is not a finding
                stats["mutator_exceptions"] = stats.get("mutator_exceptions", 0) + 1
                stats.setdefault("mutator_exception_samples", [])
                if len(stats["mutator_exception_samples"]) < 3:
                    stats["mutator_exception_samples"].append("%s seed=%d: %r" % (rule, s, e))
                m = None
            if m is None:
                stats["inapplicable_" + rule] = stats.get("inapplicable_" + rule, 0) + 1
                continue
            src2, sx2 = G.render(p2, Rng(lay))
            cases.append(dict(kind="M", rule=m.rule, src=src2, sx=sx2, seed=s, ctx=list(m.ctx), exp_line=m.bad.ln,
                              exp_rule=m.expect, note=m.note))
        # generic syntactic mutants (no oracle: correspondence only)
        for gk in G.GENERIC:
            g3, p3, rng3 = gen_case(s, size)
            d = G.generic_mutate(gk, g3, p3, Rng(s ^ (hash_str(gk) & 0xFFFFFFFF)))
            if d is None:
                continue
            try:
                src3, sx3 = G.render(p3, Rng(lay))
            except Exception:
                continue
            cases.append(dict(kind="G", rule="generic:" + gk, src=src3, sx=sx3, seed=s, ctx=[], exp_line=None, exp_rule=None, note=d))
    return cases


def hash_str(s):
    h = 1469598103934665603
    for c in s.encode():
        h = ((h ^ c) * 1099511628211) & 0xFFFFFFFFFFFFFFFF
    return h


CTX_KINDS = ['top', 'nested', 'closure', 'lc', 'arm', 'catch', 'if', 'while', 'forin', 'block']

# signatures of known findings: rule + context-independent description.
# (`call_kind_inner_fn` — function-typed parameter of a function-typed parameter — was a known accept of the
# pinned tree; repaired in /repo 186dfd9, so an ACCEPTED mutant of that rule is an ordinary VIOLATION again.)
KNOWN = {
    'match_empty': "accept:match_missing:empty guard list `match e { }` is never checked for exhaustiveness",
    # the generated forms of corpus/tc_known (theorems `…_accepted_counterexample` of Props/C06.lean): the SAME findings, so the
    # same signatures as the corpus files (known_findings.json)
    'slice_assign_let': "accepted:const_lost_through_slice_assign",
    'pipe_tuple_const_to_var': "accepted:const_tuple_members_to_var_params",
}


def judge(rep, cases, ires, mres, stats, samples):
    for c, r, m in zip(cases, ires, mres):
        tag = "%s_%x" % (c["rule"] or "P", c["seed"] & 0xFFFFFFFF)
        head = "# seed=%d rule=%s ctx=%s note=%s\n" % (c["seed"], c["rule"], "/".join(c["ctx"]), c["note"])
        if r is None:
            r = dict(rc=None, msgs=[], crash="no answer from harness")
        fe = first_error(r) if r["crash"] is None else None
        accepted = r["crash"] is None and r["rc"] == 0
        if c["kind"] == "P":
            stats["programs"] += 1
            if r["crash"] is not None:
                # not C06's business (a compiler crash on a well-typed program is C05's): counted, shown
                stats["gen_crashed"] += 1
                if len(samples) < 6:
                    samples.append(dict(what="compiler crash on a generated well-typed program (later pass?)", crash=r["crash"], seed=c["seed"]))
            elif not accepted or fe is not None:
                stats["gen_rejected"] += 1
                later = fe is None or fe[1].startswith("other:")
                if later:
                    # failure of a later pass (constant reduction, emitter): outside the model of the typing rules
                    stats["gen_rejected_later_pass"] = stats.get("gen_rejected_later_pass", 0) + 1
                    if len(samples) < 6:
                        samples.append(dict(what="generated program fails in a later compiler pass", compiler=str(fe), rc=r["rc"], seed=c["seed"]))
                elif m[0] == "ok":
                    stats["p_rejected_by_typechecker"] = stats.get("p_rejected_by_typechecker", 0) + 1
                    if stats["p_rejected_by_typechecker"] <= 5:
                      rep.violation("P_rejected_" + tag, head + "# correspondence broken: the model accepts, the type checker rejects a generated program\n# compiler: rc=%s first error %s\n%s" % (r["rc"], fe, c["src"]), False)
                else:
                    if len(samples) < 6:
                        samples.append(dict(what="generator bug: P rejected by both", compiler=str(fe), model=str(m), seed=c["seed"]))
            elif m[0] != "ok":
                rep.violation("P_model_" + tag, head + "# correspondence broken: the compiler accepts a generated program, the model says %s\n%s\n%s" % (m, c["src"], c["sx"]), False)
            else:
                stats["programs_ok"] += 1
            continue
        if c["kind"] == "G":
            # generic mutant: model and compiler on the same input
            stats["generic"] = stats.get("generic", 0) + 1
            if r["crash"] is not None:
                stats["generic_crash_later"] = stats.get("generic_crash_later", 0) + 1
                continue
            if fe is not None and fe[1].startswith("other:") and m[0] == "ok":
                stats["generic_later_pass"] = stats.get("generic_later_pass", 0) + 1
                continue
            if accepted and fe is None:
                if m[0] == "ok":
                    stats["generic_both_accept"] = stats.get("generic_both_accept", 0) + 1
                else:
                    stats["diverged"] += 1
                    if stats["diverged"] <= 5:
                        rep.violation("gdiv_" + tag, head + "# correspondence broken: the compiler ACCEPTS, the model says %s\n%s\n%s" % (m, c["src"], c["sx"]), False)
                continue
            if fe is None:
                rep.violation("nodiag_" + tag, head + "# rejected (rc=%s) without an `error:` diagnostic\n%s" % (r["rc"], c["src"]), True)
                continue
            got = (fe[0], fe[1])
            mod = (m[1], m[2]) if m[0] == "err" else (None, m[0])
            if fe[1].startswith("other:") and m[0] == "err":
                got = (fe[0], m[2])
            if accepted:
                # diagnostic printed but rc 0: the status does not reflect the error (a deleted TYPECHECK_FAIL)
                stats["accepted_mutants"] += 1
                if stats["accepted_mutants"] <= 5:
                    rep.violation("accepted_" + tag, head + "# rc=0 although an `error:` was printed: %s; model: %s\n%s" % (fe, m, c["src"]), True)
            elif got == mod:
                stats["generic_both_reject"] = stats.get("generic_both_reject", 0) + 1
                stats.setdefault("generic_kinds", {})
                stats["generic_kinds"][fe[1]] = stats["generic_kinds"].get(fe[1], 0) + 1
            else:
                stats["diverged"] += 1
                if stats["diverged"] <= 5:
                    rep.violation("gdiv_" + tag, head + "# correspondence M-Src.check <-> typecheck.c broken\n# compiler first error: line %s %s (%s)\n# model: %s\n%s\n%s" % (fe[0], fe[1], fe[2], mod, c["src"], c["sx"]), False)
            continue
        # ---- mutants
        stats["mutants"] += 1
        stats["by_rule"][c["rule"]] = stats["by_rule"].get(c["rule"], 0) + 1
        for k in set(c["ctx"]):
            if k in CTX_KINDS:
                stats["by_ctx"][k] = stats["by_ctx"].get(k, 0) + 1
                stats["rule_x_ctx"].add((c["rule"], k))
        if r["crash"] is not None and c["rule"] in KNOWN:
            # a mutant the pinned type checker is known to accept: the ill-typed program then reaches the
            # later passes, which may well assert on it — still the same finding, not a new one
            stats["known_accepts"] += 1
            stats["known_accepts_crashing_later"] = stats.get("known_accepts_crashing_later", 0) + 1
            rep.finding(KNOWN[c["rule"]], head + "# (crashes after type checking: %s)\n" % r["crash"] + c["src"])
            continue
        if r["crash"] is not None:
            stats["mutant_crashes"] += 1
            if stats["mutant_crashes"] <= 5:
              rep.violation("crash_" + tag, head + "# the compiler CRASHES instead of diagnosing: %s\n%s" % (r["crash"], c["src"]), True)
            continue
        if accepted:
            # the failing input of the property itself
            if c["rule"] in KNOWN:
                stats["known_accepts"] += 1
                if m[0] != "ok":
                    rep.violation("known_model_" + tag, head + "# known accepted mutant, but the model (which mirrors the code) rejects: %s\n%s" % (m, c["src"]), False)
                rep.finding(KNOWN[c["rule"]], head + c["src"])
            else:
                stats["accepted_mutants"] += 1
                if stats["accepted_mutants"] <= 5:
                    rep.violation("accepted_" + tag, head + "# ILL-TYPED PROGRAM ACCEPTED (rc=0): expected `%s` at line %s; messages: %s; model: %s\n%s" % (c["exp_rule"], c["exp_line"], r["msgs"][:3], m, c["src"]), True)
            continue
        if c["rule"] in KNOWN:
            stats["known_fixed"] = stats.get("known_fixed", 0) + 1   # someone repaired it: fine
        if fe is None:
            rep.violation("nodiag_" + tag, head + "# rejected (rc=%s) WITHOUT an `error:` diagnostic\n%s" % (r["rc"], c["src"]), True)
            continue
        got = (fe[0], fe[1])
        mod = (m[1], m[2]) if m[0] == "err" else (None, m[0])
        exp = (c["exp_line"], c["exp_rule"])
        if fe[1].startswith("other:") and m[0] == "err":
            # a diagnostic text this check does not know (reworded message?): harmless by itself,
            # the kind is then not compared, the line still is
            stats["unclassified_messages"] = stats.get("unclassified_messages", 0) + 1
            got = (fe[0], m[2])
        if c["rule"] in KNOWN and m[0] == "ok":
            continue
        if got == mod == exp:
            stats["mutants_agree"] += 1
            if len(samples) < 4 and stats["mutants_agree"] % 37 == 1:
                samples.append(dict(rule=c["rule"], ctx="/".join(c["ctx"]), line=got[0], kind=got[1], text=fe[2][:80]))
        elif got != mod:
            stats["diverged"] += 1
            if stats["diverged"] <= 5:
                rep.violation("div_" + tag, head + "# correspondence M-Src.check <-> typecheck.c broken (theorems of Props/C06 no longer tied)\n# compiler first error: line %s %s (%s)\n# model: %s\n# mutator expected: %s\n%s\n%s" % (fe[0], fe[1], fe[2], mod, exp, c["src"], c["sx"]), False)
        else:
            stats["line_convention_breaks"] += 1
            if stats["line_convention_breaks"] <= 5:
                rep.violation("line_" + tag, head + "# diagnostic is not at the offending node: compiler and model say line %s %s, the mutator placed the fault at %s\n%s" % (got[0], got[1], exp, c["src"]), False)


def corpus_cases():
    """hand-kept programs: (name, source, expected first error (line, rule) or None=accept, known signature or None)"""
    d = os.path.join(VERIF, "corpus", "tc")
    out = []
    for f in sorted(glob.glob(os.path.join(d, "*.nev"))):
        src = open(f).read()
        m = re.search(r"^# expect: (\S+)(?: (\d+) (\S+))?(?: known=(\S+))?", src, re.M)
        if not m:
            continue
        sxf = f[:-4] + ".sx"
        sx = open(sxf).read().strip() if os.path.exists(sxf) else None
        out.append(dict(name=os.path.basename(f), src=src, sx=sx, expect=m.group(1),
                        line=int(m.group(2)) if m.group(2) else None, rule=m.group(3), known=m.group(4)))
    return out


def run_correspondence(rep, tier, seed):
    impl = Impl()
    stats = dict(programs=0, programs_ok=0, gen_rejected=0, gen_crashed=0, mutants=0, mutants_agree=0, diverged=0,
                 accepted_mutants=0, known_accepts=0, mutant_crashes=0, line_convention_breaks=0, by_rule={}, by_ctx={},
                 rule_x_ctx=set())
    samples = []
    try:
        sample_stage(rep, impl, stats)
        # corpus
        cc = corpus_cases()
        if cc:
            ires = impl.run([c["src"] for c in cc])
            mres = run_model([c["sx"] or "(prog ())" for c in cc])
            for c, r, m in zip(cc, ires, mres):
                fe = first_error(r) if r["crash"] is None else None
                accepted = r["crash"] is None and r["rc"] == 0
                head = "# corpus %s\n" % c["name"]
                if c["expect"] == "accept":
                    if not accepted:
                        rep.violation("corpus_" + c["name"], head + "# expected to compile, got rc=%s %s %s\n%s" % (r["rc"], fe, r["crash"], c["src"]), False)
                    elif c["sx"] and m[0] != "ok":
                        rep.violation("corpus_" + c["name"], head + "# model rejects %s\n%s" % (m, c["src"]), False)
                else:
                    if accepted:
                        if c["known"]:
                            if c["sx"] and m[0] != "ok":
                                rep.violation("corpus_" + c["name"], head + "# known accept, but the model rejects: %s" % (m,), False)
                            rep.finding(KNOWN.get(c["known"], c["known"]), head + c["src"])
                        else:
                            rep.violation("corpus_" + c["name"], head + "# ILL-TYPED PROGRAM ACCEPTED\n%s" % c["src"], True)
                    elif r["crash"] is not None:
                        rep.violation("corpus_" + c["name"], head + "# crash %s\n%s" % (r["crash"], c["src"]), False)
                    elif not c["known"]:
                        got = (fe[0], fe[1]) if fe else None
                        if got != (c["line"], c["rule"]) or (c["sx"] and (m[1], m[2]) != got):
                            rep.violation("corpus_" + c["name"], head + "# expected %s %s; compiler %s; model %s\n%s" % (c["line"], c["rule"], got, m, c["src"]), False)
            stats["corpus"] = len(cc)
        nprog = 120 if tier == "quick" else 2500
        size = 1.0
        cases = build_cases(seed, nprog, size, stats)
        ires = impl.run([c["src"] for c in cases])
        mres = run_model([c["sx"] for c in cases])
        judge(rep, cases, ires, mres, stats, samples)
        stats["harness_restarts"] = impl.restarts
    finally:
        impl.close()
    stats["rule_x_ctx"] = sorted("%s@%s" % x for x in stats["rule_x_ctx"])
    stats["samples"] = samples
    return stats
