"""C16 leak stream (TESTING, not proof): compile / run / dispose seeded sources in one
process under ASan+LSan (harness/h_leak.c), attribute LeakSanitizer's cumulative reports
to the source that caused them, group by signature.

signature of a leak  = "leak:<error-path kind>:<allocating function><-<its caller>"
                       (a caller inside yyparse is named by the grammar rule of that line)
signature of a crash = "asan:<error type>:<function>"   (double free, use after free ...)
"""
import os, re, subprocess, sys
from common import *
import buildimpl
sys.path.insert(0, os.path.join(VERIF, "gen"))
import parsertab

TOKEN = re.compile(r'"(?:\\.|[^"\\\n])*"|\'(?:\\.|[^\'\\\n])\'|[A-Za-z_][A-Za-z0-9_]*|[0-9]+(?:\.[0-9]+)?[a-zA-Z]*|->|<=|>=|==|!=|&&|\|\||<<|>>|\.\.|\S')
TYPES = ["int", "long", "float", "double", "bool", "char", "string", "c_ptr"]
STRAY = ["?", "}", ")", "]", "{", "(", ";", ",", ":", "->", "catch", "func", "let", "record", "enum", "match", "if", "else", "for", "in", "1", "x", '"s"', "'c'", "1.5", "nil"]

def tokenize(src):
    """-> list of (ws_before, token)"""
    out, pos = [], 0
    for m in TOKEN.finditer(src):
        out.append((src[pos:m.start()], m.group(0)))
        pos = m.end()
    return out, src[pos:]

def untokenize(toks, tail=""):
    return "".join(w + t for w, t in toks) + tail

def strip_comments_nev(src):
    return re.sub(r"#[^\n]*", "", src)

def load_samples(repo):
    d = os.path.join(repo, "sample")
    out = []
    for f in sorted(os.listdir(d)):
        if f.endswith(".nev"):
            try:
                s = open(os.path.join(d, f), encoding="utf-8", errors="replace").read()
            except OSError:
                continue
            if len(s) < 20000:
                out.append((f, s))
    return out

def runnable(src):
    """may the harness execute it: no foreign calls except libm, no console input"""
    for m in re.finditer(r'extern\s+"([^"]*)"', src):
        if not m.group(1).startswith("libm"):
            return False
    return not re.search(r"\bread\s*\(", src)

def mutate_syntax(rng, src):
    toks, tail = tokenize(strip_comments_nev(src))
    if len(toks) < 4:
        return src + " ?", "stray"
    k = rng.weighted([("delete", 20), ("dup", 12), ("swap", 12), ("truncate", 30), ("stray", 16), ("replace", 10)])
    i = rng.below(len(toks))
    if k == "delete":
        toks = toks[:i] + toks[i + 1:]
    elif k == "dup":
        toks = toks[:i + 1] + [(" ", toks[i][1])] + toks[i + 1:]
    elif k == "swap":
        j = min(len(toks) - 1, i + 1) if rng.chance(0.6) else rng.below(len(toks))
        a, b = toks[i], toks[j]
        toks[i], toks[j] = (a[0], b[1]), (b[0], a[1])
    elif k == "truncate":
        toks = toks[:max(1, i)]
        tail = ""
        if rng.chance(0.3):
            toks.append((" ", rng.choice(STRAY)))
    elif k == "stray":
        toks = toks[:i] + [(" ", rng.choice(STRAY))] + [(" " + toks[i][0], toks[i][1])] + toks[i + 1:]
    else:
        toks[i] = (toks[i][0], toks[rng.below(len(toks))][1])
    return untokenize(toks, tail), k

def mutate_type(rng, src):
    toks, tail = tokenize(strip_comments_nev(src))
    idx_num = [i for i, (w, t) in enumerate(toks) if re.match(r"^[0-9]+$", t)]
    idx_ty = [i for i, (w, t) in enumerate(toks) if t in TYPES]
    idx_id = [i for i, (w, t) in enumerate(toks) if re.match(r"^[a-z_][A-Za-z0-9_]*$", t) and t not in TYPES and t not in
              ("func", "let", "var", "if", "else", "for", "while", "do", "in", "match", "record", "enum", "catch", "use", "module", "extern", "nil", "true", "false", "const", "range")]
    idx_str = [i for i, (w, t) in enumerate(toks) if t.startswith('"')]
    choices = []
    if idx_num: choices.append(("num->str", 25))
    if idx_ty: choices.append(("type", 30))
    if idx_id: choices.append(("ident", 30))
    if idx_str: choices.append(("str->num", 10))
    if idx_id: choices.append(("undef", 15))
    if not choices:
        return src, "none"
    k = rng.weighted(choices)
    if k == "num->str":
        i = rng.choice(idx_num); toks[i] = (toks[i][0], rng.choice(['"s"', "1.5", "'c'", "nil", "1L"]))
    elif k == "type":
        i = rng.choice(idx_ty); toks[i] = (toks[i][0], rng.choice([t for t in TYPES if t != toks[i][1]]))
    elif k == "ident":
        i = rng.choice(idx_id); j = rng.choice(idx_id); toks[i] = (toks[i][0], toks[j][1])
    elif k == "str->num":
        i = rng.choice(idx_str); toks[i] = (toks[i][0], "42")
    else:
        i = rng.choice(idx_id); toks[i] = (toks[i][0], "undefined_name_%d" % rng.below(9))
    return untokenize(toks, tail), k

def mutate_module(rng, src):
    k = rng.weighted([("prepend", 50), ("rename", 25), ("mid", 25)])
    name = rng.choice(["nosuchmodule", "missing_mod", "a/b/nothing", "lib/none"]) + str(rng.below(5))
    if k == "rename" and re.search(r"^\s*use\s+\S+", src, flags=re.M):
        return re.sub(r"^(\s*use\s+)\S+", lambda m: m.group(1) + name, src, count=1, flags=re.M), k
    if k == "mid":
        toks, tail = tokenize(strip_comments_nev(src))
        if toks:
            i = rng.below(len(toks))
            toks = toks[:i] + [("\n", "use"), (" ", name), ("\n", toks[i][1])] + toks[i + 1:]
            return untokenize(toks, tail), k
    return "use %s\n%s" % (name, src), "prepend"

def hand_sources():
    """fixed seeds run first (also corpus/leak/*.nev)"""
    out = [("hand:ok", "func main() -> int { 1 + 2 }"),
           ("hand:div0", "func main() -> int { var a = 0; 10 / a }"),
           ("hand:caught", "func main() -> int { var a = 0; 10 / a } catch (division_by_zero) { 7 }"),
           ("hand:assert", "func main() -> int { assert(1 == 2); 0 }"),
           ("hand:nilderef", "record R { x : int; } func main() -> int { var r = R; r = nil; r.x }"),
           ("hand:index", "func main() -> int { var a = [ 1, 2, 3 ] : int; a[5] }"),
           ("hand:alloc", "func main() -> int { var i = 0; var s = \"\"; while (i < 300) { s = s + \"ab\"; i = i + 1 }; length(s) }"),
           ("hand:oom", "record L { v : int; n : L; } func mk(k : int, t : L) -> L { k == 0 ? t : mk(k - 1, L(k, t)) } func main() -> int { mk(100000, nil).v }"),
           ("hand:loop", "func main() -> int { var i = 0; while (i < 1) { i = 0 }; 0 }"),
           ("hand:unterminated", "func main() -> int { prints(\"abc"),
           ("hand:empty", ""),
           ("hand:typeerr", "func main() -> int { \"a\" + 1 }"),
           ("hand:nomodule", "use nosuchmodule\nfunc main() -> int { 1 }"),
           ("hand:undefined", "func main() -> int { g(1) }"),
           ("hand:dup", "func f() -> int { 1 } func f() -> int { 2 } func main() -> int { f() }")]
    d = os.path.join(VERIF, "corpus", "leak")
    if os.path.isdir(d):
        for f in sorted(os.listdir(d)):
            if f.endswith(".nev"):
                out.append(("corpus:" + f, open(os.path.join(d, f), errors="replace").read()))
    return out

FFI_SEEDS = [
    ("hand:ffi-libm", 'extern "libm.so.6" func sinhf(x : float) -> float\nextern "libm.so.6" func powf(base : float, exp : float) -> float\nfunc main() -> int { print(sinhf(1.0) + powf(2.0, 3.0)); 0 }'),
    ("hand:ffi-nolib", 'extern "libnosuchlib.so" func f(x : int) -> int\nfunc main() -> int { f(1) }'),
    ("hand:ffi-nolib-caught", 'extern "libnosuchlib.so" func f(x : int) -> int\nfunc main() -> int { f(1) } catch (ffi_fail) { 3 }'),
    ("hand:ffi-nosym", 'extern "libm.so.6" func nosuchfunction(x : float) -> float\nfunc main() -> int { print(nosuchfunction(1.0)); 0 }'),
    ("hand:ffi-string", 'extern "libc.so.6" func strlen(s : string) -> long\nextern "libc.so.6" func atoi(s : string) -> int\nfunc main() -> int { let l = strlen("abcd"); atoi("12") }'),
    ("hand:ffi-record", 'record D { quot : int; rem : int; }\nextern "libc.so.6" func div(n : int, d : int) -> D\nfunc main() -> int { let r = div(17, 5); r.quot * 10 + r.rem }'),
    ("hand:ffi-record-arg", 'record Addr { s_addr : int; }\nextern "libc.so.6" func inet_ntoa(a : Addr) -> string\nfunc main() -> int { length(inet_ntoa(Addr(16777343))) }'),
    ("hand:ffi-record-arg-nil-caught", 'record Addr { s_addr : int; }\nextern "libc.so.6" func inet_ntoa(a : Addr) -> string\nfunc show(a : Addr) -> int { length(inet_ntoa(a)) } catch (ffi_fail) { 0 - 1 }\nfunc main() -> int { var none = Addr; none = nil; show(Addr(16777343)) + show(none) + show(none) }'),
    ("hand:ffi-record-arg-nil-unhandled", 'record Addr { s_addr : int; }\nextern "libc.so.6" func inet_ntoa(a : Addr) -> string\nfunc main() -> int { var none = Addr; none = nil; length(inet_ntoa(none)) }'),
    ("hand:ffi-nested-record-nil", 'record In { a : int; } record Out { i : In; b : int; }\nextern "libc.so.6" func abs(o : Out) -> int\nfunc f(o : Out) -> int { abs(o) } catch (ffi_fail) { 0 - 1 }\nfunc main() -> int { var i = In; i = nil; f(Out(In(3), 4)) + f(Out(i, 5)) }'),
    ("hand:ffi-string-arg-nil", 'extern "libc.so.6" func strlen(s : string) -> long\nfunc f(ss[D] : string) -> int { strlen(ss[0]) == 0L ? 0 : 1 } catch (ffi_fail) { 0 - 1 }\nfunc main() -> int { let ss = {[ 2 ]} : string; f(ss) }'),
    ("hand:ffi-cptr", 'extern "libc.so.6" func malloc(n : long) -> c_ptr\nextern "libc.so.6" func free(p : c_ptr) -> void\nfunc main() -> int { let p = malloc(16L); free(p); 0 }'),
]

def gen_stream(rng, samples, n, all_samples=True):
    """-> list of dict(name, cls, src, run): the fixed seeds, every sample as it is, then n seeded mutants"""
    out = []
    for name, src in hand_sources():
        out.append(dict(name=name, cls="hand", src=src, run=runnable(src)))
    for name, src in FFI_SEEDS:
        out.append(dict(name=name, cls="hand", src=src, run=True))
    if all_samples:
        for f, src in samples:
            out.append(dict(name="valid:as-is:" + f, cls="valid", src=src, run=runnable(src)))
    fixed = len(out)
    while len(out) < fixed + n:
        f, src = samples[rng.below(len(samples))]
        cls = rng.weighted([("syntax", 52), ("type", 28), ("module", 20)])
        if cls == "syntax":
            s, how = mutate_syntax(rng, src)
        elif cls == "type":
            s, how = mutate_type(rng, src)
        else:
            s, how = mutate_module(rng, src)
        if "\0" in s:
            continue
        out.append(dict(name="%s:%s:%s" % (cls, how, f), cls=cls, src=s, run=runnable(s)))
    return out

# ---------------------------------------------------------------- running

FRAME = re.compile(r"^\s+#(\d+) 0x[0-9a-f]+ in (\S+)(?: (\S+?)(?::(\d+))?(?::\d+)?)?\s*$")
LEAK_HEAD = re.compile(r"^(Direct|Indirect) leak of (\d+) byte\(s\) in (\d+) object\(s\) allocated from:")

def parse_lsan(text):
    """-> {stack_key: (kind, objects, bytes, frames)}; frames = [(fn, file, line)] without the interceptor"""
    res = {}
    cur = None
    for line in text.split("\n"):
        m = LEAK_HEAD.match(line)
        if m:
            cur = [m.group(1), int(m.group(3)), int(m.group(2)), []]
            continue
        if cur is not None:
            fm = FRAME.match(line)
            if fm:
                fn = fm.group(2)
                if not (fn.startswith("__interceptor_") or fn.startswith("__wrap_") or fn in ("malloc", "calloc", "realloc", "strdup")):
                    cur[3].append((fn, os.path.basename(fm.group(3) or ""), int(fm.group(4) or 0)))
            elif line.strip() == "":
                if cur[3]:
                    key = (cur[0],) + tuple((f[0], f[1], f[2]) for f in cur[3][:12])
                    old = res.get(key)
                    res[key] = (cur[0], cur[1] + (old[1] if old else 0), cur[2] + (old[2] if old else 0), cur[3])
                cur = None
    return res

def rule_of_line(rules, line):
    best = None
    for r in rules:
        if r["line"] <= line and (best is None or r["line"] > best["line"]):
            best = r
    return best["lhs"] if best else "?"

def frame_name(fr, rules):
    fn, file, line = fr
    if fn == "yyparse" and file == "parser.y" and line:
        return "yyparse[%s]" % rule_of_line(rules, line)
    if fn == "yylex":
        return "yyparse"
    return fn

def leak_signature(kind, frames, rules):
    names = [frame_name(f, rules) for f in frames]
    a = names[0] if names else "?"
    b = names[1] if len(names) > 1 else "?"
    return "leak:%s:%s<-%s" % (kind, a, b)

def diag_kind(text, res):
    if "syntax error" in text or "unterminated" in text:
        return "syntax-error"
    if "cannot open module" in text or "nested too deep" in text:
        return "missing-module"
    if res and res.get("compile") not in (0, None):
        return "type-error"
    if "error:" in text and res and res.get("compile") == 0 and res.get("msgs", 0) > 0:
        return "type-error"
    if res and res.get("exec") == 1:
        return "run-fault"
    return "success"

def run_stream(exe, items, workdir, repo, steps=200000, mem=5000, stack=200, tag="s"):
    """run all items through h_leak (restarting after a crash); returns list of per-item dicts:
    res (fields of the result line or None), diag (stderr section), new_leaks {stack_key: (kind, objs, bytes, frames)}, crash (asan text or None)"""
    stream = os.path.join(workdir, "%s_stream.txt" % tag)
    with open(stream, "wb") as fh:
        for i, it in enumerate(items):
            if it.get("history") is not None:
                fh.write(("H %d %d\n" % (i, len(it["history"]))).encode())
                for st in it["history"]:
                    if st[0] == "compile":
                        b = st[2].encode("utf-8", "replace")
                        fh.write(("compile %d %d\n" % (st[1], len(b))).encode() + b + b"\n")
                    else:
                        fh.write((" ".join(str(x) for x in st) + "\n").encode())
            else:
                b = it["src"].encode("utf-8", "replace")
                fh.write(("S %d %d %d %d %d %d\n" % (i, len(b), 1 if it.get("run") else 0, it.get("steps", steps), it.get("mem", mem), it.get("stack", stack))).encode())
                fh.write(b + b"\n")
    results = [dict(res=None, diag="", new_leaks={}, crash=None, blocks=[], exited=None) for _ in items]
    first = 0
    env = dict(os.environ, ASAN_OPTIONS="detect_leaks=1:abort_on_error=0:exitcode=0:allocator_may_return_null=1:malloc_context_size=12",
               LSAN_OPTIONS="max_leaks=0:exitcode=0:print_suppressions=0", UBSAN_OPTIONS="print_stacktrace=1",
               NEVER_PATH="%s:%s:%s" % (os.path.join(repo, "sample"), os.path.join(repo, "sample", "lib"),
                                         os.path.join(os.path.dirname(os.path.dirname(os.path.abspath(__file__))), "corpus", "leak", "modules")))
    restarts = 0
    while first < len(items):
        resf = os.path.join(workdir, "%s_res_%d.txt" % (tag, first))
        errf = os.path.join(workdir, "%s_err_%d.txt" % (tag, first))
        if os.path.exists(resf):
            os.remove(resf)
        try:
            with open(errf, "wb") as eh, open(os.devnull, "rb") as nul, open(os.devnull, "wb") as out:
                p = subprocess.run([exe, stream, resf, str(first)], stdin=nul, stdout=out, stderr=eh, env=env, cwd=workdir, timeout=3600)
            rc = p.returncode
        except subprocess.TimeoutExpired:
            rc = -999
        err = open(errf, "r", errors="replace").read()
        done = {}
        if os.path.exists(resf):
            for line in open(resf):
                w = line.split()
                if len(w) >= 6 and w[0] == "l":
                    results[int(w[1])]["blocks"].append((int(w[2]), int(w[3], 16), int(w[4], 16), int(w[5], 16), int(w[6]) if len(w) > 6 else 1))
                elif len(w) >= 3 and w[0] == "x":
                    results[int(w[1])]["exited"] = w[2]
                elif len(w) >= 2 and w[0] in ("r", "h"):
                    d = {}
                    for kv in w[2:]:
                        if "=" in kv:
                            k, v = kv.split("=", 1)
                            try: d[k] = int(v)
                            except ValueError: d[k] = v
                    d["trace"] = " ".join(w[2:])
                    done[int(w[1])] = d
        # split stderr into sections
        prev = {}
        sections = re.split(r"^@@BEGIN (\d+)\n", err, flags=re.M)
        last_idx = None
        for k in range(1, len(sections), 2):
            idx = int(sections[k]); body = sections[k + 1]
            last_idx = idx
            ended = ("@@END %d" % idx) in body
            body_main = body.split("@@END %d" % idx)[0]
            lsan_pos = body_main.find("ERROR: LeakSanitizer")
            diag = body_main if lsan_pos < 0 else body_main[:body_main.rfind("=====", 0, lsan_pos)]
            results[idx]["diag"] = diag[-4000:]
            if lsan_pos >= 0:
                rep_now = parse_lsan(body_main[lsan_pos:])
                new = {}
                for key, v in rep_now.items():
                    old = prev.get(key)
                    if old is None or v[1] > old[1]:
                        new[key] = (v[0], v[1] - (old[1] if old else 0), v[2] - (old[2] if old else 0), v[3])
                results[idx]["new_leaks"] = new
                prev = rep_now
            if idx in done:
                results[idx]["res"] = done[idx]
            if not ended and results[idx]["exited"] is None:
                m = re.search(r"ERROR: AddressSanitizer: (\S+)", body_main) or re.search(r"runtime error: ([^\n]*)", body_main)
                # keep the HEAD of the sanitizer report (error kind + first stack): a use-after-free report with its three stacks and the
                # shadow map is longer than any tail window, and the tail alone was classified as `died` (another property's business)
                hp = body_main.find("ERROR: AddressSanitizer")
                if hp < 0:
                    hp = body_main.find("runtime error: ")
                rtext = (body_main[max(0, hp - 200):][:7000] + "\n[...]\n" + body_main[-1500:]) if hp >= 0 else body_main[-6000:]
                results[idx]["crash"] = rtext if (m or rc != 0) else "harness died without a sanitizer report (rc=%s)" % rc
                if not results[idx]["crash"].strip():
                    results[idx]["crash"] = "harness died (rc=%s), no output" % rc
        if last_idx is None:
            break
        if ("@@END %d" % last_idx) in err and last_idx >= len(items) - 1:
            break
        if results[last_idx]["crash"] is None and ("@@END %d" % last_idx) in err:
            # harness stopped early without a crash (should not happen)
            first = last_idx + 1
        else:
            first = last_idx + 1
        restarts += 1
        if restarts > 400:
            break
    return results, restarts

def asan_signature(text):
    m = re.search(r"ERROR: AddressSanitizer: (\S+)", text)
    kind = m.group(1) if m else None
    if kind == "attempting":  # "attempting double-free" / "attempting free on address which was not malloc()-ed"
        kind = "double-free" if "double-free" in text else "bad-free"
    if kind is None:
        if re.search(r"runtime error: ", text): kind = "ubsan"
        elif re.search(r"Assertion .* failed", text): kind = "assert"
        elif "DEADLYSIGNAL" in text: kind = "signal"
        else: kind = "died"
    fn = "?"
    if kind == "assert":
        m = re.search(r": (\w+): Assertion", text)
        fn = m.group(1) if m else "?"
    else:
        for line in text.split("\n"):
            fm = FRAME.match(line)
            if fm and not fm.group(2).startswith("__interceptor_") and not fm.group(2).startswith("__asan") and not fm.group(2).startswith("__sanitizer") and not fm.group(2).startswith("__wrap_") and fm.group(2) not in ("free", "malloc", "printf_common", "vsnprintf", "vprintf", "memcpy", "strlen", "strcmp", "strdup"):
                fn = fm.group(2); break
    return "asan:%s:%s" % (kind, fn)

MEMORY_SAFETY_KINDS = ("heap-use-after-free", "double-free", "attempting", "alloc-dealloc-mismatch", "bad-free", "invalid-free")

LINK = ["-no-pie", "-Wl,--wrap=malloc,--wrap=free,--wrap=realloc,--wrap=calloc,--wrap=strdup,--wrap=strndup,--wrap=exit"]

def build(d):
    info = buildimpl.build("asan")
    return buildimpl.link_harness(info, os.path.join(VERIF, "harness", "h_leak.c"), os.path.join(d, "h_leak"), LINK)

def symbolize(exe, addrs):
    """{addr: (function, file basename, line)} through addr2line (the harness is linked -no-pie)"""
    addrs = sorted(a for a in set(addrs) if a)
    out = {}
    if not addrs:
        return out
    r = subprocess.run(["addr2line", "-f", "-e", exe] + ["0x%x" % (a - 1) for a in addrs], stdout=subprocess.PIPE, stderr=subprocess.DEVNULL, text=True)
    lines = r.stdout.split("\n")
    for i, a in enumerate(addrs):
        fn = lines[2 * i].strip() if 2 * i < len(lines) else "?"
        loc = lines[2 * i + 1].strip() if 2 * i + 1 < len(lines) else "?:0"
        f, _, ln = loc.partition(":")
        ln = re.match(r"\d+", ln)
        out[a] = (fn or "?", os.path.basename(f), int(ln.group(0)) if ln else 0)
    return out

def block_signatures(exe, results, kinds, rules):
    """per item: list of (signature, bytes) for the blocks the shim found still allocated"""
    sym = symbolize(exe, [a for r in results for b in r["blocks"] for a in b[1:4]])
    out = []
    for r, kind in zip(results, kinds):
        sigs = []
        for n, a0, a1, a2, root in r["blocks"]:
            frames = [sym.get(a, ("?", "", 0)) for a in (a0, a1, a2) if a]
            sigs.append((leak_signature(kind, frames, rules), n, [frame_name(f, rules) for f in frames], root))
        out.append(sigs)
    return out
