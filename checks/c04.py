"""C04 — garbage collection never disturbs a running program."""
from common import *
import vm_corr, vm_checks, gc_corr

PROP_MODULE = "NeverModel.Props.C04"
REQUIRED = ["Never.C04.collect_preserves_reachable", "Never.C04.collect_leaves_registers", "Never.C04.collect_preserves_edges",
            "Never.C04.collect_preserves_liveness", "Never.C04.collect_preserves_reachable_graph", "Never.C04.collect_twice_defined",
            "Never.C04.collect_twice_same_objects", "Never.C04.collect_keeps_wellTyped", "Never.C04.run_any_schedule_same_view",
            "Never.C04.safe_point_any_mode_same_view", "Never.C04.safe_point_never_fails", "Never.C04.collect_depends_on_root_set", "Never.C04.alloc_after_collect_not_live"]

def outcome_key(r, io):
    """the observable of the property: result, printed text, exception / error"""
    ex = [e.split(" ", 2)[2] for e in io["execs"]]
    ex = [" ".join(w for w in e.split() if not w.startswith(("sp_before", "sp_after"))) for e in ex]
    # the VM's own post-mortem dump (vm_print) shows raw heap addresses (gp) which legitimately
    # depend on the schedule: not program output
    import re
    out = re.sub(rb"\t(gp|mem_size): \d+\n", b"", r["out"])
    return (io["kind"], tuple(ex), out)

def check(tier, seed):
    rep = Report("C04", tier, seed, "proof")
    proof_stage(rep, PROP_MODULE, required=REQUIRED)
    # heap level: the collector itself against M-Heap (shared with C09)
    gres = gc_corr.run_correspondence(rep, tier, seed + 4)
    # VM level: same program under many schedules / heap sizes
    h = vm_corr.VmHarness()
    stats = {}
    if tier == "quick":
        configs = [dict(gc=0, mem=5000), dict(gc=1, mem=4000), dict(gc=0, mem=1200)]
        fam = vm_checks.family_jobs(seed, 1, [("9",), ("60",)])
        base = [j for j in vm_checks.sample_jobs()][(seed % 4)::4] + fam
    else:
        configs = [dict(gc=0, mem=5000), dict(gc=1, mem=5000), dict(gc=2, mem=200000), dict(gc=0, mem=1200), dict(gc=0, mem=700), dict(gc=1, mem=900), dict(gc=0, mem=20000)]
        fam = vm_checks.family_jobs(seed, 5, [("9",), ("60",), ("300",)])
        base = vm_checks.sample_jobs() + fam
    per_prog = {}
    nviol = [0]
    # every heap size of a window for the allocation-heavy family programs (80 % rule): the heap runs out, or the collector
    # is triggered, at every allocation of every multi-allocation handler in turn; all runs that complete must agree
    fine = []
    for j in fam:
        if j.get("meta", {}).get("alloc") and j["args"] == ["9"] and (tier != "quick" or j["name"].startswith(("alloc_records", "alloc_strings"))):
            for m in range(24, 150 if tier == "quick" else 400):
                fine.append(dict(j, name="%s_m%d" % (j["name"], m), group=j["name"] + "#fine", gc=0, mem=m))
    for ci, cfg in enumerate(configs + [None]):
        jobs = [dict(j, **cfg) for j in base] if cfg is not None else fine
        if cfg is None:
            cfg = dict(gc=0, mem="24..")
        def on_result(j, r, st, det, io, cfg=cfg):
            if st in ("no-run", "compile-crash", "skipped-ffi", "impl-timeout", "model-timeout"):
                return True
            k = io["kind"]
            if k.startswith("exit 1") and b"" == b"" and ("out of memory" in r["err"]):
                return st in ("ok",)   # heap too small for this program: outside the quantifier
            if k.startswith(("sanitizer", "signal", "assert", "crash")):
                # a crash that appears only under some schedule is a C04 failure; one that appears under all is C01's
                per_prog.setdefault(j.get("group", j["name"]), []).append((dict(gc=j.get("gc"), mem=j.get("mem")), ("CRASH", vm_checks.crash_signature(r)), r["err"][-600:]))
                return True
            if "stack too large" in r["err"]:
                return st == "ok"
            per_prog.setdefault(j.get("group", j["name"]), []).append((dict(gc=j.get("gc"), mem=j.get("mem")), outcome_key(r, io), ""))
            return False
        vm_checks.sweep(h, rep, jobs, "c04_cfg%d" % ci, stats, on_result)
    h.close()
    differing = 0
    for name, outs in per_prog.items():
        keys = {o[1] for o in outs}
        if len(keys) > 1:
            crash_only_some = any(o[1][0] == "CRASH" for o in outs) and not all(o[1][0] == "CRASH" for o in outs)
            differing += 1
            if nviol[0] < 3:
                nviol[0] += 1
                src = next((j.get("src") or ("file " + str(j.get("file"))) for j in base + fine if j.get("group", j["name"]) == name), "")
                rep.violation("c04_schedule_%s" % name, "# the outcome of program %s depends on heap size / collection schedule\n%s\n--- program ---\n%s" %
                              (name, "\n".join("# %s -> %s %s" % (o[0], str(o[1])[:300], o[2][-200:].replace("\n", " ")) for o in outs), src), True)
    rep.cov.update(trusted_base=["Lean 4.33 kernel", "axioms: propext, Classical.choice, Quot.sound", "harnesses h_gc.c, h_vm.c and comparators", "gcc/ASan/UBSan"],
                   evaluations=sum(v for k, v in stats.items() if not k.startswith("_")) + gres["total_ops"], distinct_nontrivial=len(per_prog),
                   rule="each program is run under every configuration (80%% rule at several heap sizes, collect at every safe point, never collect) and replayed on the Lean VM over M-Heap; outcomes (result, printed text, exception) are compared across configurations; plus the C09 collector histories",
                   samples=[dict(program=n, outcomes=len(o)) for n, o in list(per_prog.items())[:3]],
                   configs=configs, statuses={k: v for k, v in stats.items() if not k.startswith("_")}, programs_compared=len(per_prog), schedule_dependent=differing,
                   instructions_replayed=stats.get("_steps", 0), gc_histories=gres["stats"])
    rep.assumptions = ["C stack exhaustion inside the recursive gc_mark is runtime behaviour outside the model (depth bound 2*containers+3 is proved)",
                       "roots-complete-at-safe-points is validated by lockstep replay, not proved"]
    return rep.finish()

def replay(path):
    print(open(path).read()); return 0
