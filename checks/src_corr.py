"""Differential testing of the REAL pipeline (parser, typechecker, constant reducer, tail-call
marker, emitter, VM — harness/h_run.c, ASan/UBSan build with asserts) against the reference
evaluator `Never.Src.eval` (`nmdrv src`).  This is the oracle the properties C02/C08 name; the
Lean theorems in Props/C02.lean and Props/C08.lean are about the evaluator itself."""
import os, re, subprocess, sys
from common import *
import buildimpl
import nevast

MEM, STACK, FUEL = 400000, 20000, 200000

def build_harness(d):
    info = buildimpl.build("asan")
    exe = buildimpl.link_harness(info, os.path.join(VERIF, "harness", "h_run.c"), os.path.join(d, "h_run"))
    return exe

def arg_tok(a):
    k, v = a
    if k == "i":
        return "i:%d" % v
    if k == "f":
        return "f:%d" % v
    return "s:" + "".join("%02x" % c for c in v)

def run_impl(exe, jobs, timeout=600, mem=None, gc_mode=0, never_path=None):
    """jobs: [(id, source text, [args])] -> {id: dict(status, value, exc, is_assert, out(bytes), end)}"""
    inp = bytearray(("gc %d\n" % gc_mode).encode())
    for jid, src, args in jobs:
        b = src.encode("latin1")
        inp += ("prog %s %d %d %d %d %s\n" % (jid, len(b), mem or MEM, STACK, len(args), " ".join(arg_tok(a) for a in args))).encode()
        inp += b + b"\n"
    env = dict(os.environ, ASAN_OPTIONS="detect_leaks=0:abort_on_error=1", UBSAN_OPTIONS="print_stacktrace=0",
               NEVER_PATH=(never_path + ":" if never_path else "") + os.path.join(REPO, "sample", "lib"))   # `use m`
    r = subprocess.run([exe], input=bytes(inp), stdout=subprocess.PIPE, stderr=subprocess.PIPE, env=env, timeout=timeout)
    out = r.stdout
    res = {}
    pos = 0
    for jid, _, _ in jobs:
        sid = str(jid).encode()
        b = out.find(b"@@BEGIN " + sid + b"\n", pos)
        if b < 0:
            res[jid] = dict(status="harness_lost", value="-", exc="-", is_assert=False, out=b"", end="lost")
            continue
        body_start = b + len(b"@@BEGIN " + sid + b"\n")
        e = out.find(b"\n@@END " + sid + b" ", body_start)
        seg = out[body_start:e if e >= 0 else len(out)]
        endl = b""
        if e >= 0:
            le = out.find(b"\n", e + 1)
            endl = out[e + 1:le if le >= 0 else len(out)]
            pos = le if le >= 0 else len(out)
        m = re.search(rb"\n@@RESULT " + re.escape(sid) + rb" (\S+) (\S+) exc=(\S+) assert=(\d)\n", seg)
        mc = re.search(rb"@@CLOS " + re.escape(sid) + rb" (\d+)((?: \d+)*)\n", seg)
        clos = [int(x) for x in mc.group(2).split()] if mc else None
        if clos is not None and int(mc.group(1)) != len(clos):
            clos = None   # trace longer than the harness buffer: not compared
        end = endl.split(b" ")[-1].decode() if endl else "lost"
        if m:
            text = seg[:m.start()]
            status, value, exc, isa = m.group(1).decode(), m.group(2).decode(), m.group(3).decode(), m.group(4) == b"1"
        elif (b"\n@@LIMIT " + sid + b"\n") in seg:
            text, status, value, exc, isa = seg, "limit", "-", "-", False
        else:
            text, status, value, exc, isa = seg, "crashed", "-", "-", False
        u = text.find(b"\n@@UNHANDLED\n")
        if u >= 0:
            text = text[:u]
        elif status == "vm_error":
            k = text.rfind(b"machine:\n\tsp: ")
            if k >= 0:
                text = text[:k]
        res[jid] = dict(status=status, value=value, exc=exc, is_assert=isa, out=text, end=end, clos=clos)
    return res, r.stderr.decode("latin1")

def run_model(jobs, timeout=600):
    """jobs: [(id, sexpr, [args], fuel)] -> {id: dict(kind, value, out(bytes), clos)}"""
    lines = []
    for jid, sexpr, args, fuel in jobs:
        lines.append("run %s %d %s" % (jid, fuel, " ".join(arg_tok(a) for a in args)))
        lines.append(sexpr)
    r = subprocess.run([NMDRV, "src"], input=("\n".join(lines) + "\n").encode(), stdout=subprocess.PIPE, stderr=subprocess.PIPE, timeout=timeout)
    res = {}
    for line in r.stdout.decode("latin1").split("\n"):
        w = line.split(" ")
        if len(w) >= 4 and w[0] == "RESULT":
            d = dict(kind=w[2], value=w[3], out=b"", clos="", raised=[])
            for x in w[4:]:
                if x.startswith("out="):
                    d["out"] = bytes.fromhex(x[4:])
                elif x.startswith("clos="):
                    d["clos"] = x[5:]
                elif x.startswith("raised="):
                    d["raised"] = [y for y in x[7:].split(",") if y]
            res[w[1]] = d
    return res, r.stderr.decode("latin1")

def verdict(i, m):
    """compare one program: returns (class, detail).  class in agree | skip_crash | model_gap |
    rejected | disagree"""
    if m is None:
        return "model_gap", "no model answer"
    k = m["kind"]
    if i["status"] == "compile_error" or i["status"] == "no_entry":
        return "rejected", i["status"]
    if k == "modeldied":
        return "skip_modeldied", "the model process died on this program alone (runaway recursion or allocation)"
    if k in ("stuck", "parse-error"):
        return "model_gap", "%s %s" % (k, m["value"])
    if k == "outoffuel":
        return "model_gap", "out of fuel"
    if k == "crash":
        return "skip_crash", m["value"]
    if i["status"] == "limit":
        return "skip_limit", "the implementation reported a resource limit (out of memory / stack too large)"
    if i["end"] == "signal:14":
        return "skip_timeout", "the implementation did not finish within the harness alarm"
    if i["status"] in ("crashed", "harness_lost") or (i["end"] != "exit:0"):
        return "disagree", "implementation died (%s, %s); model says %s %s" % (i["status"], i["end"], k, m["value"])
    if i["out"] != m["out"]:
        return "disagree", "printed text differs: impl %r model %r" % (i["out"][-200:], m["out"][-200:])
    if k == "ok":
        if i["status"] == "ok" and i["value"] == m["value"]:
            return "agree", ""
        return "disagree", "result differs: impl %s %s exc=%s, model ok %s" % (i["status"], i["value"], i["exc"], m["value"])
    if k == "unhandled":
        if i["status"] == "vm_error" and i["exc"] == m["value"]:
            return "agree", ""
        return "disagree", "exception differs: impl %s %s exc=%s, model unhandled %s" % (i["status"], i["value"], i["exc"], m["value"])
    if k == "assert":
        if i["status"] == "vm_error" and i["is_assert"]:
            return "agree", ""
        return "disagree", "impl %s exc=%s assert=%s, model assert failed" % (i["status"], i["exc"], i["is_assert"])
    return "model_gap", "unknown model kind " + k

def run_pairs(exe, progs, fuel=FUEL, never_path=None):
    """progs: [(id, prog AST, args)] -> {id: (class, detail, impl, model)}"""
    ij, mj, bad = [], [], {}
    for jid, prog, args in progs:
        try:
            src = nevast.prog_src(prog)
            se = nevast.prog_sexpr(prog)
        except nevast.Unsupported as u:
            bad[jid] = ("unsupported", str(u), None, None)
            continue
        ij.append((jid, src, args)); mj.append((jid, se, args, fuel))
    ir, ierr = run_impl(exe, ij, never_path=never_path)
    try:
        mr, merr = run_model(mj, timeout=120)
    except subprocess.TimeoutExpired:
        mr, merr = {}, ""   # a runaway program (the evaluator's fuel bounds depth, not work): find it one by one
    missing = [j for j in mj if str(j[0]) not in mr]
    if missing:
        # the model process died (e.g. native stack overflow on a runaway program): re-run one by one
        for j in missing:
            try:
                one, _ = run_model([j], timeout=(120 if len(missing) < 5 else 20))
            except subprocess.TimeoutExpired:
                one = {}
            mr[str(j[0])] = one.get(str(j[0]), dict(kind="modeldied", value="-", out=b"", clos="", raised=[]))
    # programs made of several units: the reference evaluator on the UNLINKED units (elaborated by Never.Src.Mod.elaborate in
    # Lean) must say what it says on the program linked by nevast.link_units (cross-check of the two elaborations)
    uj = []
    for jid, prog, args in progs:
        if jid not in bad and isinstance(prog, dict) and "units" in prog:
            try:
                uj.append((str(jid) + "#units", nevast.units_sexpr(prog), args, fuel))
            except nevast.Unsupported:
                pass
    ur = {}
    if uj:
        try:
            ur, _ = run_model(uj, timeout=120)
        except subprocess.TimeoutExpired:
            ur = {}
    out = dict(bad)
    for jid, _, _ in ij:
        c, d = verdict(ir[jid], mr.get(str(jid)))
        u, m = ur.get(str(jid) + "#units"), mr.get(str(jid))
        if u is not None and m is not None and (u["kind"], u["value"], u["out"], u["clos"]) != (m["kind"], m["value"], m["out"], m["clos"]):
            c, d = "disagree", "the Lean elaboration of the units (Model/SrcMod.lean) and the linked program differ: units %s %s out=%r | linked %s %s out=%r" % (
                u["kind"], u["value"], u["out"][-120:], m["kind"], m["value"], m["out"][-120:])
        out[jid] = (c, d, ir[jid], mr.get(str(jid)))
    return out

# ---------------------------------------------------------------- shrinking on the AST

import copy

EXPR_TAGS = {"int", "long", "float", "double", "char", "str", "bool", "nil", "recnil", "var", "un", "bin", "and", "or", "cond",
             "assign", "seq", "while", "dowhile", "for", "forin", "call", "builtin", "lam", "arrlit", "arrnew", "index",
             "record", "tuple", "field", "enumval", "enumrec", "match", "iflet", "listcomp", "range", "slice", "pipe"}

def is_expr(x):
    return isinstance(x, list) and x and isinstance(x[0], str) and x[0] in EXPR_TAGS

def expr_paths(node, path, out):
    """all (path, node) of expression nodes reachable from a program"""
    if isinstance(node, dict):
        for k in ("body",):
            if k in node:
                expr_paths(node[k], path + [k], out)
        if "catches" in node:
            for i, c in enumerate(node["catches"]):
                expr_paths(c[1], path + ["catches", i, 1], out)
        if "funcs" in node and "recs" in node:
            for i, f in enumerate(node["funcs"]):
                expr_paths(f, path + ["funcs", i], out)
        return
    if isinstance(node, (list, tuple)):
        if is_expr(node):
            out.append((path, node))
        for i, x in enumerate(node):
            if isinstance(x, (list, dict, tuple)):
                expr_paths(x, path + [i], out)

def get_path(root, path):
    for k in path:
        root = root[k]
    return root

def set_path(root, path, val):
    for k in path[:-1]:
        root = root[k]
    if isinstance(root, tuple):
        raise TypeError
    root[path[-1]] = val

def sub_exprs(e):
    return [x for x in e[1:] if is_expr(x)] + [y for x in e[1:] if isinstance(x, list) and not is_expr(x) for y in x if is_expr(y)]

def candidates(prog):
    """smaller variants of prog (lazily)"""
    for i, f in enumerate(prog["funcs"]):
        if f["name"] != "main":
            q = copy.deepcopy(prog); del q["funcs"][i]; yield q
    paths = []
    expr_paths(prog, [], paths)
    for path, e in paths:
        if e[0] == "seq":
            items = e[1]
            for i in range(len(items) - 1):
                q = copy.deepcopy(prog); del get_path(q, path)[1][i]; yield q
            if len(items) == 1 and items[0][0] == "e" and path and path[-1] != "body":
                q = copy.deepcopy(prog)
                try:
                    set_path(q, path, copy.deepcopy(items[0][1])); yield q
                except TypeError:
                    pass
            for i, it in enumerate(items):
                if it[0] == "funcs" and len(it[1]) > 1:
                    for j in range(len(it[1])):
                        q = copy.deepcopy(prog); del get_path(q, path)[1][i][1][j]; yield q
    for i, f in enumerate(prog["funcs"]):
        pass
    # functions anywhere: drop catch clauses
    fpaths = []
    def fwalk(node, path):
        if isinstance(node, dict) and "catches" in node:
            fpaths.append(path)
        if isinstance(node, dict):
            for k, v in node.items():
                if isinstance(v, (list, dict, tuple)):
                    fwalk(v, path + [k])
        elif isinstance(node, (list, tuple)):
            for i, x in enumerate(node):
                if isinstance(x, (list, dict, tuple)):
                    fwalk(x, path + [i])
    fwalk(prog, [])
    for fp in fpaths:
        f = get_path(prog, fp)
        for j in range(len(f["catches"])):
            q = copy.deepcopy(prog); del get_path(q, fp)["catches"][j]; yield q
    for path, e in paths:
        if not path or path[-1] == "body":
            continue
        for s in sub_exprs(e):
            q = copy.deepcopy(prog)
            try:
                set_path(q, path, copy.deepcopy(s)); yield q
            except TypeError:
                pass
        if e[0] not in ("int", "bool", "float", "str", "nil"):
            for lit in (["int", 0], ["int", 1], ["bool", False], ["float", 0, "0.00"], ["str", b""]):
                q = copy.deepcopy(prog)
                try:
                    set_path(q, path, lit); yield q
                except TypeError:
                    pass

def prog_size(prog):
    paths = []
    expr_paths(prog, [], paths)
    return len(paths)

def shrink(prog, pred_batch, max_rounds=200, batch=40, budget_s=90):
    """greedy: take the first candidate for which pred holds; pred_batch(list) -> list of bool"""
    cur = prog
    t0 = time.time()
    for _ in range(max_rounds):
        if time.time() - t0 > budget_s:
            return cur
        gen = candidates(cur)
        found = None
        while found is None:
            chunk = []
            for q in gen:
                chunk.append(q)
                if len(chunk) >= batch:
                    break
            if not chunk:
                break
            oks = pred_batch(chunk)
            if time.time() - t0 > budget_s:
                return cur if found is None else found
            for q, ok in zip(chunk, oks):
                if ok:
                    found = q; break
        if found is None:
            return cur
        cur = found
    return cur

# ---------------------------------------------------------------- streams, corpus, findings

import collections, glob, json, shutil, time
import src_gen

NLIB_CACHE = {}

def library_closures(exe):
    """number of closures the runtime builds before user code (library functions + main)"""
    if exe not in NLIB_CACHE:
        r, _ = run_impl(exe, [("nlib", "func main() -> int { 0 }", [])])
        c = r["nlib"]["clos"]
        NLIB_CACHE[exe] = (len(c) - 1) if c else 31
    return NLIB_CACHE[exe]

def replay_text(title, prog, args, detail, extra=""):
    try:
        src = nevast.prog_src(prog); se = nevast.prog_sexpr(prog)
    except Exception as e:
        src, se = "<unprintable: %r>" % (e,), ""
    return ("# %s\n# %s\n%s#@args %s\n#@sexpr %s\n#@source\n%s" %
            (title, detail.replace("\n", " ")[:1500], extra, " ".join(arg_tok(a) for a in args), se, src))

def parse_replay(path):
    txt = open(path, encoding="latin1").read()
    args, se, src = [], None, None
    lines = txt.split("\n")
    for i, l in enumerate(lines):
        if l.startswith("#@args"):
            for w in l.split()[1:]:
                k, v = w.split(":", 1)
                args.append((k, int(v)) if k in "if" else (k, bytes.fromhex(v)))
        elif l.startswith("#@sexpr "):
            se = l[len("#@sexpr "):]
        elif l.startswith("#@source"):
            src = "\n".join(lines[i + 1:])
            if "\n#@twin\n" in src:
                src = src[:src.index("\n#@twin\n")] + "\n"
            break
    return src, se, args

def replay_file(path):
    d = scratch_dir("srcreplay")
    try:
        exe = build_harness(d)
        src, se, args = parse_replay(path)
        try:
            # the SOURCE is the replayed input; its s-expression is re-derived with the current printer (a stored one may
            # predate a change of the protocol, e.g. the marking of extent-name uses); the stored one is the fallback
            se = nevast.prog_sexpr(nevast.parse_program(src, sample_module_loader))
        except Exception:
            pass
        ir, ierr = run_impl(exe, [("r", src, args)])
        mr, _ = run_model([("r", se, args, FUEL)])
        c, det = verdict(ir["r"], mr.get("r"))
        print("implementation:", ir["r"]["status"], ir["r"]["value"], "exc=" + ir["r"]["exc"], ir["r"]["end"], repr(ir["r"]["out"][-300:]))
        print("model         :", mr.get("r"))
        print("verdict       :", c, det)
        if ierr.strip():
            print("stderr        :", ierr[-600:])
        return 0 if c in ("agree", "skip_crash", "skip_limit", "skip_timeout") else 1
    finally:
        shutil.rmtree(d, ignore_errors=True)

def later_binding_pattern(prog):
    """the syntactic shape of the pinned tree's freevar defect: a function nested in a block uses a
    name free, and the same block (or an enclosing one up to the enclosing function) binds that
    name AFTER the function"""
    hit = [False]
    def fv_names(f):
        s = set(); src_gen.names_used(f, s); return s
    def walk_expr(e, pending):
        # pending: list of sets (one per enclosing block of the current function) of names used by
        # functions already seen in that block or below
        if isinstance(e, dict):
            walk_func(e); return
        if not isinstance(e, (list, tuple)) or not e:
            return
        if isinstance(e, list) and e[0] == "seq":
            mine = set()
            stack = pending + [mine]
            for it in e[1]:
                if it[0] in ("let", "varb"):
                    walk_expr(it[2], stack)
                    if any(it[1] in s for s in stack):
                        hit[0] = True
                elif it[0] == "funcs":
                    for f in it[1]:
                        walk_func(f)
                        u = fv_names(f)
                        for s in stack:
                            s |= u
                else:
                    walk_expr(it[1], stack)
            return
        if isinstance(e, list) and e[0] == "lam":
            walk_func(e[1])
            u = fv_names(e[1])
            for s in pending:
                s |= u
            return
        if isinstance(e, list) and e[0] in ("listcomp", "forin", "match", "iflet"):
            # binders living in the construct's own table: qualifier variables, the for-in variable, match bindings
            if e[0] == "listcomp":
                binders = [q[1] for q in e[3] if q[0] == "gen"]
            elif e[0] == "forin":
                binders = [e[1]]
            elif e[0] == "match":
                binders = [b for g in e[2] if g[0] == "grec" for b in g[3]]
            else:
                binders = list(e[1][3]) if e[1][0] == "grec" else []
            inner_funcs = set()
            def collect(x):
                if isinstance(x, dict):
                    inner_funcs.update(fv_names(x)); return
                if isinstance(x, (list, tuple)):
                    for y in x:
                        if isinstance(y, (list, tuple, dict)):
                            collect(y)
            collect(e)
            if any(b in inner_funcs for b in binders):
                hit[0] = True
        for x in e:
            if isinstance(x, (list, tuple, dict)):
                walk_expr(x, pending)
    def walk_func(f):
        walk_expr(f["body"], [])
        for c in f["catches"]:
            walk_expr(c[1], [])
    for f in prog["funcs"]:
        walk_func(f)
    return hit[0]

KNOWN_DEFECT_PROBES = [
    # (property ids, signature, source)
    (("C08",), "freevar-resolved-against-later-binding",
     "func main() -> int\n{\n    let x = 5;\n    {\n        func go1() -> int { x };\n        var x = 7;\n        go1()\n    }\n}\n"),
    (("C08", "C02"), "inner-function-captures-enclosing-nested-function-wrong-slot",
     "func outer(k : int) -> int\n{\n    func g(n : int, s : int) -> int\n    {\n        func h(m : int) -> int { m <= 0 ? k + s : g(m - 1, s + 3) + 1 };\n        h(n)\n    };\n    g(1, 100)\n}\nfunc main() -> int\n{\n    outer(5)\n}\n"),
    (("C02",), "constred-long-mul-reads-int-value",
     "func main() -> long\n{\n    4294967296L * 3L\n}\n"),
    # `false ? r1 : r2` over ranges, indexed, as an operand of array arithmetic: the reduced conditional's type is freed while the
    # addition still points at it (release build: "cannot add type array"; ASan: heap-use-after-free in expr_add_emit)
    (("C02",), "constred-cond-of-ranges-frees-type-still-used",
     "func main() -> int\n{\n    let t = ([ 2 ] : int) + (false ? [ 2 .. 3 ] : [ 5 .. 5 ])[0];\n    t[0]\n}\n"),
    # a module's top-level bindings run BEFORE those of the modules it uses (when the main unit does not `use` them first):
    # `let B = A + mb.X` reads mb.X uninitialised (release build: garbage; asserts on: gc_get_int assertion)
    (("C02",), "module-bindings-initialised-before-used-modules",
     "use ma\n\nfunc main() -> int\n{\n    print(ma.B);\n    0\n}\n",
     {"ma": "module ma {\n    use mb\n    var A = print(1);\n    let B = A + mb.X;\n    func fa(x : int) -> int { A = A + x; A + B }\n}\n",
      "mb": "module mb {\n    var X = print(2);\n    func fb(x : int) -> int { X = X + x; X }\n}\n"}),
]

def run_known_probes(rep, exe):
    """each known defect of the pinned tree: a fixed witness; I vs S.  Still wrong -> finding
    (KNOWN-FINDING when listed); agrees with S -> repaired, nothing to say."""
    hits = []
    for probe in KNOWN_DEFECT_PROBES:
        pids, sig, src = probe[:3]
        mods = probe[3] if len(probe) > 3 else None
        if rep.pid not in pids:
            continue
        mdir = None
        if mods:
            mdir = scratch_dir("probemods")
            for mn, text in mods.items():
                with open(os.path.join(mdir, mn + ".nev"), "w") as fh:
                    fh.write(text)
        prog = nevast.parse_program(src, (lambda n: mods.get(n)) if mods else None)
        res = run_pairs(exe, [("probe", prog, [])], never_path=mdir)
        if mdir:
            shutil.rmtree(mdir, ignore_errors=True)
        c, det, i, m = res["probe"]
        if c == "agree":
            continue
        hits.append(sig)
        rep.finding(sig, replay_text("known-defect witness " + sig, prog, [], det))
    return hits

def clear_replays(pid):
    for f in glob.glob(os.path.join(VERIF, "evidence", "replay", "%s_*" % pid)):
        try:
            os.remove(f)
        except OSError:
            pass

RANGE_SLICE_TAGS = ("range:", "slice:", "string:slice", "forin:over-", "forin:to-bound", "listcomp:over-", "listcomp2:over-", "fold:", "param:bounds-")

def stream(rep, exe, tier, seed, n, knobs, twins, tag, small_heap=None):
    """generated programs (and their alpha-renamed twins) through I and S; disagreements are
    shrunk and reported.  Returns statistics."""
    rng = Rng(seed)
    nlib = library_closures(exe)
    st = dict(programs=0, runs=0, agree=0, rejected=0, skipped_model_crash=0, skipped_out_of_fuel=0, model_gap=0,
              disagree=0, twin_mismatch=0, clos_compared=0, clos_nonzero=0, clos_mismatch=0,
              outcomes=collections.Counter(), exceptions=collections.Counter(), exceptions_raised=collections.Counter(), constructs=collections.Counter(),
              conds=0, nonconst_conds=0, progs_with_nonconst_cond=0, progs_with_output=0, progs_with_ranges_or_slices=0, samples=[])
    chunk = 60
    done = 0
    reported = 0
    rejected_prog = {}
    while done < n:
        if reported >= 3:
            st["stopped_early_after_disagreements"] = done
            break
        m = min(chunk, n - done)
        batch, meta = [], {}
        for j in range(m):
            p, args, gs = src_gen.generate(rng.fork(), knobs)
            jid = "%s%d" % (tag, done + j)
            batch.append((jid, p, args)); meta[jid] = (p, args, gs, None)
            if twins:
                for tn, nu in (("a", src_gen.nu_name_depth), ("b", src_gen.nu_level), ("c", src_gen.nu_collide)):
                    q = src_gen.rename(p, nu)
                    batch.append((jid + tn, q, args)); meta[jid + tn] = (q, args, gs, jid)
        res = run_pairs(exe, batch)
        if small_heap:
            # the same programs with a heap so small that the collector runs all the time: captured cells
            # must survive every collection (differences = the program's behaviour depends on the schedule)
            jobs = [(jid, nevast.prog_src(p), args) for jid, (p, args, gs, orig) in meta.items() if orig is None and res[jid][0] == "agree"]
            sres, _ = run_impl(exe, jobs, mem=small_heap, gc_mode=1)
            for jid, _, _ in jobs:
                a, b = res[jid][2], sres[jid]
                st["small_heap_runs"] = st.get("small_heap_runs", 0) + 1
                if b["status"] == "limit" or b["end"] == "signal:14":
                    st["small_heap_out_of_memory"] = st.get("small_heap_out_of_memory", 0) + 1
                    continue
                if (a["status"], a["value"], a["exc"], a["out"], a["is_assert"]) != (b["status"], b["value"], b["exc"], b["out"], b["is_assert"]):
                    st["small_heap_mismatch"] = st.get("small_heap_mismatch", 0) + 1
                    if reported < 3:
                        reported += 1
                        p, args = meta[jid][0], meta[jid][1]
                        rep.violation("smallheap_%s" % jid, replay_text(
                            "with a %d-cell heap and a collection at EVERY safe point the program behaves differently: a cell still in use did not survive" % small_heap,
                            p, args, "default heap: %s %s out=%r | small heap: %s %s %s out=%r" % (a["status"], a["value"], a["out"][-80:], b["status"], b["value"], b["end"], b["out"][-80:])), True)
        for jid, (p, args, gs, orig) in meta.items():
            c, det, i, mo = res[jid]
            st["runs"] += 1
            if orig is None:
                st["programs"] += 1
                for u in gs["used"]:
                    st["constructs"][u] += 1
                if any(u.startswith(RANGE_SLICE_TAGS) for u in gs["used"]):
                    st["progs_with_ranges_or_slices"] += 1
                st["conds"] += gs["conds"]; st["nonconst_conds"] += gs["nonconst_conds"]
                if gs["nonconst_conds"]:
                    st["progs_with_nonconst_cond"] += 1
                if mo and mo["out"]:
                    st["progs_with_output"] += 1
                if mo:
                    st["outcomes"][mo["kind"]] += 1
                    if mo["kind"] == "unhandled":
                        st["exceptions"][mo["value"]] += 1
                    for ex in mo.get("raised", []):
                        st["exceptions_raised"][ex] += 1
                if len(st["samples"]) < 3 and (done + len(st["samples"])) % 7 == 0 and i is not None:
                    st["samples"].append(dict(id=jid, impl="%s %s exc=%s" % (i["status"], i["value"], i["exc"]),
                                              model="%s %s" % (mo["kind"], mo["value"]) if mo else None,
                                              out=repr((mo or {}).get("out", b"")[:60])))
            if c == "agree":
                st["agree"] += 1
                if i["clos"] is not None and mo["kind"] == "ok":
                    ic = [x for x in i["clos"][nlib:] if x]
                    mc = [int(x) for x in mo["clos"].split(",") if x and int(x)]
                    st["clos_compared"] += 1; st["clos_nonzero"] += len(mc)
                    if ic != mc:
                        st["clos_mismatch"] += 1
                        if reported < 3:
                            reported += 1
                            rep.violation("clos_%s" % jid, replay_text(
                                "free-variable lists differ: environment vector sizes built by the real compiler %s vs |fv| of the model %s" % (ic, mc),
                                p, args, "fv_exact is about the model's list; the real compiler's lists no longer match it"), True)
            elif c == "rejected":
                st["rejected"] += 1
                if len(st.setdefault("rejected_examples", [])) < 3:
                    st["rejected_examples"].append(dict(id=jid, stderr_hint=det))
                    rejected_prog[jid] = (p, args)
            elif c == "skip_crash":
                st["skipped_model_crash"] += 1
            elif c in ("skip_limit", "skip_modeldied", "skip_timeout"):
                st[c] = st.get(c, 0) + 1
            elif c == "model_gap" and "fuel" in det:
                st["skipped_out_of_fuel"] += 1
            elif c == "model_gap":
                st["model_gap"] += 1
                if reported < 3:
                    reported += 1
                    rep.violation("modelgap_%s" % jid, replay_text("the reference evaluator is stuck on a generated program (generator/model defect, not a verdict about the code)", p, args, det), False)
            else:
                st["disagree"] += 1
                if reported < 3:
                    reported += 1
                    report_disagreement(rep, exe, jid, p, args, det)
        if twins:
            for jid, (p, args, gs, orig) in meta.items():
                if orig is not None:
                    continue
                keys = []
                for x in (jid, jid + "a", jid + "b"):
                    c, det, i, mo = res[x]
                    keys.append(None if i is None else (i["status"], i["value"], i["exc"], i["out"], i["is_assert"], i["end"]))
                if not (keys[0] == keys[1] == keys[2]):
                    st["twin_mismatch"] += 1
                    classes = [res[x][0] for x in (jid, jid + "a", jid + "b")]
                    if "disagree" in classes or "model_gap" in classes:
                        continue   # reported above for the twin that differs from S
                    if "skip_limit" in classes or "skip_crash" in classes or "skip_modeldied" in classes or "skip_timeout" in classes:
                        continue
                    if reported < 3:
                        reported += 1
                        which = [x for x, k in zip(("original", "twin name_depth", "twin level"), keys) if k != keys[0]] or ["?"]
                        q = meta[jid + "a"][0]
                        rep.violation("twin_%s" % jid, replay_text(
                            "a program and its alpha-renamed twin do not behave alike on the real pipeline: classes %s (differs: %s)" % (classes, ", ".join(which)),
                            p, args, "original: %r | twin name_depth: %r | twin level: %r" % (keys[0], keys[1], keys[2]),
                            extra="# twin (name_depth) source follows the original below\n") +
                            "\n#@twin\n" + nevast.prog_src(q), True)
        done += m
    for k in ("outcomes", "exceptions", "exceptions_raised", "constructs"):
        st[k] = dict(st[k])
    # a SYSTEMATIC rejection of generated programs (the unchanged tree accepts all of them: measured 0 of
    # > 40 000) means the front end no longer accepts part of the core; a single stray one is only counted
    if st.get("skip_timeout", 0) >= 3 and st.get("skip_timeout", 0) * 100 >= st["runs"]:
        rep.violation("timeouts_%s" % tag, "%d of %d generated (terminating by construction) programs did not finish on the real implementation within the harness alarm; the reference evaluator finishes all of them" % (st["skip_timeout"], st["runs"]), False)
    if st["rejected"] >= 3 and st["rejected"] * 100 >= st["runs"]:
        ex = st.get("rejected_examples", [{}])[0]
        p0 = rejected_prog.get(ex.get("id"))
        rep.violation("rejected_%s" % tag, replay_text(
            "%d of %d generated programs of the modelled core are rejected by the real compiler (0 on the unchanged tree)" % (st["rejected"], st["runs"]),
            p0[0] if p0 else dict(recs=[], enums=[], funcs=[]), p0[1] if p0 else [], "first rejected program below; compiler messages on stderr of --replay"), p0 is not None)
    return st

SHRUNK = set()

def detail_twin(prog):
    """copy of prog in which every self call in tail position of the body of a function that HAS catch clauses is bound to a
    name first (`{ let tw__r = f(…); tw__r }`), i.e. taken out of tail position.  -> (twin, number of calls moved)"""
    q = copy.deepcopy(prog)
    cnt = [0]
    def tail(e, name, shadow):
        # rewrite e (an expression in tail position); returns the new expression
        t = e[0]
        if t == "call" and e[1][0] == "var" and e[1][1] == name and name not in shadow:
            cnt[0] += 1
            return ["seq", [["let", "tw__r%d" % cnt[0], e], ["e", ["var", "tw__r%d" % cnt[0]]]]]
        if t == "cond":
            e[2] = tail(e[2], name, shadow); e[3] = tail(e[3], name, shadow)
        elif t == "seq" and e[1] and e[1][-1][0] == "e":
            sh = set(shadow)
            for it in e[1]:
                if it[0] in ("let", "varb"):
                    sh.add(it[1])
                elif it[0] == "funcs":
                    sh.update(f["name"] for f in it[1])
            e[1][-1][1] = tail(e[1][-1][1], name, sh)
        elif t == "match":
            for g in e[2]:
                if g[0] == "grec":
                    g[4] = tail(g[4], name, shadow)     # the marker does not see match-bound names: no shadowing
                elif g[0] == "gitem":
                    g[3] = tail(g[3], name, shadow)
                else:
                    g[1] = tail(g[1], name, shadow)
        elif t == "iflet":
            g = e[1]
            if g[0] == "grec":
                g[4] = tail(g[4], name, shadow)
            elif g[0] == "gitem":
                g[3] = tail(g[3], name, shadow)
            if e[3] is not None:
                e[3] = tail(e[3], name, shadow)
        return e
    def walk_funcs(node):
        if isinstance(node, dict) and "catches" in node and "body" in node:
            if node["catches"] and node.get("name"):
                node["body"] = tail(node["body"], node["name"], {p["name"] for p in node["params"]})
            walk_funcs(node["body"])
            for c in node["catches"]:
                walk_funcs(c[1])
            return
        if isinstance(node, dict):
            for v in node.values():
                if isinstance(v, (list, dict)):
                    walk_funcs(v)
        elif isinstance(node, list):
            for x in node:
                if isinstance(x, (list, dict)):
                    walk_funcs(x)
    for f in q["funcs"]:
        walk_funcs(f)
    return q, cnt[0]

def report_disagreement(rep, exe, jid, p, args, det):
    def cls(progs):
        r = run_pairs(exe, [(i, q, args) for i, q in enumerate(progs)])
        return [r[i] for i in range(len(progs))]
    def pred(progs):
        return [c[0] == "disagree" for c in cls(progs)]
    try:
        q = shrink(p, pred, max_rounds=120, budget_s=(60 if not SHRUNK else 15))
        SHRUNK.add(jid)
    except Exception:
        q = p
    r = cls([q])[0]
    extra = ""
    ierr = ""
    try:
        _, ierr = run_impl(exe, [("x", nevast.prog_src(q), args)])
    except Exception:
        pass
    if "unknown freevar" in ierr and later_binding_pattern(q):
        rep.finding("freevar-resolved-against-later-binding", replay_text("generated program hits the known freevar defect", q, args, r[1]))
        return
    # known finding tail-call-under-own-catch-clauses: the disagreement disappears when the self calls in tail position of the
    # functions WITH catch clauses are taken out of tail position (`{ let r = f(…); r }`: same value, frame kept)
    try:
        tw, n = detail_twin(q)
        if n and cls([tw])[0][0] == "agree":
            rep.finding("tail-call-under-own-catch-clauses", replay_text(
                "generated program hits the known defect: a self tail call in a function with catch clauses (the twin with %d such call(s) moved out of tail position agrees with the reference evaluator)" % n, q, args, r[1]))
            return
    except Exception:
        pass
    rep.violation("disagree_%s" % jid, replay_text(
        "the real pipeline and the reference evaluator disagree (shrunk from generated program %s)" % jid, q, args, r[1],
        extra="# stderr: %s\n" % ierr[-300:].replace("\n", " | ")), True)

def module_stream(rep, exe, seed, n, tag="m"):
    """generated MULTI-UNIT programs (src_modgen): real pipeline on the files = S on the linked program = S on the unlinked
    units elaborated in Lean"""
    import src_modgen
    rng = Rng(seed ^ 0x5eed)
    mdir = scratch_dir("modstream")
    st = dict(programs=0, agree=0, disagree=0, rejected=0, other=0, units=0, with_output=0)
    def alpha(i):
        s = ""
        while True:
            s = chr(97 + i % 26) + s; i //= 26
            if i == 0:
                return "m" + s + "x"
    try:
        progs, texts = [], {}
        for i in range(n):
            main, mods = src_modgen.generate(rng.fork(), alpha(i))
            for mn, text in mods.items():
                with open(os.path.join(mdir, mn + ".nev"), "w") as fh:
                    fh.write(text)
            try:
                p = nevast.parse_program(main, lambda nm, mods=mods: mods.get(nm))
            except (nevast.Unsupported, nevast.ParseError) as e:
                st["other"] += 1; continue
            jid = "%s%d" % (tag, i)
            progs.append((jid, p, [])); texts[jid] = (main, mods)
            st["units"] += len(p["units"])
        reported = 0
        for k in range(0, len(progs), 60):
            res = run_pairs(exe, progs[k:k + 60], never_path=mdir)
            for jid, p, _ in progs[k:k + 60]:
                c, det, i, mo = res[jid]
                st["programs"] += 1
                if mo and mo["out"]:
                    st["with_output"] += 1
                if c == "agree":
                    st["agree"] += 1
                elif c == "rejected":
                    st["rejected"] += 1
                elif c == "disagree":
                    st["disagree"] += 1
                    if reported < 3:
                        reported += 1
                        main, mods = texts[jid]
                        rep.violation("modules_%s" % jid, "multi-unit program: real pipeline / reference evaluator (linked, and elaborated from the units in Lean) disagree\n# %s\n%s\n%s" % (
                            det, "\n".join("# ---- %s.nev\n%s" % (mn, t) for mn, t in mods.items()), "# ---- main\n" + main), True)
                else:
                    st["other"] += 1
        if st["rejected"] >= 3:
            rep.violation("modules_rejected", "%d of %d generated multi-unit programs are rejected by the real compiler" % (st["rejected"], st["programs"]), False)
    finally:
        shutil.rmtree(mdir, ignore_errors=True)
    return st

def sample_module_loader(name):
    """`use name` of a sample program: /repo/sample/lib/name.nev (what NEVER_PATH points the real scanner at)"""
    f = os.path.join(REPO, "sample", "lib", name + ".nev")
    return open(f, encoding="latin1").read() if os.path.exists(f) else None

def sample_corpus(rep, exe, roundtrip=False):
    """the hand corpus: every /repo/sample/*.nev that lies inside the modelled core, parsed by
    nevast.parse_program (own parser), printed back and compared (I on the ORIGINAL text, I on the
    printed text, S on the AST)."""
    files = sorted(glob.glob(os.path.join(REPO, "sample", "*.nev")))
    why = collections.Counter()
    progs, origs = [], []
    for f in files:
        name = os.path.basename(f)[:-4]
        src = open(f, encoding="latin1").read()
        try:
            p = nevast.parse_program(src, sample_module_loader)
            nevast.prog_sexpr(p); nevast.prog_src(p)
        except nevast.Unsupported as u:
            why["outside core: " + str(u).split(" ")[0]] += 1; continue
        except nevast.ParseError:
            why["not parsed by the core parser"] += 1; continue
        mains = [fn for fn in p["funcs"] if fn["name"] == "main"]
        if not mains or mains[0]["params"]:
            why["main takes parameters / no main"] += 1; continue
        progs.append((name, p, [])); origs.append((name, src, []))
    linked = sum(1 for _, p, _ in progs if "modules" in p)
    st = dict(files=len(files), in_core=len(progs), linked_with_modules_or_top_level_items=linked, agree=0, rejected_negative_samples=0, out_of_core_at_run_time=0,
              printer_roundtrip_mismatch=0, disagree=0, skipped=dict(why), with_output=0, roundtrip_checked=roundtrip)
    reported = 0
    for k in range(0, len(progs), 80):
        if reported >= 3:
            st["stopped_early_after_disagreements"] = k
            break
        chunk = progs[k:k + 80]
        res = run_pairs(exe, chunk)
        ores = run_impl(exe, origs[k:k + 80])[0] if roundtrip else None
        for name, p, _ in chunk:
            c, det, i, mo = res[name]
            if ores is not None:
                o = ores[name]
                same = (i["status"], i["value"], i["exc"], i["out"], i["is_assert"]) == (o["status"], o["value"], o["exc"], o["out"], o["is_assert"])
                if not same:
                    st["printer_roundtrip_mismatch"] += 1
                    continue
            if c == "agree":
                st["agree"] += 1
                if mo["out"]:
                    st["with_output"] += 1
            elif c == "rejected":
                st["rejected_negative_samples"] += 1
            elif c in ("model_gap", "skip_crash", "skip_limit", "skip_modeldied", "skip_timeout"):
                st["out_of_core_at_run_time"] += 1
            else:
                st["disagree"] += 1
                if reported < 3:
                    reported += 1
                    rep.violation("sample_%s" % name, replay_text("sample program %s: real pipeline and reference evaluator disagree" % name, p, [], det), True)
    return st

def seed_corpus(rep, exe, gc_every=False):
    """corpus/src/*.nev — hand seeds and minimised past failures, run first (with twins)"""
    files = sorted(glob.glob(os.path.join(VERIF, "corpus", "src", "*.nev")))
    progs = []
    for f in files:
        src = open(f, encoding="latin1").read()
        p = nevast.parse_program(src)
        mains = [fn for fn in p["funcs"] if fn["name"] == "main"]
        args = [("i", 3)] * len(mains[0]["params"]) if mains else []
        name = "seed_" + os.path.basename(f)[:-4]
        progs.append((name, p, args))
        progs.append((name + "_a", src_gen.rename(p, src_gen.nu_name_depth), args))
        progs.append((name + "_b", src_gen.rename(p, src_gen.nu_level), args))
        progs.append((name + "_c", src_gen.rename(p, src_gen.nu_collide), args))
    res = run_pairs(exe, progs)
    st = dict(files=len(files), runs=len(progs), agree=0, disagree=0)
    for name, p, args in progs:
        c, det, i, mo = res[name]
        if c == "agree":
            st["agree"] += 1
        else:
            st["disagree"] += 1
            rep.violation(name, replay_text("seed corpus program %s: real pipeline and reference evaluator disagree (%s)" % (name, c), p, args, det), c == "disagree")
    if gc_every:
        jobs = [(name, nevast.prog_src(p), args) for name, p, args in progs if res[name][0] == "agree"]
        sres, _ = run_impl(exe, jobs, mem=3000, gc_mode=1)
        st["gc_every_safe_point_runs"] = len(jobs)
        for name, _, _ in jobs:
            a, b = res[name][2], sres[name]
            if b["status"] != "limit" and b["end"] != "signal:14" and (a["status"], a["value"], a["exc"], a["out"]) != (b["status"], b["value"], b["exc"], b["out"]):
                st["disagree"] += 1
                p, args = [(q, r) for n, q, r in progs if n == name][0]
                rep.violation(name + "_gc", replay_text("seed %s behaves differently when the collector runs at every safe point" % name, p, args,
                              "default: %s %s | gc-every: %s %s %s" % (a["status"], a["value"], b["status"], b["value"], b["end"])), True)
    return st
