"""C17 correspondence.

(X1) walk:  M-FFI (`nmdrv ffi`) <-> the static walk functions of back/vmffi.c (harness h_ffi,
            which #includes vmffi.c from the tree under test) on seeded descriptors/values:
            type parse + libffi sizes, packed bytes, unpacked values, consumed code, final offset.
            Well-formed descriptors (as the emitter writes them), and mutated ones.
(X2) emit:  the descriptor the real front end emits for a generated extern declaration
            <-> `emitSig` of the model.
(X3) e2e:   generated extern signatures, a generated C callee (gcc, .so) and a generated Never
            program run by the real `never` binary: what the callee received, what the program got
            back, `offsetof`/`sizeof` of the C declarations vs the model's `cLeaves`/`cSize`;
            failure paths (missing library / symbol, nil string / nil record).

Types: 'b','i','l','f','d','c','s','p' scalars, ('r', [types]) record."""
import os, shutil, struct, subprocess, json
from concurrent.futures import ThreadPoolExecutor
from common import *
import buildimpl

PRIMS = "bilfdcsp"
PSIZE = dict(b=1, i=4, l=8, f=4, d=8, c=1, s=8, p=8)
STR_BASE = 0x10000000
ENV = dict(os.environ, ASAN_OPTIONS="detect_leaks=0:abort_on_error=0", UBSAN_OPTIONS="print_stacktrace=0")

# ------------------------------------------------------------------ reference layout (S level, Python)
def rup(v, a):
    return (v + a - 1) // a * a

def t_align(t):
    return PSIZE[t] if isinstance(t, str) else max([t_align(x) for x in t[1]] or [1])

def t_size(t):
    if isinstance(t, str):
        return PSIZE[t]
    off = 0
    for x in t[1]:
        off = rup(off, t_align(x)) + t_size(x)
    return rup(off, t_align(t))

def t_leaves(t, base=0):
    """[(prim, offset)] in declaration order"""
    if isinstance(t, str):
        return [(t, base)]
    out, off = [], 0
    for x in t[1]:
        off = rup(off, t_align(x))
        out += t_leaves(x, base + off)
        off += t_size(x)
    return out

def t_structs(t):
    """size/align of every struct, preorder"""
    if isinstance(t, str):
        return []
    out = ["%d/%d" % (t_size(t), t_align(t))]
    for x in t[1]:
        out += t_structs(x)
    return out

def t_tokens(t):
    if isinstance(t, str):
        return [t]
    out = ["{"]
    for x in t[1]:
        out += t_tokens(x)
    return out + ["}"]

def t_depth(t):
    return 0 if isinstance(t, str) else 1 + max([t_depth(x) for x in t[1]] or [0])

def emit_desc(t):
    """Python copy of the emitter's descriptor (used only to build walk ops)"""
    if isinstance(t, str):
        return [t]
    inner = []
    for x in t[1]:
        inner += emit_desc(x)
    return ["r%d/%d" % (len(t[1]), 1 + len(inner))] + inner

# ------------------------------------------------------------------ generators
def gen_type(rng, depth, maxf=5, prims=PRIMS):
    if depth == 0 or rng.chance(0.6):
        return rng.choice(prims)
    return ("r", [gen_type(rng, depth - 1, maxf, prims) for _ in range(rng.range(1, maxf))])

def gen_record(rng, depth=3, maxf=5, prims=PRIMS):
    d = rng.range(1, depth)
    return ("r", [gen_type(rng, d - 1, maxf, prims) for _ in range(rng.range(1, maxf))])

def size_class(t):
    s = t_size(t)
    return "le8" if s <= 8 else ("le16" if s <= 16 else "gt16")

def gen_record_class(rng, cls, prims=PRIMS):
    for _ in range(200):
        t = gen_record(rng, 3, 4 if cls != "gt16" else 6, prims)
        if size_class(t) == cls:
            return t
    return {"le8": ("r", ["i", "f"]), "le16": ("r", ["d", ("r", ["i", "c"])]), "gt16": ("r", ["l", "d", "i"])}[cls]

CORNERS = {
    "i": [0, 1, 0xFFFFFFFF, 0x80000000, 0x7FFFFFFF, 0x01020304],
    "l": [0, 1, 0xFFFFFFFFFFFFFFFF, 0x8000000000000001, 0x7FFFFFFFFFFFFFFF, 0x0102030405060708],
    "c": [0, 1, 65, 127, 128, 255],
}

def gen_bits(rng, p):
    """random bit pattern for the walk ops"""
    if p == "b":
        return rng.below(2)
    if p in CORNERS and rng.chance(0.3):
        return rng.choice(CORNERS[p])
    if p == "s":
        return rng.below(200)            # canonical string id
    return rng.next() & ((1 << (8 * PSIZE[p])) - 1)

def gen_value(rng, t, nilp=0.0):
    """value tree: ('B',n)… or ('R',[…]) or ('N',) or ('S',None)"""
    if isinstance(t, str):
        if t == "s" and rng.chance(nilp):
            return ("S", None)
        return (t.upper(), gen_bits(rng, t))
    if rng.chance(nilp):
        return ("N",)
    return ("R", [gen_value(rng, x, nilp) for x in t[1]])

def v_tokens(v):
    if v[0] == "R":
        out = ["{"]
        for x in v[1]:
            out += v_tokens(x)
        return out + ["}"]
    if v[0] == "N":
        return ["N"]
    if v[0] == "S" and v[1] is None:
        return ["Snil"]
    return ["%s%d" % (v[0], v[1])]

def v_nilfree(v):
    if v[0] == "N" or (v[0] == "S" and v[1] is None):
        return False
    if v[0] == "R":
        return all(v_nilfree(x) for x in v[1])
    return True

def s_pack(t, v):
    """S level: the bytes of the C struct holding v (padding zero)"""
    buf = bytearray(t_size(t))
    leaves = t_leaves(t)
    flat = []
    def fl(v):
        if v[0] == "R":
            for x in v[1]:
                fl(x)
        else:
            flat.append(v)
    fl(v)
    for (p, off), lv in zip(leaves, flat):
        n = PSIZE[p]
        buf[off:off + n] = (lv[1] & ((1 << (8 * n)) - 1)).to_bytes(n, "little")
    return bytes(buf)

def mutate_desc(rng, ds):
    ds = list(ds)
    k = rng.below(5)
    i = rng.below(len(ds))
    if k == 0:
        ds[i] = rng.choice(["v", "x"])
    elif k == 1 and ds[i].startswith("r"):
        c, t = ds[i][1:].split("/")
        ds[i] = "r%s/%d" % (c, max(0, int(t) + rng.choice([-1, 1, 2])))
    elif k == 2 and ds[i].startswith("r"):
        c, t = ds[i][1:].split("/")
        ds[i] = "r%d/%s" % (max(0, int(c) + rng.choice([-1, 1])), t)
    elif k == 3:
        ds = ds[:i]
    else:
        ds[i] = rng.choice(list(PRIMS))
    return ds or ["x"]

# ------------------------------------------------------------------ X1: walk correspondence
KIND = dict(b="sc", c="sc", i="si", l="sl", f="fl", d="db", s="pt", p="pt")

def canon_model(line):
    ws = line.split()
    if not ws:
        return line
    if "trace" in ws:
        ws = ws[:ws.index("trace")]
    if ws[0] == "type" and len(ws) > 1 and ws[1] == "ok":
        r = ws.index("rest")
        ws = ws[:2] + [KIND.get(w, w) for w in ws[2:r]] + ws[r:]
    if ws[0] == "unpack":
        ws = [("I" + w[1:]) if (w[0] == "B" and w[1:].isdigit()) else w for w in ws]
    return " ".join(ws)

def canon_impl(line):
    return " ".join(line.split())

def run_model(lines):
    p = subprocess.run([NMDRV, "ffi"], input="\n".join(lines) + "\n", stdout=subprocess.PIPE, stderr=subprocess.PIPE, text=True)
    out = p.stdout.split("\n")
    return [out[i] if i < len(out) else "<none>" for i in range(len(lines))]

def run_walk_impl(exe, lines):
    """runs h_ffi walk; an op that kills the process (sanitizer) is answered '<op> crash'"""
    res, i, deaths, chunk = [], 0, 0, 2000
    while i < len(lines):
        hi = min(len(lines), (i // chunk + 1) * chunk)
        p = subprocess.run([exe, "walk"], input="\n".join(lines[i:hi]) + "\n", stdout=subprocess.PIPE, stderr=subprocess.PIPE, text=True, env=ENV)
        out = [l for l in p.stdout.split("\n") if l != ""]
        res += out[:hi - i]
        i = len(res)
        if i < hi:
            res.append(lines[i].split()[0] + " crash")
            deaths += 1
            i += 1
            if deaths > 60:            # the implementation crashes all the time: enough seen
                res += ["<skipped>"] * (len(lines) - i)
                break
    return res, deaths

def gen_walk_ops(rng, n):
    ops, meta = [], []
    for k in range(n):
        r = rng.fork()
        t = gen_record(r, 3, 5)
        ds = emit_desc(t)[1:]          # members of the top record; count = len(t[1])
        cnt = len(t[1])
        mal = r.chance(0.15)
        if mal:
            ds = mutate_desc(r, ds)
            if r.chance(0.3):
                cnt = max(0, cnt + r.choice([-1, 1]))
        kind = r.weighted([("type", 2), ("pack", 5), ("unpack", 4)])
        if kind == "type":
            ops.append("type %d | %s" % (cnt, " ".join(ds)))
            meta.append(dict(kind=kind, t=t, mal=mal))
        elif kind == "pack":
            nilp = r.choice([0.0, 0.0, 0.15, 0.4])
            v = gen_value(r, t, nilp)
            if v[0] != "R":
                v = ("R", [gen_value(r, x, nilp) for x in t[1]])
            if r.chance(0.05):           # ill-typed slot: tag assertion expected on both sides
                j = r.below(len(v[1]))
                v[1][j] = ("L", 5) if v[1][j][0] != "L" else ("C", 5)
                mal = True
            ops.append("pack %d | %s | %s" % (cnt, " ".join(ds), " ".join(v_tokens(v)[1:-1])))
            meta.append(dict(kind=kind, t=t, v=v, mal=mal))
        else:
            size = t_size(t) + (64 if mal else 0)   # a mutated descriptor may describe a larger struct
            raw = bytearray(r.next() & 0xFF for _ in range(size))
            for (p, off) in t_leaves(t):   # string slots must hold valid pointers
                if p == "s":
                    raw[off:off + 8] = (STR_BASE + 16 * r.below(200)).to_bytes(8, "little")
            if mal:
                # a mutated descriptor may read pointers elsewhere: make every aligned word a valid string pointer
                for off in range(0, size - 7, 8):
                    raw[off:off + 8] = (STR_BASE + 16 * r.below(200)).to_bytes(8, "little")
            ops.append("unpack %d | %s | %s" % (cnt, " ".join(ds), raw.hex() or "00"))
            meta.append(dict(kind=kind, t=t, raw=bytes(raw), mal=mal))
    return ops, meta

def walk_correspondence(rep, exe, tier, seed, stats):
    rng = Rng(seed * 7919 + 17)
    n = 6000 if tier == "quick" else 200000
    ops, meta = gen_walk_ops(rng, n)
    ml = run_model(ops)
    il, deaths = run_walk_impl(exe, ops)
    div = sfail = 0
    kinds = {}
    diverged_types = []
    for i, (op, m) in enumerate(zip(ops, meta)):
        a, b = canon_impl(il[i]) if i < len(il) else "<none>", canon_model(ml[i])
        if a == "<skipped>":
            stats["walk_skipped_after_deaths"] = stats.get("walk_skipped_after_deaths", 0) + 1
            continue
        kinds[m["kind"]] = kinds.get(m["kind"], 0) + 1
        if a.endswith("crash"):
            stats["walk_crash_answers"] = stats.get("walk_crash_answers", 0) + 1
        # S level on I: a well-formed nil-free pack must produce the C struct bytes
        if m["kind"] == "pack" and not m["mal"] and v_nilfree(m["v"]):
            want = s_pack(m["t"], m["v"]).hex()
            ws = a.split()
            got = ws[ws.index("bytes") + 1] if "bytes" in ws and ws.index("bytes") + 1 < len(ws) else ("" if t_size(m["t"]) == 0 else a)
            if got != want:
                sfail += 1
                diverged_types.append(m["t"])
                if sfail <= 3:
                    rep.violation("walk_s_%d" % i, json.dumps(dict(kind="walk", op=op, expected_bytes=want, impl=a, model=b,
                                  what="record_value does not lay the record out as the C struct")), True)
                continue
        if a != b:
            div += 1
            diverged_types.append(m["t"])
            if div <= 3:
                stats.setdefault("walk_div_examples", []).append(dict(op=op[:200], impl=a[:200], model=b[:200]))
    stats.update(walk_ops=len(ops), walk_kinds=kinds, walk_malformed=sum(1 for m in meta if m["mal"]),
                 walk_diverged=div, walk_s_failures=sfail, walk_harness_deaths=deaths)
    return div, sfail, diverged_types, [dict(op=ops[i][:160], impl=canon_impl(il[i])[:160], model=canon_model(ml[i])[:160]) for i in (0, len(ops) // 2)]

# ------------------------------------------------------------------ e2e value literals
def f32(bits):
    return struct.unpack("<f", struct.pack("<I", bits))[0]

def f64(bits):
    return struct.unpack("<d", struct.pack("<Q", bits))[0]

def gen_scalar(rng, p):
    """(bits-or-content, never literal, c literal) for the end-to-end programs: values whose
    decimal literal is exact"""
    if p == "b":
        v = rng.below(2)
        return v, ("true" if v else "false"), "(bool)%d" % v
    if p == "i":
        v = rng.choice(CORNERS["i"]) if rng.chance(0.3) else rng.next() & 0xFFFFFFFF
        s = v - (1 << 32) if v >= (1 << 31) else v
        lit = "(-2147483647 - 1)" if s == -(1 << 31) else ("(-%d)" % -s if s < 0 else "%d" % s)
        return v, lit, "(int)0x%xu" % v
    if p == "l":
        v = rng.choice(CORNERS["l"]) if rng.chance(0.3) else rng.next()
        s = v - (1 << 64) if v >= (1 << 63) else v
        lit = "(-9223372036854775807L - 1L)" if s == -(1 << 63) else ("(-%dL)" % -s if s < 0 else "%dL" % s)
        return v, lit, "(long long)0x%xull" % v
    if p in "fd":
        j = rng.below(7)
        n = rng.below(1 << (20 if p == "f" else 40))
        if rng.chance(0.15):
            n = rng.choice([0, 1, 3])
        x = n / float(1 << j)
        neg = rng.chance(0.4) and n != 0
        txt = "%.*f" % (max(j, 1), x)
        bits = struct.unpack("<I", struct.pack("<f", -x if neg else x))[0] if p == "f" else struct.unpack("<Q", struct.pack("<d", -x if neg else x))[0]
        lit = txt + ("" if p == "f" else "d")
        if neg:
            lit = "(-" + lit + ")"
        return bits, lit, ("f_of(0x%xu)" % bits if p == "f" else "d_of(0x%xull)" % bits)
    if p == "c":
        v = rng.choice(CORNERS["c"]) if rng.chance(0.3) else rng.below(256)
        lit = "'%s'" % chr(v) if (48 <= v < 58 or 65 <= v < 91 or 97 <= v < 123) and rng.chance(0.5) else "chr(%d)" % v
        return v, lit, "(char)0x%x" % v
    if p == "s":
        n = rng.choice([0, 1, 3, 8, 20])
        txt = "".join(rng.choice("abcdefghijklmnopqrstuvwxyzABCXYZ0123456789") for _ in range(n))
        return txt, '"%s"' % txt, '"%s"' % txt
    if p == "p":
        if rng.chance(0.2):
            return 0, "c_null", "(void *)0"
        k = rng.below(100000)
        return 0x5000 + k, "mkptr(%d)" % k, "(void *)0x%xul" % (0x5000 + k)
    raise ValueError(p)

class Sig:
    """one extern signature with chosen argument/return values"""
    def __init__(self, sid, params, ret):
        self.sid, self.params, self.ret = sid, params, ret
        self.structs = []          # (name, type) inner first
        self.names = {}
        self.args = []             # value trees with literals
        self.retv = None
        self.nil_paths = False

    def name_of(self, t):
        key = json.dumps(t)
        if key not in self.names:
            for x in t[1]:
                if not isinstance(x, str):
                    self.name_of(x)
            self.names[key] = "S%d_%d" % (self.sid, len(self.structs))
            self.structs.append((self.names[key], t))
        return self.names[key]

    def ctype(self, t):
        return dict(b="bool", i="int", l="long long", f="float", d="double", c="char", s="char *", p="void *")[t] if isinstance(t, str) else self.name_of(t)

    def ntype(self, t):
        return dict(b="bool", i="int", l="long", f="float", d="double", c="char", s="string", p="c_ptr")[t] if isinstance(t, str) else self.name_of(t)

def gen_e2e_value(rng, t, nilp=0.0):
    """('P', prim, bits, never_lit, c_lit) | ('R', [..]) | ('NILREC',) | ('NILSTR',)"""
    if isinstance(t, str):
        if t == "s" and nilp and rng.chance(nilp):
            return ("NILSTR",)
        b, nl, cl = gen_scalar(rng, t)
        return ("P", t, b, nl, cl)
    if nilp and rng.chance(nilp):
        return ("NILREC",)
    return ("R", [gen_e2e_value(rng, x, nilp) for x in t[1]])

def e2e_never_lit(sig, t, v):
    if v[0] == "P":
        return v[3]
    if v[0] == "NILSTR":
        return "sa[0]"
    if v[0] == "NILREC":
        return "nil"
    return "%s(%s)" % (sig.name_of(t), ", ".join(e2e_never_lit(sig, x, y) for x, y in zip(t[1], v[1])))

def e2e_has_nil(v):
    if v[0] in ("NILSTR", "NILREC"):
        return True
    return v[0] == "R" and any(e2e_has_nil(x) for x in v[1])

def e2e_walk_tokens(v):
    """value tokens for the model's `exec` op"""
    if v[0] == "P":
        p, b = v[1], v[2]
        if p == "s":
            return ["S1"]
        return ["%s%d" % (p.upper(), b)]
    if v[0] == "NILSTR":
        return ["Snil"]
    if v[0] == "NILREC":
        return ["N"]
    out = ["{"]
    for x in v[1]:
        out += e2e_walk_tokens(x)
    return out + ["}"]

def leaf_paths(t, prefix):
    if isinstance(t, str):
        return [(t, prefix)]
    out = []
    for j, x in enumerate(t[1]):
        out += leaf_paths(x, prefix + ".f%d" % j)
    return out

def leaf_values(v):
    if v[0] == "P":
        return [v]
    out = []
    for x in v[1]:
        out += leaf_values(x)
    return out

def fmt_leaf(p, b):
    if p == "s":
        return "s %s" % (b.encode().hex() or "-")
    return "%s %d" % (p, b)

C_PRINT = {
    "b": 'printf("%s b %%u\\n", (unsigned)(unsigned char)(%s));',
    "i": 'printf("%s i %%u\\n", (unsigned)(%s));',
    "l": 'printf("%s l %%llu\\n", (unsigned long long)(%s));',
    "f": '{ float x_ = (%s); unsigned u_; memcpy(&u_, &x_, 4); printf("%s f %%u\\n", u_); }',
    "d": '{ double x_ = (%s); unsigned long long u_; memcpy(&u_, &x_, 8); printf("%s d %%llu\\n", u_); }',
    "c": 'printf("%s c %%u\\n", (unsigned)(unsigned char)(%s));',
    "s": 'put_str("%s", %s);',
    "p": 'printf("%s p %%llu\\n", (unsigned long long)(size_t)(%s));',
}

def c_print(tag, p, expr):
    if p in "fd":
        return C_PRINT[p] % (expr, tag)
    return C_PRINT[p] % (tag, expr)

C_PRELUDE = r'''
#include <stdio.h>
#include <stdbool.h>
#include <string.h>
#include <stddef.h>
static float f_of(unsigned u) { float f; memcpy(&f, &u, 4); return f; }
static double d_of(unsigned long long u) { double d; memcpy(&d, &u, 8); return d; }
static void put_str(const char * tag, const char * s)
{
    printf("%s s ", tag);
    if (s == NULL) printf("NULL");
    else if (*s == 0) printf("-");
    else for (; *s; s++) printf("%02x", (unsigned char)*s);
    printf("\n");
}
void * mkptr(int k) { return (void *)(size_t)(0x5000 + k); }
int show_b(bool x) { printf("R b %u\n", (unsigned)(unsigned char)x); fflush(stdout); return 0; }
int show_i(int x) { printf("R i %u\n", (unsigned)x); fflush(stdout); return 0; }
int show_l(long long x) { printf("R l %llu\n", (unsigned long long)x); fflush(stdout); return 0; }
int show_f(float x) { unsigned u; memcpy(&u, &x, 4); printf("R f %u\n", u); fflush(stdout); return 0; }
int show_d(double x) { unsigned long long u; memcpy(&u, &x, 8); printf("R d %llu\n", u); fflush(stdout); return 0; }
int show_c(char x) { printf("R c %u\n", (unsigned)(unsigned char)x); fflush(stdout); return 0; }
int show_s(const char * x) { put_str("R", x); fflush(stdout); return 0; }
int show_p(void * x) { printf("R p %llu\n", (unsigned long long)(size_t)x); fflush(stdout); return 0; }
char * ret_null_string(int x) { printf("CALLED ret_null_string\n"); fflush(stdout); return NULL; }
'''

def c_struct_decls(sig):
    out = []
    for name, t in sig.structs:
        fields = " ".join("%s f%d;" % (sig.ctype(x), j) for j, x in enumerate(t[1]))
        out.append("typedef struct %s { %s } %s;" % (name, fields, name))
    return out

def c_callee(sig):
    for t in sig.params + ([sig.ret] if sig.ret != "v" else []):
        if not isinstance(t, str):
            sig.name_of(t)
    out = c_struct_decls(sig)
    rt = "void" if sig.ret == "v" else sig.ctype(sig.ret)
    ps = ", ".join("%s a%d" % (sig.ctype(t), i) for i, t in enumerate(sig.params)) or "void"
    body = ['printf("CALLED f%d\\n");' % sig.sid]
    for i, t in enumerate(sig.params):
        for (p, path) in leaf_paths(t, "a%d" % i):
            body.append(c_print("A", p, path))
    body.append("fflush(stdout);")
    if sig.ret != "v":
        if isinstance(sig.ret, str):
            body.append("return %s;" % sig.retv[4])
        else:
            body.append("%s r_; memset(&r_, 0, sizeof(r_));" % sig.ctype(sig.ret))
            for (p, path), lv in zip(leaf_paths(sig.ret, "r_"), leaf_values(sig.retv)):
                body.append("%s = %s;" % (path, lv[4]))
            body.append("return r_;")
    out.append("%s f%d(%s)\n{\n    %s\n}" % (rt, sig.sid, ps, "\n    ".join(body)))
    return "\n".join(out)

def c_layout_main(sigs):
    """a program printing sizeof/_Alignof/offsetof of every generated struct"""
    out = ["#include <stdio.h>", "#include <stdbool.h>", "#include <stddef.h>"]
    body = []
    for sig in sigs:
        out += c_struct_decls(sig)
        for name, t in sig.structs:
            offs = " ".join('printf(" %%s@%%lu", "%s", (unsigned long)offsetof(%s, %s));' % (p, name, path[1:]) for (p, path) in leaf_paths(t, ""))
            body.append('printf("L %s %%lu/%%lu leaves", (unsigned long)sizeof(%s), (unsigned long)_Alignof(%s)); %s printf("\\n");' % (name, name, name, offs))
    out.append("int main(void)\n{\n    %s\n    return 0;\n}" % "\n    ".join(body))
    return "\n".join(out)

def never_program(sig, lib, fname=None, libname=None):
    fname = fname or "f%d" % sig.sid
    out = []
    for t in sig.params + ([sig.ret] if sig.ret != "v" else []):
        if not isinstance(t, str):
            sig.name_of(t)
    for name, t in sig.structs:
        out.append("record %s { %s }" % (name, " ".join("f%d : %s;" % (j, sig.ntype(x)) for j, x in enumerate(t[1]))))
    ps = ", ".join("a%d : %s" % (i, sig.ntype(t)) for i, t in enumerate(sig.params))
    rt = "void" if sig.ret == "v" else sig.ntype(sig.ret)
    out.append('extern "%s" func %s(%s) -> %s' % (libname or lib, fname, ps, rt))
    for p in PRIMS:
        out.append('extern "%s" func show_%s(x : %s) -> int' % (lib, p, sig.ntype(p)))
    out.append('extern "%s" func mkptr(k : int) -> c_ptr' % lib)
    body = ["var sa = {[1]} : string;"]
    call = "%s(%s)" % (fname, ", ".join(e2e_never_lit(sig, t, v) for t, v in zip(sig.params, sig.args)))
    if sig.ret == "v":
        body.append(call + ";")
    else:
        body.append("let r = %s;" % call)
        for (p, path) in leaf_paths(sig.ret, "r"):
            body.append("show_%s(%s);" % (p, path))
    body.append('prints("DONE\\n");')
    body.append("0")
    out.append("func main() -> int\n{\n    %s\n}\ncatch (ffi_fail)\n{\n    prints(\"FFI_FAIL\\n\");\n    77\n}" % "\n    ".join(body))
    return "\n".join(out) + "\n"

def expected_output(sig, args=None):
    out = ["CALLED f%d" % sig.sid]
    for ls in (args if args is not None else [leaf_values(v) for v in sig.args]):
        for lv in ls:
            out.append("A " + fmt_leaf(lv[1], lv[2]))
    if sig.ret != "v":
        for lv in leaf_values(sig.retv):
            out.append("R " + fmt_leaf(lv[1], lv[2]))
    out.append("DONE")
    return out

def gen_sig(rng, sid, arity=None, force=None):
    r = rng
    arity = r.choice([0, 1, 2, 3, 4, 6, 8, 10, 12]) if arity is None else arity
    params = []
    for i in range(arity):
        if r.chance(0.3):
            params.append(gen_record_class(r, r.choice(["le8", "le16", "le16", "gt16"] if r.chance(0.5) else ["le8", "le16"])))
        else:
            params.append(r.choice(PRIMS))
    if force is not None:
        params = force
    k = r.below(10)
    ret = "v" if k == 0 else (gen_record_class(r, r.choice(["le8", "le16", "gt16"])) if k <= 3 else r.choice(PRIMS))
    sig = Sig(sid, params, ret)
    sig.args = [gen_e2e_value(r, t) for t in params]
    sig.retv = None if ret == "v" else gen_e2e_value(r, ret)
    return sig


# ------------------------------------------------------------------ System V argument classes (harness-side only)
def eightbyte_classes(t):
    """classes of the eightbytes of a by-value struct of size <= 16: 'I' (INTEGER) or 'S' (SSE)"""
    n = (t_size(t) + 7) // 8
    cls = ["S"] * n
    for (p, off) in t_leaves(t):
        if p not in "fd":
            cls[off // 8] = "I"
    return cls

def libffi_gpr5_overflow(sig):
    """libffi 3.4.4 (src/x86/ffi64.c) copies the INTEGER eightbyte of a register-passed struct with
    memcpy(&gpr[n], a, size) where size is the REMAINING struct size; for a struct whose classes are
    (INTEGER, SSE) landing in the last integer register (gpr[5]) the excess bytes run into sse[0],
    i.e. over the value already placed in xmm0.  Returns None, or
    (index of the struct param, index of the param living in xmm0, eightbyte of that param)."""
    gpr = sse = 0
    if sig.ret != "v" and not isinstance(sig.ret, str) and t_size(sig.ret) > 16:
        gpr = 1                           # hidden pointer to the memory-class result
    xmm0 = None
    for i, t in enumerate(sig.params):
        if isinstance(t, str):
            if t in "fd":
                if sse < 8:
                    if sse == 0:
                        xmm0 = (i, 0)
                    sse += 1
            elif gpr < 6:
                gpr += 1
            continue
        if t_size(t) > 16:
            continue
        cls = eightbyte_classes(t)
        ni, ns = cls.count("I"), cls.count("S")
        if gpr + ni > 6 or sse + ns > 8:
            continue                      # whole struct in memory
        if cls == ["I", "S"] and gpr == 5 and sse >= 1:
            return (i, xmm0[0], xmm0[1])
        for e, c in enumerate(cls):
            if c == "I":
                gpr += 1
            else:
                if sse == 0:
                    xmm0 = (i, e)
                sse += 1
    return None

def leaf_bits_bytes(t, v):
    """bytes of the C object holding v; string leaves as 0 (only float parts are looked at)"""
    if isinstance(t, str):
        return (0 if t == "s" else v[2]).to_bytes(PSIZE[t], "little")
    buf = bytearray(t_size(t))
    for (p, off), lv in zip(t_leaves(t), leaf_values(v)):
        buf[off:off + PSIZE[p]] = (0 if p == "s" else lv[2]).to_bytes(PSIZE[p], "little")
    return bytes(buf)

def damaged_args(sig, hit):
    """argument leaf values as the callee sees them under the libffi overflow above"""
    si, xi, xe = hit
    T = leaf_bits_bytes(sig.params[si], sig.args[si])
    spill = T[8:]
    args = [leaf_values(v) for v in sig.args]
    xt = sig.params[xi]
    xb = bytearray(leaf_bits_bytes(xt, sig.args[xi]))
    lo = 8 * xe
    n = min(len(spill), len(xb) - lo, 16)
    xb[lo:lo + n] = spill[:n]
    newl = []
    for (p, off), lv in zip(t_leaves(xt), args[xi]):
        if p in "fd" and lo <= off < lo + 8:
            newl.append(("P", p, int.from_bytes(xb[off:off + PSIZE[p]], "little"), "", ""))
        else:
            newl.append(lv)
    args[xi] = newl
    return args

def has_gt16_param(sig):
    return any((not isinstance(t, str)) and t_size(t) > 16 for t in sig.params)

def run_never(never, path, timeout=60):
    try:
        p = subprocess.run([never, "-f", path], stdout=subprocess.PIPE, stderr=subprocess.PIPE, env=ENV, timeout=timeout)
        return p.returncode, p.stdout.decode("latin-1"), p.stderr.decode("latin-1")
    except subprocess.TimeoutExpired:
        return -999, "", "timeout"

def sig_record(sig):
    return dict(kind="e2e", sid=sig.sid, params=sig.params, ret=sig.ret, args=sig.args, retv=sig.retv)

def sig_from_record(d):
    def tt(x):
        return x if isinstance(x, str) else ("r", [tt(y) for y in x[1]])
    def vv(x):
        if x is None:
            return None
        if x[0] == "R":
            return ("R", [vv(y) for y in x[1]])
        return tuple(x)
    s = Sig(d["sid"], [tt(p) for p in d["params"]], tt(d["ret"]))
    s.args = [vv(a) for a in d["args"]]
    s.retv = vv(d["retv"])
    return s

def build_lib(d, sigs, tag="lib"):
    src = os.path.join(d, tag + ".c")
    with open(src, "w") as fh:
        fh.write(C_PRELUDE + "\n" + "\n\n".join(c_callee(s) for s in sigs) + "\n")
    lib = os.path.join(d, tag + ".so")
    rc, out = run(["gcc", "-O1", "-w", "-shared", "-fPIC", "-o", lib, src])
    if rc != 0:
        raise RuntimeError("callee library does not compile:\n" + out[-3000:])
    return lib

def judge_e2e(sig, rc, out, err):
    """-> ('ok'|'gt16'|'gpr5'|'bad', detail)"""
    want = expected_output(sig)
    got = [l.rstrip("\r") for l in out.split("\n") if l.strip() != ""]
    if got == want and rc == 0:
        return "ok", ""
    hit = libffi_gpr5_overflow(sig)
    if hit is not None:
        dmg = expected_output(sig, damaged_args(sig, hit))
        if dmg != want:
            if got == dmg and rc == 0:
                return "gpr5", "param %d (struct, classes INTEGER+SSE, placed in gpr[5]) overwrote xmm0 = param %d\n" % (hit[0], hit[1]) + "\n".join(got)
            want = dmg                   # a >16-byte struct may follow: compare the prefix below against the damaged values
    if has_gt16_param(sig):
        nargs = 1 + sum(len(leaf_values(v)) for v in sig.args)
        bad_free = ("AddressSanitizer" in err and "__interceptor_free" in err and "ffi_decl_delete" in err) or \
                   ("free(): invalid pointer" in err) or ("munmap_chunk" in err) or ("free(): invalid size" in err)
        if got[:nargs] == want[:nargs] and len(got) == nargs and rc != 0 and (bad_free or rc in (-6, 134)):
            return "gt16", err[-600:]
    return "bad", "rc=%d\nexpected:\n%s\ngot:\n%s\nstderr:\n%s" % (rc, "\n".join(want), "\n".join(got), err[-1500:])

# ------------------------------------------------------------------ failure-path programs
def fail_cases(rng, n):
    """signatures with a nil string / nil record somewhere among the operands"""
    out = []
    shapes = [
        (["s"], 0), (["i", "s", "d"], 1), (["s", ("r", ["i", "i"])], 0), (["s", "i", ("r", ["l", "d", "i"])], 0),
        ([("r", ["i", "i"])], 0), ([("r", ["i", "i"]), "s"], 1), ([("r", ["i", ("r", ["c", "s"])])], 0),
        ([("r", ["i", ("r", ["c", "d"])]), "i"], 0), ([("r", ["s"]), ("r", ["i"])], 0), ([("r", ["i", "i"]), ("r", ["f", "f"])], 0),
        (["i", ("r", ["d"]), "s", "p"], 2),
        # a nil record operand at top level followed by operands of other kinds, void result: the skip by total_count must land exactly
        ([("r", ["i", "i"]), "s"], 0, "top", "v"), ([("r", ["i", ("r", ["c", "d"])]), "d", "s"], 0, "top", "v"),
        (["l", ("r", [("r", ["f"]), "p"]), "c"], 1, "top", "v"), ([("r", ["s", "s", "s"]), "i"], 0, "top", "i"),
    ]
    for k in range(n):
        r = rng.fork()
        force_top, force_ret = None, None
        if k < len(shapes):
            params, where = shapes[k][0], shapes[k][1]
            if len(shapes[k]) > 2:
                force_top, force_ret = shapes[k][2], shapes[k][3]
        else:
            params = [gen_record_class(r, r.choice(["le8", "le16"])) if r.chance(0.5) else r.choice(PRIMS) for _ in range(r.range(1, 5))]
            cand = [i for i, t in enumerate(params) if t == "s" or not isinstance(t, str)]
            if not cand:
                params.append("s"); cand = [len(params) - 1]
            where = r.choice(cand)
        sig = Sig(900000 + k, params, force_ret or r.choice(["i", "v", "d"]))
        sig.args = []
        for i, t in enumerate(params):
            if i == where:
                if t == "s":
                    v = ("NILSTR",)
                elif force_top:
                    v = ("NILREC",)
                else:
                    v = None
                    for _ in range(30):
                        v = gen_e2e_value(r, t, 0.4)
                        if e2e_has_nil(v):
                            break
                    if not e2e_has_nil(v):
                        v = ("NILREC",)
            else:
                v = gen_e2e_value(r, t)
            sig.args.append(v)
        sig.retv = None if sig.ret == "v" else gen_e2e_value(r, sig.ret)
        sig.nil_paths = True
        out.append(sig)
    return out

def model_exec(sigs, lib=1, sym=1):
    lines = []
    for s in sigs:
        ds = []
        for t in s.params:
            ds += emit_desc(t)
        ds += (["v"] if s.ret == "v" else emit_desc(s.ret)) + ["x"]
        vs = []
        for v in s.args:
            vs += e2e_walk_tokens(v)
        lines.append("exec %d %d %d | %s | %s" % (len(s.params), lib, sym, " ".join(ds), " ".join(vs)))
    return run_model(lines) if lines else []

def multi_library(rep, never, d, st, nlib=14):
    """several libraries exporting the same names: every call must reach the library it names
    (dlcache: open addressing over 16 slots, growth at 13 entries)"""
    src = os.path.join(d, "multi.c")
    open(src, "w").write("\n".join("int which%d(int x) { return 1000 * K + %d * 100 + x; }" % (j, j % 7) for j in range(nlib)) + "\n")
    libs = []
    for k in range(nlib):
        lib = os.path.join(d, "multi_%d.so" % k)
        rc, out = run(["gcc", "-w", "-shared", "-fPIC", "-DK=%d" % (k + 1), "-o", lib, src])
        if rc != 0:
            raise RuntimeError("multi library does not compile: " + out[-500:])
        libs.append(lib)
    lines = ['extern "%s" func which%d(x : int) -> int' % (libs[j], j) for j in range(nlib)]
    body, want = [], []
    for rnd in range(2):
        for j in range(nlib):
            body.append("print(which%d(%d));" % (j, rnd + 1))
            want.append(str(1000 * (j + 1) + (j % 7) * 100 + rnd + 1))
    # the SAME symbol name taken from different libraries (local extern declarations), called alternately and in runs: a call
    # must reach the library its own declaration names, whatever was resolved just before
    nsame = min(4, nlib)
    for k in range(nsame):
        lines.append('func same%d(x : int) -> int { let f = let extern "%s" func which0(x : int) -> int; f(x) }' % (k, libs[k]))
    order = [0, 0, 1, 1, 0, 2, 1, 3, 3, 0, 2, 2, 1, 0]
    for i, k in enumerate(order):
        k = k % nsame
        body.append("print(same%d(%d));" % (k, i))
        want.append(str(1000 * (k + 1) + i))
    prog = "\n".join(lines) + "\nfunc main() -> int\n{\n    " + "\n    ".join(body) + "\n    0\n}\n"
    p = os.path.join(d, "multi.nev")
    open(p, "w").write(prog)
    rc, out, err = run_never(never, p)
    got = [l.strip() for l in out.split("\n") if l.strip()]
    st["multi_library_calls"] = len(want)
    if got != want or rc != 0:
        st["fail_bad"] = st.get("fail_bad", 0) + 1
        libsrc = open(src).read()
        rep.violation("multi_library", json.dumps(dict(kind="multi", program=prog, what="a call did not reach the library named in its extern declaration",
                      observed="rc=%d expected=%s got=%s stderr=%s" % (rc, want, got, err[-400:]))), True)

def bool_results(rep, never, d, st):
    """a C `bool` result defines only the low 8 bits of the return register: callees compiled (-O2) so that the flag is made with
    setcc after a call that left non-zero upper bits in eax; both truth values, through `!` and through a record member"""
    src = os.path.join(d, "boolres.c")
    open(src, "w").write("""#include <stdbool.h>
#include <string.h>
__attribute__((noinline)) int noise(int x) { return x * 0x01010101 + 0x7f7f7f00; }
bool is_five(int x) { return noise(x) == noise(5); }
bool same_str(const char * a, const char * b) { return strcmp(a, b) == 0; }
bool not_zero(long x) { return noise((int)x) != noise(0); }
""")
    lib = os.path.join(d, "libboolres.so")
    rc, out = run(["gcc", "-w", "-O2", "-shared", "-fPIC", "-o", lib, src])
    if rc != 0:
        raise RuntimeError("bool callee does not compile: " + out[-400:])
    prog = ('extern "%s" func is_five(x : int) -> bool\nextern "%s" func same_str(a : string, b : string) -> bool\nextern "%s" func not_zero(x : long) -> bool\n' % (lib, lib, lib) +
            "func b(v : bool) -> int { v ? 1 : 0 }\nfunc main() -> int\n{\n    print(b(is_five(3))); print(b(is_five(5))); print(b(!is_five(3)));\n"
            "    print(b(same_str(\"abc\", \"abd\"))); print(b(same_str(\"abc\", \"abc\"))); print(b(not_zero(0L))); print(b(not_zero(7L)));\n"
            "    print(b(is_five(4) || same_str(\"a\", \"b\"))); print(b(is_five(5) && !same_str(\"a\", \"b\")));\n    0\n}\n")
    want = ["0", "1", "1", "0", "1", "0", "1", "0", "1"]
    p = os.path.join(d, "boolres.nev")
    open(p, "w").write(prog)
    rc, out, err = run_never(never, p)
    got = [l.strip() for l in out.split("\n") if l.strip()]
    st["bool_result_calls"] = len(want)
    if got != want or rc != 0:
        st["fail_bad"] = st.get("fail_bad", 0) + 1
        rep.violation("bool_results", json.dumps(dict(kind="boolres", program=prog, callee=open(src).read(), what="a C bool result did not come back as the declared Never value (only the low 8 bits of the return register are defined)",
                      observed="rc=%d expected=%s got=%s stderr=%s" % (rc, want, got, err[-300:]))), True)

# ------------------------------------------------------------------ the whole correspondence
def run_correspondence(rep, tier, seed):
    info = buildimpl.build("asan")
    d = scratch_dir("ffi")
    stats = {}
    try:
        exe = buildimpl.link_harness(info, os.path.join(VERIF, "harness", "h_ffi.c"), os.path.join(d, "h_ffi"))
        div, sfail, dtypes, wsamples = walk_correspondence(rep, exe, tier, seed, stats)
        res = e2e(rep, info, exe, d, tier, seed, stats, extra_types=dtypes[:5])
        if div and not stats.get("e2e_bad") and not sfail:
            ex = stats.get("walk_div_examples", [])
            rep.violation("walk_div", json.dumps(dict(kind="walk", op=ex[0]["op"] if ex else "", examples=ex,
                          what="correspondence M-FFI <-> vmffi.c walk broken (theorems of Props/C17 no longer tied); "
                               "the end-to-end runs built from the diverging record types found no wrong value")), False)
        res["samples"] = wsamples + res.get("samples", [])
        return res, stats
    finally:
        shutil.rmtree(d, ignore_errors=True)

def e2e(rep, info, exe, d, tier, seed, stats, extra_types=()):
    rng = Rng(seed * 104729 + 5)
    never = info["never"]
    nsig = 400 if tier == "quick" else 12000
    sigs = [gen_sig(rng.fork(), k) for k in range(nsig)]
    # one signature per size class and position so that every class is met in every run
    base = len(sigs)
    for j, cls in enumerate(["le8", "le16", "gt16"]):
        r = rng.fork()
        t = gen_record_class(r, cls)
        for params in ([t], ["i", t, "d"], ["l"] * 6 + ["d"] * 8 + [t]):
            sigs.append(gen_sig(r, len(sigs), force=list(params)))
    cdir = os.path.join(VERIF, "corpus", "ffi")        # past failures / hand seeds, run in every tier
    ncorpus = 0
    if os.path.isdir(cdir):
        for f in sorted(os.listdir(cdir)):
            if f.endswith(".json"):
                rec = json.load(open(os.path.join(cdir, f)))
                if rec.get("kind") == "e2e":
                    rec = dict(rec, sid=len(sigs))
                    sigs.append(sig_from_record(rec))
                    ncorpus += 1
    stats["corpus_signatures"] = ncorpus
    for t in extra_types:            # record types on which the walk correspondence diverged
        sigs.append(gen_sig(rng.fork(), len(sigs), force=[t]))
        s2 = gen_sig(rng.fork(), len(sigs), force=[])
        s2.ret = t; s2.retv = gen_e2e_value(rng.fork(), t)
        sigs.append(s2)
    if tier == "thorough":            # exhaustive small scope: every signature of arity <= 2 over the alphabet + one struct per class
        alpha = list(PRIMS) + [("r", ["c", "i"]), ("r", ["d", ("r", ["f", "c"])]), ("r", ["l", "d", ("r", ["i", "s"])])]
        r = rng.fork()
        for a in alpha:
            sigs.append(gen_sig(r, len(sigs), force=[a]))
            for b in alpha:
                sigs.append(gen_sig(r, len(sigs), force=[a, b]))
    fails = fail_cases(rng.fork(), 30 if tier == "quick" else 600)
    allsigs = sigs + fails
    lib = build_lib(d, allsigs)
    # --- layouts: model vs Python reference vs gcc
    lay_src = os.path.join(d, "layout.c")
    open(lay_src, "w").write(c_layout_main(allsigs))
    rc, out = run(["gcc", "-w", "-o", os.path.join(d, "layout"), lay_src])
    if rc != 0:
        raise RuntimeError("layout program does not compile:\n" + out[-2000:])
    rc, lout = run([os.path.join(d, "layout")])
    gcc_lay = {}
    for l in lout.split("\n"):
        ws = l.split()
        if len(ws) >= 3 and ws[0] == "L":
            gcc_lay[ws[1]] = " ".join(ws[2:])
    structs = [(n, t) for s in allsigs for (n, t) in s.structs]
    mlines = run_model(["layout " + " ".join(t_tokens(t)) for (_, t) in structs])
    lay_bad = 0
    classes = {"le8": 0, "le16": 0, "gt16": 0}
    for (n, t), ml in zip(structs, mlines):
        ws = ml.split()
        m = (ws[1] + " " + " ".join(ws[ws.index("leaves"):])) if len(ws) > 2 and "leaves" in ws else ml
        py = "%d/%d leaves %s" % (t_size(t), t_align(t), " ".join("%s@%d" % x for x in t_leaves(t)))
        g = gcc_lay.get(n, "<none>")
        classes[size_class(t)] += 1
        if not (m == py == g):
            lay_bad += 1
            if lay_bad <= 3:
                rep.violation("layout_%s" % n, json.dumps(dict(kind="layout", type=t, model=m, python=py, gcc=g,
                              what="cLayout of the model differs from the C compiler's offsetof/sizeof: the reference of layout_matches_sysv is not the ABI")), False)
    stats.update(layout_structs=len(structs), layout_mismatch=lay_bad, struct_size_classes=classes)
    # --- emitted descriptors: real front end vs model
    emit_bad = 0
    progs = {}
    for s in allsigs:
        p = os.path.join(d, "p%d.nev" % s.sid)
        open(p, "w").write(never_program(s, lib))
        progs[s.sid] = p
    def emit_one(s):
        rc, out = run([exe, "emit", progs[s.sid]], env=ENV, timeout=60)
        for l in out.split("\n"):
            ws = l.split()
            if len(ws) >= 3 and ws[0] == "ffi" and ws[1] == "f%d" % s.sid:
                return " ".join(ws[2:])
        return "no-ffi-found rc=%d %s" % (rc, out[-300:])
    with ThreadPoolExecutor(max_workers=8) as ex:
        emitted = list(ex.map(emit_one, allsigs))
    mem = run_model(["emit %s -> %s" % (" ".join(sum([t_tokens(t) for t in s.params], [])),
                                          "v" if s.ret == "v" else " ".join(t_tokens(s.ret))) for s in allsigs])
    for s, a, b in zip(allsigs, emitted, mem):
        b = " ".join(b.split()[1:])
        if a != b:
            emit_bad += 1
            if emit_bad <= 3:
                rep.violation("emit_%d" % s.sid, json.dumps(dict(kind="emit", sig=sig_record(s), impl=a, model=b,
                              what="descriptor emitted by front/emit.c differs from emitSig (descriptor_walk no longer tied)")), False)
    stats.update(emit_compared=len(allsigs), emit_mismatch=emit_bad)
    # --- run the programs
    with ThreadPoolExecutor(max_workers=8) as ex:
        runs = list(ex.map(lambda s: run_never(never, progs[s.sid]), sigs))
    ok = gt16 = bad = gpr5 = 0
    arities, nleaves, samples = {}, 0, []
    for s, (rc, out, err) in zip(sigs, runs):
        arities[len(s.params)] = arities.get(len(s.params), 0) + 1
        nleaves += sum(len(leaf_values(v)) for v in s.args) + (0 if s.ret == "v" else len(leaf_values(s.retv)))
        verdict, detail = judge_e2e(s, rc, out, err)
        if verdict == "ok":
            ok += 1
        elif verdict == "gt16":
            gt16 += 1
            rep.finding("byvalue-struct-gt16", "callee received every value, then:\n" + detail + "\n" + never_program(s, "LIB"))
        elif verdict == "gpr5":
            gpr5 += 1
            rep.finding("libffi-gpr5-mixed-struct-clobbers-xmm0", detail + "\n" + never_program(s, "LIB"))
        else:
            bad += 1
            if bad <= 3:
                rep.violation("e2e_%d" % s.sid, json.dumps(dict(sig_record(s), what="foreign call does not pass/return the values intact", observed=detail)), True)
        if len(samples) < 2 and len(s.params) >= 3:
            samples.append(dict(signature="(%s) -> %s" % (", ".join(" ".join(t_tokens(t)) for t in s.params), s.ret if isinstance(s.ret, str) else " ".join(t_tokens(s.ret))),
                                verdict=verdict, stdout_head=out[:200]))
    stats.update(e2e_signatures=len(sigs), e2e_ok=ok, e2e_gt16_abort=gt16, e2e_libffi_gpr5=gpr5, e2e_bad=bad, e2e_arity_hist=arities,
                 e2e_leaf_values_checked=nleaves, e2e_with_gt16_param=sum(1 for s in sigs if has_gt16_param(s)),
                 e2e_struct_returns=sum(1 for s in sigs if s.ret != "v" and not isinstance(s.ret, str)))
    # --- failure paths
    fstats = failure_paths(rep, never, d, lib, fails, progs)
    stats.update(fstats)
    return dict(evaluations=len(sigs) + len(fails) + fstats.get("fail_extra", 0) + stats["walk_ops"],
                distinct=len(set(json.dumps([s.params, s.ret]) for s in sigs)), samples=samples)

def failure_paths(rep, never, d, lib, fails, progs):
    st = dict(fail_nil_cases=len(fails), fail_nil_ffi_fail=0, fail_bad=0, fail_extra=0)
    mex = model_exec(fails)
    with ThreadPoolExecutor(max_workers=8) as ex:
        runs = list(ex.map(lambda s: run_never(never, progs[s.sid]), fails))
    for s, m, (rc, out, err) in zip(fails, mex, runs):
        got = [l.rstrip("\r") for l in out.split("\n") if l.strip() != ""]
        called = any(l.startswith("CALLED") for l in got)
        s_ok = (got == ["FFI_FAIL"] and rc == 77)
        model_fail = m.startswith("exec ffi_fail values")
        if s_ok:
            st["fail_nil_ffi_fail"] += 1
            if not model_fail:           # the model (mirror of the code) lets a nil operand through although I does not
                st["fail_bad"] += 1
                rep.violation("fail_model_%d" % s.sid, json.dumps(dict(sig_record(s), what="correspondence broken: M-FFI does not raise ffi_fail for a nil operand, the implementation does",
                              model=m)), False)
            continue
        # the property is violated on I: a nil operand and no ffi_fail before the call.  (Up to commit 7f404f9 the
        # shape "nil operand, then a non-nil record operand" was the known finding nil-arg-before-record-arg; it is
        # repaired, theorem ffi_failure_paths is now full strength, so its return is a violation like any other.)
        st["fail_bad"] += 1
        rep.violation("fail_nil_%d" % s.sid, json.dumps(dict(sig_record(s), what="nil string / nil record operand did not raise ffi_fail before the call",
                      observed="rc=%d called=%s stdout=%s stderr=%s" % (rc, called, out[-400:], err[-600:]), model=m)), True)
    # missing library / missing symbol / NULL string result
    r = Rng(12345)
    extra = []
    for k, (fname, libname, what) in enumerate([(None, os.path.join(d, "no_such_library.so"), "missing-library"),
                                                  ("no_such_symbol_%d" % 7, None, "missing-symbol")]):
        for params in ([], ["i", "d"], [("r", ["i", "i"]), "s"]):
            s = gen_sig(r.fork(), 0, force=list(params))
            s.sid = 0
            # f0 exists in the library (first generated signature) but is never reached here
            p = os.path.join(d, "x%d_%d.nev" % (k, len(extra)))
            open(p, "w").write(never_program(s, lib, fname=fname or "f0", libname=libname))
            extra.append((what, p, s))
    p = os.path.join(d, "xabs.nev")     # the symbol exists in the global scope: only the library check can stop the call
    open(p, "w").write('extern "%s" func abs(x : int) -> int\nfunc main() -> int\n{\n    print(abs(-5));\n    prints("DONE\\n");\n    0\n}\ncatch (ffi_fail)\n{\n    prints("FFI_FAIL\\n");\n    77\n}\n' % os.path.join(d, "no_such_library.so"))
    extra.append(("missing-library-global-symbol", p, None))
    p = os.path.join(d, "xnull.nev")
    open(p, "w").write('extern "%s" func ret_null_string(x : int) -> string\nfunc main() -> int\n{\n    var s = "";\n    s = ret_null_string(1);\n    prints("DONE\\n");\n    0\n}\ncatch (ffi_fail)\n{\n    prints("FFI_FAIL\\n");\n    77\n}\n' % lib)
    extra.append(("ret-null-string", p, None))
    st["fail_extra"] = len(extra)
    st["fail_missing_ok"] = 0
    multi_library(rep, never, d, st)
    bool_results(rep, never, d, st)
    for what, p, s in extra:
        rc, out, err = run_never(never, p)
        got = [l.rstrip("\r") for l in out.split("\n") if l.strip() != ""]
        if what == "ret-null-string":
            if rc in (0, 77) and got[-1:] in (["DONE"], ["FFI_FAIL"]):
                st["ret_null_string"] = "handled"
            else:
                st["ret_null_string"] = "crash"
                rep.finding("ret-null-string", "rc=%d stdout=%r stderr tail=%r\n%s" % (rc, out[-200:], err[-300:], open(p).read()))
            continue
        if got == ["FFI_FAIL"] and rc == 77:
            st["fail_missing_ok"] += 1
        else:
            st["fail_bad"] += 1
            rep.violation("fail_%s" % what, json.dumps(dict(kind="program", what=what + " did not raise ffi_fail before the call",
                          program=open(p).read(), lib=lib, observed="rc=%d stdout=%s stderr=%s" % (rc, out[-400:], err[-600:]))), True)
    return st
