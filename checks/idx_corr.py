"""Correspondence M-Idx (Lean, `nmdrv idx`) <-> object.c / vmexec.c index arithmetic
(harness/h_idx.c), plus the S-level oracle of C12 (row-major / range denotation / string
positions computed independently here) evaluated on I's answers."""
import itertools, os, subprocess
from common import *
import buildimpl

def rng_pos(a, b, k):
    return a + k if a < b else a - k
def rng_len(a, b):
    return abs(a - b) + 1

def s_aderef(exts, idx):
    """spec: in-range -> row-major address; negative or >= extent -> index_out_of_bounds"""
    for e, i in zip(exts, idx):
        if i < 0 or i >= e:
            return "exc 3"
    a = 0
    for e, i in zip(exts, idx):
        a = a * e + i
    return "ok %d" % a

def s_sderef(exts, ranges, idx):
    pos = []
    for (f, t), i in zip(ranges, idx):
        if i < 0 or i >= rng_len(f, t):
            return "exc 3"
        pos.append(rng_pos(f, t, i))
    return s_aderef(exts, pos)

def s_srange(a, b, c, d):
    n = rng_len(a, b)
    if 0 <= c < n and 0 <= d < n:
        return "some %d %d" % (rng_pos(a, b, c), rng_pos(a, b, d))
    return "oob"

def s_strderef(s, i):
    return "ok %d" % s[i] if 0 <= i < len(s) else "exc 3"

def s_strslice(s, f, t):
    if not (0 <= f < len(s) and 0 <= t < len(s)):
        return "exc 3"
    return "ok " + "".join("%02x" % s[rng_pos(f, t, k)] for k in range(rng_len(f, t)))

def gen_ops(rng, tier):
    ops = []   # (line, spec answer or None, finding signature if spec violation is a known class)
    maxd, maxe = (2, 3) if tier == "quick" else (3, 4)
    for dims in range(1, maxd + 1):
        for exts in itertools.product(range(0, maxe + 1), repeat=dims):
            for idx in itertools.product(*[range(-2, e + 2) for e in exts]):
                ops.append(("aderef %s | %s" % (" ".join(map(str, exts)), " ".join(map(str, idx))), s_aderef(exts, idx), None))
    R = range(-2, 7) if tier == "thorough" else range(-1, 5)
    for a, b, c, d in itertools.product(R, R, R, R):
        sig = "slice-range-negative-inner-bound" if (c < 0 or d < 0) else None
        ops.append(("srange %d %d %d %d" % (a, b, c, d), s_srange(a, b, c, d), sig))
    # compositions near the ends of the int range: the composed bound is base ± inner, which does not fit an int when the base sits
    # near INT_MAX / INT_MIN (the denotation is over the integers; before repo fix the sum wrapped and passed the far-end test)
    IMAX, IMIN = 2147483647, -2147483648
    for (a, b) in [(2000000000, IMAX), (IMAX - 5, IMAX), (IMAX, IMAX - 5), (IMIN, IMIN + 5), (IMIN + 5, IMIN), (-2000000000, IMIN), (IMIN, IMAX), (IMAX, IMIN), (0, IMAX), (IMAX, 0)]:
        n = rng_len(a, b)
        for c in sorted({0, 1, 4, 5, 6, n - 1, n, n + 1, 147483646, 147483647, 147483648, IMAX - 1, IMAX}):
            for d in sorted({0, 5, 6, n - 1, n, 147483648, IMAX}):
                if c < 0 or d < 0 or c > IMAX or d > IMAX:      # inner bounds are ints themselves
                    continue
                ops.append(("srange %d %d %d %d" % (a, b, c, d), s_srange(a, b, c, d), None))
    # slices of arrays: ranges inside the array, indices around the slice length
    for ext in range(1, 5):
        for f in range(0, ext):
            for t in range(0, ext):
                for i in range(-2, rng_len(f, t) + 2):
                    ops.append(("sderef %d | %d:%d | %d" % (ext, f, t, i), s_sderef([ext], [(f, t)], [i]), None))
    for _ in range(150 if tier == "quick" else 3000):
        dims = rng.range(1, 3)
        exts = [rng.range(1, 5) for _ in range(dims)]
        rs = [(rng.below(e), rng.below(e)) for e in exts]
        idx = [rng.range(-1, rng_len(f, t)) for (f, t) in rs]
        ops.append(("sderef %s | %s | %s" % (" ".join(map(str, exts)), " ".join("%d:%d" % r for r in rs), " ".join(map(str, idx))), s_sderef(exts, rs, idx), None))
    for f, t in itertools.product(range(-2, 6), repeat=2):
        for i in range(-2, 8):
            want = ("ok %d" % rng_pos(f, t, i)) if 0 <= i < rng_len(f, t) else "exc 3"
            ops.append(("rderef %d %d %d" % (f, t, i), want, None))
    strs = [[], [0x61], [0x61, 0x62], [0x61, 0x62, 0x63], [0x7f, 0x80, 0xff, 0x01], [0x61, 0x62, 0x63, 0x64, 0x65, 0x66]]
    for s in strs:
        h = "".join("%02x" % c for c in s) or "00"[:0]
        if not s:
            continue
        for i in range(-2, len(s) + 2):
            ops.append(("strderef %s %d" % (h, i), s_strderef(s, i), "string-deref-negative-index" if i < 0 else None))
        for f in range(-1, len(s) + 1):
            for t in range(-1, len(s) + 1):
                ops.append(("strslice %s %d %d" % (h, f, t), s_strslice(s, f, t), None))
    shapes = [[2, 3], [3, 2], [3, 4], [2, 3, 4], [3], [0, 2], [2, 0], [1, 1], [4, 4]]
    for a in shapes:
        for b in shapes:
            ops.append(("canadd %s | %s" % (" ".join(map(str, a)), " ".join(map(str, b))), "1" if a == b else "0", None))
            ops.append(("canmult %s | %s" % (" ".join(map(str, a)), " ".join(map(str, b))), "1" if (len(a) == 2 and len(b) == 2 and a[1] == b[0]) else "0", None))
    # random large shapes: multipliers, addresses, product wrap-around
    for _ in range(300 if tier == "quick" else 20000):
        dims = rng.range(1, 5)
        exts = [rng.choice([0, 1, 2, 3, 7, 100, 1000, 65535, 65536, 65537, 1 << 20, (1 << 31), (1 << 32) - 1]) if rng.chance(0.5) else rng.range(1, 50) for _ in range(dims)]
        prod = 1
        for e in exts:
            prod *= e
        idx = [min((1 << 32) - 1, rng.below(e + 2) if e < 100 else rng.choice([0, 1, e - 1, e, e + 1])) for e in exts]
        ok = all(i < e for i, e in zip(idx, exts))
        if prod < (1 << 32):
            a = 0
            for e, i in zip(exts, idx):
                a = a * e + i
            first = next((k for k, (i, e) in enumerate(zip(idx, exts)) if i >= e), None)
            want = ("ok %d" % a) if ok else "oob %d" % first
            ops.append(("addr %s | %s" % (" ".join(map(str, exts)), " ".join(map(str, idx))), want, None))
            ops.append(("mult %s" % " ".join(map(str, exts)), None, None))
        else:
            ops.append(("addr %s | %s" % (" ".join(map(str, exts)), " ".join(map(str, idx))), None, None))
    ops.append(("addr 65536 65536 | 1 1", "overflow", "extent-product-overflow"))
    return ops

def run_correspondence(rep, tier, seed):
    info = buildimpl.build("asan")
    d = scratch_dir("idx")
    exe = buildimpl.link_harness(info, os.path.join(VERIF, "harness", "h_idx.c"), os.path.join(d, "h_idx"))
    rng = Rng(seed)
    ops = gen_ops(rng, tier)
    inp = "\n".join(o[0] for o in ops) + "\n"
    env = dict(os.environ, ASAN_OPTIONS="detect_leaks=0")
    pi = subprocess.run([exe], input=inp, stdout=subprocess.PIPE, stderr=subprocess.DEVNULL, text=True, env=env)
    pm = subprocess.run([NMDRV, "idx"], input=inp, stdout=subprocess.PIPE, stderr=subprocess.PIPE, text=True)
    il, ml = pi.stdout.split("\n"), pm.stdout.split("\n")
    kinds, div, sviol, samples = {}, 0, 0, []
    for k, (op, want, sig) in enumerate(ops):
        a = il[k] if k < len(il) and il[k] != "" else "<no answer>"
        m = ml[k] if k < len(ml) else "<none>"
        kind = op.split()[0]
        kinds[kind] = kinds.get(kind, 0) + 1
        if len(samples) < 4 and k % 997 == 3:
            samples.append(dict(op=op, impl=a, model=m, spec=want))
        if sig == "extent-product-overflow":
            # spec: an index into a 65536x65536 array must not be mapped onto element 0 of an empty element array
            if a == "ok 0":
                rep.finding(sig, "object_arr_dim_mult wraps the extent product to 0; %s -> %s (NULL element array would be read)" % (op, a))
            continue
        if want is not None and a != want:
            if sig is not None:
                # a listed class of pinned-tree defects: accept "I behaves like M" (defect present) as the known finding
                if a == m:
                    rep.finding(sig, "%s : spec %s, implementation %s" % (op, want, a))
                    continue
            sviol += 1
            if sviol <= 3:
                rep.violation("idx_s_%d" % k, "# C12 fails on the implementation: spec says `%s`, implementation answers `%s` (model: `%s`)\n# replay: echo '%s' | h_idx\n%s" % (want, a, m, op, op), True)
            continue
        if a != m:
            div += 1
            if div <= 3:
                rep.violation("idx_div_%d" % k, "# correspondence M-Idx<->C broken (Props/C12 no longer tied); spec agrees with I here\n# I: %s\n# M: %s\n%s" % (a, m, op), a == "crash")
    import shutil; shutil.rmtree(d, ignore_errors=True)
    return dict(ops=len(ops), kinds=kinds, diverged=div, s_failures=sviol, samples=samples)
