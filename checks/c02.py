"""C02 — compiled programs compute what the language's evaluation rules say.

Level: translation validation / differential testing of the REAL pipeline against the reference
evaluator `Never.Src.eval` (labelled as such — it is the property's own oracle), plus Lean proofs
of the evaluator's own laws (evaluation order, short circuit, shared cells, fuel monotonicity)."""
import shutil
from common import *
import src_corr

PROP_MODULE = "NeverModel.Props.C02"
REQUIRED = ["Never.Src.C02.eval_order_call_args_right_to_left", "Never.Src.C02.eval_order_binary_left_to_right",
            "Never.Src.C02.eval_order_and_short_circuit", "Never.Src.C02.eval_order_or_short_circuit",
            "Never.Src.C02.eval_fuel_mono", "Never.Src.C02.eval_deterministic", "Never.Src.C02.binding_shares_cells"]

def search():
    """after a broken proof: look for a concrete program on which I and S disagree"""
    d = scratch_dir("c02search")
    try:
        exe = src_corr.build_harness(d)
        class R:  # collect instead of printing
            def __init__(s): s.found = None; s.pid = "C02"
            def violation(s, tag, text, found_input=True):
                if found_input and s.found is None: s.found = text
            def finding(s, sig, text): return True
        r = R()
        src_corr.stream(r, exe, "quick", 777, 300, None, False, "s")
        return r.found
    finally:
        shutil.rmtree(d, ignore_errors=True)

def shapes_stage(rep, tier, seed):
    """rarely taken emitter paths outside the generator's core (pipe of a tuple into a local function, comprehension over
    descending slices, closure reassignment, `!` around a self call in tail position, typed operators on run-time operands,
    faults inside catch clauses ...): the expected text and result of every program are computed by progs.py from the
    language rules, independently of the implementation"""
    import vm_checks
    return vm_checks.expectation_stage(rep, tier, seed, "shape")

def check(tier, seed):
    rep = Report("C02", tier, seed, "translation_validation")
    src_corr.clear_replays("C02")
    proof_stage(rep, PROP_MODULE, required=REQUIRED, search=search)
    d = scratch_dir("c02")
    try:
        exe = src_corr.build_harness(d)
        seeds = src_corr.seed_corpus(rep, exe)
        known = src_corr.run_known_probes(rep, exe)
        corpus = src_corr.sample_corpus(rep, exe, roundtrip=(tier == "thorough"))
        if corpus["agree"] < 40:
            rep.violation("corpus_small", "only %d sample programs inside the core agree; the corpus tie needs >= 40\n%r" % (corpus["agree"], corpus), False)
        n = 300 if tier == "quick" else 12000
        st = src_corr.stream(rep, exe, tier, seed, n, None, False, "g")
        n2 = 60 if tier == "quick" else 3000
        st2 = src_corr.stream(rep, exe, tier, seed + 1000003, n2, dict(faults=0.7, catches=0.9, prints=0.8), False, "f")
        mods = src_corr.module_stream(rep, exe, seed, 40 if tier == "quick" else 1500)
        shapes = shapes_stage(rep, tier, seed)
        # self calls in every position class (tail / not tail): a call retagged by mistake loses the rest of the computation
        import tailpos
        tp = tailpos.run(rep, tier, seed + 31, marks=False, constant_stack=False, nprog=(8 if tier == "quick" else 120))
    finally:
        shutil.rmtree(d, ignore_errors=True)
    rep.cov.update(
        trusted_base=["Lean 4.33 kernel (theorems about the evaluator only)", "axioms: propext, Classical.choice, Quot.sound",
                      "the reference evaluator Never.Src.eval as the statement of the language's rules (tied to the code ONLY by this differential run)",
                      "generator src_gen.py + printers nevast.py (what they do not generate is not seen)", "harness h_run.c, gcc, ASan/UBSan, libm/printf of this machine",
                      "Lean Float/Float32 = IEEE binary64/32 of this machine"],
        evaluations=st["runs"] + st2["runs"] + corpus["in_core"],
        distinct_nontrivial=st["progs_with_output"] + st2["progs_with_output"] + corpus["with_output"],
        rule="type-directed seeded programs of the modelled core (a program is non-trivial when it prints); result value, printed bytes and unhandled-exception identity compared with eval; plus every sample program inside the core",
        samples=st["samples"], shape_programs=shapes, multi_unit_programs=mods, tail_position_programs={k: v for k, v in tp.items() if k != "found"}, stream=st, fault_stream=st2, corpus=corpus, known_defect_probes_hit=known, seed_corpus=seeds,
        share_programs_with_nonconstant_condition=round(st["progs_with_nonconst_cond"] / max(1, st["programs"]), 3),
        share_programs_with_ranges_or_slices=round(st["progs_with_ranges_or_slices"] / max(1, st["programs"]), 3),
        rejected_by_real_compiler=st["rejected"] + st2["rejected"])
    rep.assumptions = ["modelled core only (see DESIGN.add.md): no FFI, math builtins other than sqrt; ranges, slices, the pipe operator and array arithmetic are in, modules by linking (docs/DESIGN.add.D3.md)",
                       "beyond the evaluator's own laws nothing here is a proof about emit.c/vmexec.c: it is differential testing, bounded by the generator"]
    return rep.finish()

def replay(path):
    return src_corr.replay_file(path)
