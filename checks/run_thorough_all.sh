#!/bin/bash
# run every check's thorough tier once, print the summary line of each (used with `vp run`)
cd "$(dirname "$0")/.." || exit 2
(cd lean && lake build NeverModel nmdrv >/dev/null 2>&1)
for c in C09 C12 C03 C13 C14 C15 C07 C10 C11 C17 C16 C05 C06 C02 C08 C04 C01; do
  s=$(date +%s)
  out=$(python3 checks/check.py $c --tier thorough 2>&1 | grep -v "^KNOWN")
  echo "$out" | grep "VIOLATION" | head -5
  echo "$out" | tail -1
  echo "  ($c took $(( $(date +%s) - s )) s)"
done
