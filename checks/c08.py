"""C08 — names resolve lexically and closures keep their captured cells alive.

Level: proof on S (alpha-invariance of `eval`, innermost resolution, exact free-variable lists,
closure cells) + differential for the real resolver (closure/shadowing-heavy programs and their
alpha-renamed twins on I and S; environment-vector sizes of I against |fv|)."""
import shutil
from common import *
import src_corr

PROP_MODULE = "NeverModel.Props.C08"
REQUIRED = ["Never.Src.C08.eval_alpha", "Never.Src.C08.resolve_innermost", "Never.Src.C08.resolve_alpha", "Never.Src.C08.fv_exact",
            "Never.Src.C08.closure_cells_distinct", "Never.Src.C08.captured_cells_stay_allocated",
            "Never.Src.C08.closure_update_seen_by_all_holders"]
KNOBS = dict(closures=1.0, shadowing=0.9, nesting=3, recursion=0.6, records=0.3, strings=0.2, floats=0.2, enums=0.3, arrays=0.4, capture=0.8)

def search():
    d = scratch_dir("c08search")
    try:
        exe = src_corr.build_harness(d)
        class R:
            def __init__(s): s.found = None; s.pid = "C08"
            def violation(s, tag, text, found_input=True):
                if found_input and s.found is None: s.found = text
            def finding(s, sig, text): return True
        r = R()
        src_corr.stream(r, exe, "quick", 778, 200, KNOBS, True, "s")
        return r.found
    finally:
        shutil.rmtree(d, ignore_errors=True)

def check(tier, seed):
    rep = Report("C08", tier, seed, "proof")
    src_corr.clear_replays("C08")
    proof_stage(rep, PROP_MODULE, required=REQUIRED, search=search)
    d = scratch_dir("c08")
    try:
        exe = src_corr.build_harness(d)
        seeds = src_corr.seed_corpus(rep, exe, gc_every=True)
        known = src_corr.run_known_probes(rep, exe)
        n = 200 if tier == "quick" else 6000
        st = src_corr.stream(rep, exe, tier, seed, n, KNOBS, True, "c", small_heap=3000)
        # capture shapes outside the generator's reach (function values created in for-in / comprehension / range loops that capture
        # the loop variable after other variables, own name re-bound, three-level capture, rethrow through another closure):
        # expectations computed by progs.py from the language rules
        import vm_checks
        shapes = vm_checks.expectation_stage(rep, tier, seed, "capture", want=lambda meta: meta.get("capture"))
    finally:
        shutil.rmtree(d, ignore_errors=True)
    rep.cov.update(
        trusted_base=["Lean 4.33 kernel", "axioms: propext, Classical.choice, Quot.sound",
                      "S = Never.Src.eval / resolve / fv; tied to symtab.c, freevar.c, gencode.c, emit.c only by the differential run",
                      "generator + renamer src_gen.py, printers nevast.py", "harness h_run.c (GLOBAL_VEC sizes via the NEVER_VERIF step hook), gcc, ASan/UBSan"],
        evaluations=st["runs"], distinct_nontrivial=st["clos_nonzero"],
        rule="closure/shadowing-heavy generated programs, each with three alpha-renamed twins (name_depth: un-shadowed; level: maximal re-use of names; collide: all bound names share one value of the compiler's identifier hash); I(p)=I(twin)=S(p); sizes of environment vectors = |fv| for every closure created",
        samples=st["samples"], stream=st, capture_shapes=shapes, known_defect_probes_hit=known, seed_corpus=seeds,
        share_programs_with_nonconstant_condition=round(st["progs_with_nonconst_cond"] / max(1, st["programs"]), 3),
        share_programs_with_ranges_or_slices=round(st["progs_with_ranges_or_slices"] / max(1, st["programs"]), 3),
        rejected_by_real_compiler=st["rejected"])
    rep.assumptions = ["symtab.c hashing/lookup internals are not modelled", "liveness of captured cells across collections is C04's theorem; here closures are exercised with the default heap"]
    return rep.finish()

def replay(path):
    return src_corr.replay_file(path)
