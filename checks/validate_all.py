#!/usr/bin/env python3-vt
"""validate MANIFEST.json and every evidence file against the schemas in /root/.vp"""
import json, glob, sys, jsonschema
ok = True
try:
    jsonschema.validate(json.load(open('/verif/MANIFEST.json')), json.load(open('/root/.vp/MANIFEST.schema.json'))); print("MANIFEST ok")
except Exception as e:
    ok = False; print("MANIFEST INVALID", str(e)[:300])
sch = json.load(open('/root/.vp/EVIDENCE.schema.json'))
for f in sorted(glob.glob('/verif/evidence/C*.json')):
    try:
        e = json.load(open(f)); jsonschema.validate(e, sch)
        c = e["coverage"]; print(f.split('/')[-1], "ok", e["level"], "obl=%s/%s" % (c.get("discharged"), c.get("obligations")), "viol=%s" % e.get("violations"), "wall=%s" % e.get("wall_s"))
    except Exception as ex:
        ok = False; print(f.split('/')[-1], "INVALID", str(ex)[:200])
sys.exit(0 if ok else 1)
