"""C01 — accepted programs run safely: no crash, tag confusion or bad memory access."""
from common import *
import vm_corr, vm_checks, op_corr

PROP_MODULE = "NeverModel.Props.C01"

# pinned-tree defects, replayed every run: (signature, source, args, what the property demands)
PROBES = [
 ("int-min-div-minus-one", "func d(a : int, b : int) -> int { a / b } func main(x : int) -> int { d(0 - 2147483647 - 1, 0 - x) }", ["1"]),
 ("int-min-mod-minus-one", "func d(a : int, b : int) -> int { a % b } func main(x : int) -> int { d(0 - 2147483647 - 1, 0 - x) }", ["1"]),
 ("string-deref-negative-index", "func main(i : int) -> int { let s = \"abc\"; ord(s[0 - i]) }", ["1"]),
 ("ass-int-double-tag", "func main(x : int) -> int { var i = 1; var d = 2.5d; i = d; i }", ["1"]),
 ("extent-product-overflow", "func main(x : int) -> int { var a = {[ 65536, 65536 ]} : int; a[x, x] }", ["1"]),
]

def check(tier, seed):
    rep = Report("C01", tier, seed, "proof")
    proof_stage(rep, PROP_MODULE, required=["Never.C01.arith_guards_complete_partial", "Never.C01.array_index_guard_complete_partial", "Never.C01.handler_lookup_guard", "Never.C01.collector_guard"])
    h = vm_corr.VmHarness()
    stats = {}
    crashes = collections_counter()
    def on_result(j, r, st, det, io):
        k = io["kind"]
        if st in ("no-run", "compile-crash", "skipped-ffi", "impl-timeout", "model-timeout"):
            return True
        if k.startswith(("sanitizer", "signal", "assert", "crash", "timeout")):
            sig = vm_checks.crash_signature(r)
            crashes[sig] = crashes.get(sig, 0) + 1
            src = j.get("src") or ("file " + str(j.get("file")))
            rep.finding("crash:" + sig, "accepted program %s crashes the host (%s) under config %s args %s\n%s\n--- stderr ---\n%s" % (j["name"], k, r["cfg"], j.get("args"), src, r["err"][-1500:]))
            return True
        return False
    jobs = vm_checks.sample_jobs() + vm_checks.family_jobs(seed, 1 if tier == "quick" else 6, [("7",), ("0",), ("3",), ("40",)])
    # programs the type checker must reject (C06's hand negatives): when one is ACCEPTED it is an accepted program like any other and
    # must run safely (rejected ones count as no-run)
    negdir = os.path.join(VERIF, "corpus", "tc_neg")
    for f in sorted(os.listdir(negdir)):
        if f.endswith(".nev"):
            jobs.append(dict(name="neg_" + f, file=os.path.join(negdir, f), cwd=os.path.join(negdir, "modules")))
    if tier == "thorough":
        jobs += vm_checks.sample_jobs(gc=1, mem=2000) + vm_checks.sample_jobs(gc=0, mem=300, stack=90) + vm_checks.family_jobs(seed + 1, 4, [("5",), ("200",)], gc=1, mem=1500, stack=400)
    res = vm_checks.sweep(h, rep, jobs, "c01", stats, on_result)
    # known pinned-tree defects, by probe (either still present -> KNOWN-FINDING, or repaired -> silent)
    probes = [dict(name="probe_" + sig, src=src, args=args, meta=dict(sig=sig)) for sig, src, args in PROBES]
    def on_probe(j, r, st, det, io):
        k = io["kind"]
        if k.startswith(("sanitizer", "signal", "assert", "crash")):
            rep.finding("probe:" + j["meta"]["sig"], "%s -> %s\n%s" % (j["src"], k, r["err"][-800:]))
            return True
        if st == "no-run":
            rep.violation("probe_rejected_" + j["meta"]["sig"], "probe program no longer compiles: %s\n%s" % (j["src"], r["err"][-500:]), False)
            return True
        return st in ("ok", "both-crash")
    vm_checks.sweep(h, rep, probes, "c01probe", {}, on_probe, max_report=10)
    h.close()
    # single-handler differential: every non-arithmetic handler x operand kinds x values (nil references, boundary integers)
    opst = op_corr.run_all(rep, tier, seed)
    opc = vm_checks.opcode_coverage(stats)
    rep.cov.update(trusted_base=["Lean 4.33 kernel", "axioms: propext, Classical.choice, Quot.sound", "trace harness h_vm.c + vm_corr.py comparator",
                                 "gcc, ASan/UBSan runtime, libm (math builtin results and fenv flags enter the model as oracle inputs)"],
                   evaluations=len(jobs) + len(probes), distinct_nontrivial=stats.get("ok", 0) + stats.get("both-crash", 0),
                   rule="every sample program and every seeded family program x entry arguments is run on the real VM (ASan/UBSan, asserts on) and replayed instruction by instruction on the Lean VM model; non-trivial = executed and compared to the end",
                   samples=[dict(name=j["name"], outcome=io["kind"], status=st) for (j, r, st, det, io) in res[:3]],
                   statuses={k: v for k, v in stats.items() if not k.startswith("_")}, instructions_replayed=stats.get("_steps", 0),
                   opcodes_executed=opc, crash_signatures=crashes, single_handler_differential={k: v for k, v in opst.items() if k != "by_handler"},
                   single_handler_cases_per_handler=opst["by_handler"])
    rep.assumptions = ["static typing => operand tags is validated dynamically on every replayed step (model getters fail on a wrong tag), not proved",
                       "FFI opcodes are not modelled (programs using them are skipped and counted)"]
    return rep.finish()

def collections_counter():
    return {}

def replay(path):
    print(open(path).read()); return 0
