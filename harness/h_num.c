/* h_num: compiles and runs one never program per input line THROUGH THE WHOLE COMPILER
 * (nev_compile_str: scanner, parser, typechecker, constant reducer, emitter; nev_execute: VM),
 * each in a forked child so that SIGFPE / assert / a sanitizer abort is an outcome, and prints one
 * canonical outcome line per program:
 *
 *   ok <type>:<hex bits> out=<hex of the bytes the program printed>
 *   exc <n>                      unhandled language exception number (include/vm.h)
 *   cfail divzero|other          the compiler rejected the program (divzero = "division by zero")
 *   signal <n>                   the compiler or the VM died (8 = SIGFPE, 6 = assert/abort, 11 = SIGSEGV)
 *   exit <n>                     anything else
 *
 * Input line: program text with newlines written as \x01.  Floats are reported as bit patterns.
 */
#include <stdio.h>
#include <stdlib.h>
#include <string.h>
#include <unistd.h>
#include <signal.h>
#include <sys/wait.h>
#include <sys/resource.h>
#include "nev.h"
#include "gc.h"

static void hexout(FILE * f, const unsigned char * p, size_t n)
{
    size_t i;
    for (i = 0; i < n; i++) fprintf(f, "%02x", p[i]);
}

static int child(const char * src, int report_fd, int out_rd)
{
    FILE * rep = fdopen(report_fd, "w");
    object result = { 0 };
    program * prog = program_new();
    vm * machine = NULL;
    int ret = nev_compile_str(src, prog);
    (void)out_rd;
    if (ret != 0)
    {
        fprintf(rep, "cfail\n");
        fflush(rep);
        return 0;
    }
    ret = nev_prepare_argc_argv(prog, "main", 0, NULL);
    if (ret != 0)
    {
        fprintf(rep, "exit prepare-%d\n", ret);
        fflush(rep);
        return 0;
    }
    machine = vm_new(DEFAULT_VM_MEM_SIZE, DEFAULT_VM_STACK_SIZE);
    ret = nev_execute(prog, machine, &result);
    fflush(stdout);
    if (ret != 0)
    {
        fprintf(rep, "exc %d\n", (int)machine->exception);
        fflush(rep);
        return 0;
    }
    switch (result.type)
    {
    case OBJECT_INT: fprintf(rep, "ok int:%08x\n", (unsigned int)result.int_value); break;
    case OBJECT_LONG: fprintf(rep, "ok long:%016llx\n", (unsigned long long)result.long_value); break;
    case OBJECT_FLOAT: { unsigned int u; memcpy(&u, &result.float_value, 4); fprintf(rep, "ok float:%08x\n", u); } break;
    case OBJECT_DOUBLE: { unsigned long long u; memcpy(&u, &result.double_value, 8); fprintf(rep, "ok double:%016llx\n", u); } break;
    case OBJECT_CHAR: fprintf(rep, "ok char:%02x\n", (unsigned char)result.char_value); break;
    case OBJECT_STRING_REF:
    {
        if (result.string_ref_value == nil_ptr) { fprintf(rep, "ok string:nil\n"); break; }
        char * s = gc_get_string(machine->collector, result.string_ref_value);
        fprintf(rep, "ok string:");
        hexout(rep, (unsigned char *)s, strlen(s));
        fprintf(rep, "\n");
    }
    break;
    default: fprintf(rep, "ok other:%d\n", (int)result.type); break;
    }
    fflush(rep);
    return 0;
}

int main(void)
{
    static char line[1 << 20];
    static char buf[1 << 16];
    signal(SIGPIPE, SIG_IGN);
    while (fgets(line, sizeof line, stdin))
    {
        size_t n = strlen(line), i;
        int rp[2], op[2], ep[2];
        pid_t pid;
        if (n && line[n - 1] == '\n') line[--n] = 0;
        for (i = 0; i < n; i++) if (line[i] == 1) line[i] = '\n';
        if (pipe(rp) || pipe(op) || pipe(ep)) { printf("exit pipe\n"); fflush(stdout); continue; }
        fflush(stdout);
        pid = fork();
        if (pid == 0)
        {
            struct rlimit rl = { 10, 10 };
            setrlimit(RLIMIT_CPU, &rl);
            rl.rlim_cur = rl.rlim_max = 0;
            setrlimit(RLIMIT_CORE, &rl);
            close(rp[0]); close(op[0]); close(ep[0]);
            dup2(op[1], 1); dup2(ep[1], 2);
            close(op[1]); close(ep[1]);
            _exit(child(line, rp[1], -1));
        }
        close(rp[1]); close(op[1]); close(ep[1]);
        {
            /* small outputs only: read report, stdout, stderr after the child ended (pipes hold 64k) */
            int status = 0;
            ssize_t k;
            char rep[1 << 12]; size_t rl = 0;
            static unsigned char outb[1 << 16]; size_t ol = 0;
            static char errb[1 << 16]; size_t el = 0;
            waitpid(pid, &status, 0);
            while ((k = read(rp[0], rep + rl, sizeof rep - 1 - rl)) > 0) rl += (size_t)k;
            rep[rl] = 0;
            while (ol < sizeof outb && (k = read(op[0], outb + ol, sizeof outb - ol)) > 0) ol += (size_t)k;
            while (el < sizeof errb - 1 && (k = read(ep[0], errb + el, sizeof errb - 1 - el)) > 0) el += (size_t)k;
            errb[el] = 0;
            close(rp[0]); close(op[0]); close(ep[0]);
            if (rl && rep[rl - 1] == '\n') rep[--rl] = 0;
            if (WIFSIGNALED(status)) printf("signal %d", WTERMSIG(status));
            else if (rl == 0) printf("exit %d", WEXITSTATUS(status));
            else if (!strcmp(rep, "cfail")) printf("cfail %s", strstr(errb, "division by zero") ? "divzero" : "other");
            else printf("%s", rep);
            printf(" out=");
            hexout(stdout, outb, ol);
            if (rl && !strcmp(rep, "cfail"))
            {
                /* first diagnostic line, for the report only */
                char * e = strstr(errb, "error:");
                if (e) { char * nl = strchr(e, '\n'); if (nl) *nl = 0; snprintf(buf, sizeof buf, "%s", e); printf(" msg=%s", buf); }
            }
            printf("\n");
            fflush(stdout);
        }
    }
    return 0;
}
