/* h_gcl: h_gc (drives back/gc.c directly; one operation per stdin line, one state line per
   answer) + a malloc/free counting shim: every answer carries `mal=<malloc events of this
   operation> fre=<free events> live=<blocks allocated by gc.c/object.c and not yet freed>`,
   same protocol as `nmdrv ledger`; extra operation `delete` (gc_delete).
   Link with -Wl,--wrap=malloc,--wrap=free,--wrap=realloc,--wrap=calloc,--wrap=strdup,--wrap=exit
   (the wrappers forward to the sanitizer's allocator, so ASan still sees everything). */
#include <stdio.h>
#include <stdlib.h>
#include <string.h>
#include <setjmp.h>
#include "gc.h"
#include "object.h"

static jmp_buf exit_jb;
static int exit_armed = 0;
void __real_exit(int);
void __wrap_exit(int code)
{
    if (exit_armed) { exit_armed = 0; longjmp(exit_jb, 1 + (code & 0xff)); }
    __real_exit(code);
}

static gc * g = NULL;

/* ---- counting shim: only calls made while `counting` is on (i.e. by libnev code) count */
void * __real_malloc(size_t); void __real_free(void *); void * __real_realloc(void *, size_t);
void * __real_calloc(size_t, size_t); char * __real_strdup(const char *);
static int counting = 0;
static long n_mal = 0, n_fre = 0, n_live = 0;
#define OPLOG 256
static void * oplog[OPLOG]; static int oplog_n = 0;
static void note_alloc(void * p) { if (counting && p) { n_mal++; n_live++; if (oplog_n < OPLOG) oplog[oplog_n++] = p; } }
static void note_free(void * p)
{
    int i;
    if (counting && p) { n_fre++; n_live--; for (i = 0; i < oplog_n; i++) if (oplog[i] == p) oplog[i] = NULL; }
}
void * __wrap_malloc(size_t n) { void * p = __real_malloc(n); note_alloc(p); return p; }
void * __wrap_calloc(size_t a, size_t b) { void * p = __real_calloc(a, b); note_alloc(p); return p; }
char * __wrap_strdup(const char * s) { char * p = __real_strdup(s); note_alloc(p); return p; }
void __wrap_free(void * p) { note_free(p); __real_free(p); }
void * __wrap_realloc(void * p, size_t n)
{
    void * q = __real_realloc(p, n);
    int i;
    if (p == NULL) note_alloc(q);                       /* realloc(NULL, n) is a malloc */
    else if (counting && q != p) for (i = 0; i < oplog_n; i++) if (oplog[i] == p) oplog[i] = q;
    return q;
}
static void op_begin(void) { n_mal = 0; n_fre = 0; oplog_n = 0; counting = 1; }
static void op_end(void) { counting = 0; }
/* gc_alloc_any found the heap full and called exit(1): the process would be gone; the
   object built by object_new_* is handed back so that the history can go on */
static char * scratch_str = NULL;   /* the harness's own unhex buffer (not counted) */
static void op_abandon(void)
{
    int i;
    counting = 0;
    if (scratch_str) { __real_free(scratch_str); scratch_str = NULL; }
    for (i = 0; i < oplog_n; i++) if (oplog[i]) { __real_free(oplog[i]); n_mal--; n_live--; }
    oplog_n = 0;
}

static void print_list(unsigned int * l, unsigned int n)
{
    unsigned int i;
    for (i = 0; i < n; i++) printf(i ? ",%u" : "%u", l[i]);
}

static void print_obj(object * o)
{
    unsigned int i;
    if (o == NULL) { printf("-"); return; }
    switch (o->type)
    {
    case OBJECT_INT: printf("I%d", o->int_value); break;
    case OBJECT_LONG: printf("L%lld", o->long_value); break;
    case OBJECT_FLOAT: { unsigned int b; memcpy(&b, &o->float_value, 4); printf("F%u", b); } break;
    case OBJECT_DOUBLE: { unsigned long long b; memcpy(&b, &o->double_value, 8); printf("D%llu", b); } break;
    case OBJECT_CHAR: printf("C%d", (int)o->char_value); break;
    case OBJECT_STRING: { unsigned char * s = (unsigned char *)o->string_value; printf("S"); for (; s && *s; s++) printf("%02x", *s); } break;
    case OBJECT_STRING_REF: printf("R%u", o->string_ref_value); break;
    case OBJECT_STRING_ARR: printf("T"); break;
    case OBJECT_C_PTR: printf("P"); break;
    case OBJECT_VEC: printf("V"); print_list(o->vec_value->value, o->vec_value->size); break;
    case OBJECT_VEC_REF: printf("W%u", o->vec_ref_value); break;
    case OBJECT_ARRAY:
        printf("A");
        for (i = 0; i < o->arr_value->dims; i++)
            printf(i ? "x%u*%u" : "%u*%u", o->arr_value->dv[i].elems, o->arr_value->dv[i].mult);
        printf(";");
        print_list(o->arr_value->value, o->arr_value->elems);
        break;
    case OBJECT_ARRAY_REF: printf("B%u", o->arr_ref_value); break;
    case OBJECT_FUNC: printf("U%u@%u", o->func_value->vec, o->func_value->addr); break;
    default: printf("?%d", (int)o->type);
    }
}

static void print_state(void)
{
    unsigned int i, a, steps = 0;
    printf("st free=");
    for (a = g->free; a != 0; a = g->mem[a].next)
    {
        if (steps > g->mem_size) { printf(steps ? ",0" : "0"); break; }
        if (a >= g->mem_size) { printf(steps ? ",!%u" : "!%u", a); break; }
        printf(steps ? ",%u" : "%u", a);
        steps++;
    }
    printf(" w=%u wb0=", g->w_index);
    print_list(g->wb_list[0], g->wb_top[0]);
    printf(" wb1=");
    print_list(g->wb_list[1], g->wb_top[1]);
    printf(" mal=%ld fre=%ld live=%ld |", n_mal, n_fre, n_live);
    for (i = 0; i < g->mem_size; i++)
    {
        printf(" %d/%u:", (int)g->mem[i].mark, g->mem[i].next);
        print_obj(g->mem[i].object_value);
    }
    printf("\n");
}

static int parse_slots(char ** tok, int ntok, gc_stack * st)
{
    int i;
    for (i = 0; i < ntok; i++)
    {
        memset(&st[i], 0, sizeof(gc_stack));
        if (tok[i][0] == 'a') { st[i].type = GC_MEM_ADDR; st[i].addr = strtoul(tok[i] + 2, NULL, 10); }
        else if (tok[i][0] == 'i') { st[i].type = GC_MEM_IP; st[i].ip = strtoul(tok[i] + 2, NULL, 10); }
        else if (tok[i][0] == 's') { st[i].type = GC_MEM_STACK; st[i].sp = atoi(tok[i] + 2); }
        else { st[i].type = GC_MEM_UNKNOWN; st[i].addr = 0; }
    }
    return ntok;
}

static unsigned char * unhex(const char * h)
{
    size_t n = strlen(h) / 2, i;
    unsigned char * s = __real_malloc(n + 1);
    for (i = 0; i < n; i++) { unsigned int b; sscanf(h + 2 * i, "%2x", &b); s[i] = (unsigned char)b; }
    s[n] = 0;
    return s;
}

#define MAXTOK 4096
int main(void)
{
    static char line[1 << 16];
    char * tok[MAXTOK];
    while (fgets(line, sizeof line, stdin))
    {
        int nt = 0;
        char * p = strtok(line, " \n");
        while (p && nt < MAXTOK) { tok[nt++] = p; p = strtok(NULL, " \n"); }
        if (nt == 0) { printf("bad-op\n"); fflush(stdout); continue; }
        if (g == NULL && strcmp(tok[0], "new")) { printf("bad-op\n"); fflush(stdout); continue; }
        if (!strcmp(tok[0], "sweep")) { printf("bad-op\n"); fflush(stdout); continue; }
        op_begin();
        if (!strcmp(tok[0], "new"))
        {
            if (g) { gc_delete(g); n_mal = 0; n_fre = 0; }
            g = gc_new(strtoul(tok[1], NULL, 10));
            op_end();
            op_end(); printf("ok "); print_state();
        }
        else if (!strcmp(tok[0], "delete"))
        {
            gc_delete(g); g = NULL;
            op_end();
            printf("deleted mal=%ld fre=%ld live=%ld\n", n_mal, n_fre, n_live);
        }
        else if (!strcmp(tok[0], "alloc") && nt >= 2)
        {
            mem_ptr loc = 0;
            int rc;
            exit_armed = 1;
            if ((rc = setjmp(exit_jb)) != 0) { op_abandon(); printf("oom "); print_state(); fflush(stdout); continue; }
            if (!strcmp(tok[1], "int")) loc = gc_alloc_int(g, (int)strtol(tok[2], NULL, 10));
            else if (!strcmp(tok[1], "long")) loc = gc_alloc_long(g, strtoll(tok[2], NULL, 10));
            else if (!strcmp(tok[1], "float")) { unsigned int b = strtoul(tok[2], NULL, 10); float f; memcpy(&f, &b, 4); loc = gc_alloc_float(g, f); }
            else if (!strcmp(tok[1], "double")) { unsigned long long b = strtoull(tok[2], NULL, 10); double d; memcpy(&d, &b, 8); loc = gc_alloc_double(g, d); }
            else if (!strcmp(tok[1], "char")) loc = gc_alloc_char(g, (char)atoi(tok[2]));
            else if (!strcmp(tok[1], "str")) { scratch_str = (char *)unhex(nt > 2 ? tok[2] : ""); loc = gc_alloc_string(g, scratch_str); __real_free(scratch_str); scratch_str = NULL; }
            else if (!strcmp(tok[1], "strref")) loc = gc_alloc_string_ref(g, strtoul(tok[2], NULL, 10));
            else if (!strcmp(tok[1], "cptr")) loc = gc_alloc_c_ptr(g, NULL);
            else if (!strcmp(tok[1], "vec"))
            {
                unsigned int n = strtoul(tok[2], NULL, 10), i;
                loc = gc_alloc_vec(g, n);
                for (i = 0; i < n; i++) gc_set_vec(g, loc, i, 0);
            }
            else if (!strcmp(tok[1], "vecref")) loc = gc_alloc_vec_ref(g, strtoul(tok[2], NULL, 10));
            else if (!strcmp(tok[1], "arr"))
            {
                unsigned int dims = nt - 2, d, e;
                object_arr_dim * dv = object_arr_dim_new(dims);
                for (d = 0; d < dims; d++) { dv[d].elems = strtoul(tok[2 + d], NULL, 10); dv[d].mult = 0; }
                loc = gc_alloc_arr(g, dims, dv);
                for (e = 0; e < gc_get_arr_elems(g, loc); e++) gc_set_arr_elem(g, loc, e, 0);
            }
            else if (!strcmp(tok[1], "arrref")) loc = gc_alloc_arr_ref(g, strtoul(tok[2], NULL, 10));
            else if (!strcmp(tok[1], "func")) loc = gc_alloc_func(g, strtoul(tok[2], NULL, 10), strtoul(tok[3], NULL, 10));
            else { exit_armed = 0; op_end(); printf("bad-op\n"); fflush(stdout); continue; }
            exit_armed = 0;
            op_end();
            printf("-> %u ", loc); print_state();
        }
        else if (!strcmp(tok[0], "setvec")) { gc_set_vec(g, atoi(tok[1]), atoi(tok[2]), atoi(tok[3])); op_end(); printf("ok "); print_state(); }
        else if (!strcmp(tok[0], "setarr")) { gc_set_arr_elem(g, atoi(tok[1]), atoi(tok[2]), atoi(tok[3])); op_end(); printf("ok "); print_state(); }
        else if (!strcmp(tok[0], "append")) { gc_append_arr_elem(g, atoi(tok[1]), atoi(tok[2])); op_end(); printf("ok "); print_state(); }
        else if (!strcmp(tok[0], "setfuncvec")) { gc_set_func_vec(g, atoi(tok[1]), atoi(tok[2])); op_end(); printf("ok "); print_state(); }
        else if (!strcmp(tok[0], "setvecref")) { gc_set_vec_ref(g, atoi(tok[1]), atoi(tok[2])); op_end(); printf("ok "); print_state(); }
        else if (!strcmp(tok[0], "setarrref")) { gc_set_arr_ref(g, atoi(tok[1]), atoi(tok[2])); op_end(); printf("ok "); print_state(); }
        else if (!strcmp(tok[0], "setstrref")) { gc_set_string_ref(g, atoi(tok[1]), atoi(tok[2])); op_end(); printf("ok "); print_state(); }
        else if (!strcmp(tok[0], "collect"))
        {
            static gc_stack st[MAXTOK];
            int n = parse_slots(tok + 2, nt - 2, st);
            never_verif_gc_mode = 1; /* the schedule is the history's, not the 80% rule's */
            gc_run(g, st, n, strtoul(tok[1], NULL, 10));
            never_verif_gc_mode = 0;
            op_end(); printf("ok "); print_state();
        }
        else if (!strcmp(tok[0], "run"))
        {
            /* the real trigger of gc_run (mode 0 = the 80% rule) */
            static gc_stack st[MAXTOK];
            int n = parse_slots(tok + 2, nt - 2, st);
            never_verif_gc_mode = 0;
            gc_run(g, st, n, strtoul(tok[1], NULL, 10));
            op_end(); printf("ok "); print_state();
        }
        else if (!strcmp(tok[0], "omfalos"))
        {
            static gc_stack st[MAXTOK];
            int n = parse_slots(tok + 1, nt - 1, st);
            gc_run_omfalos(g, st, n);
            op_end(); printf("ok "); print_state();
        }
        else if (!strcmp(tok[0], "sweep")) { gc_sweep_all(g); op_end(); printf("ok "); print_state(); }
        else if (!strcmp(tok[0], "wants"))
        {
            /* the unmodified 80% rule: run gc_run with an oracle that only records the question */
            unsigned int before = g->wb_top[g->w_index];
            op_end();
            printf("wants %d\n", !(before < g->mem_size * 0.8));
        }
        else { op_end(); printf("bad-op\n"); }
        fflush(stdout);
    }
    if (g) gc_delete(g);
    return 0;
}
