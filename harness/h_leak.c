/* h_leak: compile / run / dispose a stream of sources in ONE process under ASan+LSan and
   ask LeakSanitizer after every source whether anything allocated on its behalf is still
   allocated (__lsan_do_recoverable_leak_check).  Testing, not proof (DESIGN C16).

   usage: h_leak <stream-file> <result-file> [first-index]
   stream-file:  records  "S <index> <nbytes> <run:0|1> <steps> <mem> <stack>\n" + nbytes of source + "\n"
                 or       "H <index> <n>\n" = API history with n steps, each step one line:
                          "new <slot>" | "compile <slot> <nbytes>\n<bytes>" | "prepare <slot> <entry> [int args..]" | "prepareargv <slot> <entry> <argc>" |
                          "vmnew <slot> <mem> <stack>" | "exec <pslot> <vslot>" | "vmdel <slot>" | "del <slot>"
   result-file:  one line per record "r <index> compile=<rc> msgs=<n> prepare=<rc> exec=<rc> steps=<n> leak=<0|1> leaked=<blocks>"
                 followed by one line "l <index> <bytes> <ra0> <ra1> <ra2>" per block that libnev allocated while
                 the record was processed and that is still allocated afterwards (return addresses of the
                 allocating call chain, hex; symbolised by the caller with addr2line: link with -no-pie)
   The exact attribution comes from a counting shim (link with
   -Wl,--wrap=malloc,--wrap=free,--wrap=realloc,--wrap=calloc,--wrap=strdup,--wrap=strndup,--wrap=exit);
   LeakSanitizer's verdict is recorded next to it (its reports are cumulative and miss blocks
   that a stale global still points to, so it cannot attribute by itself).
   stderr:       "@@BEGIN <index>" ... diagnostics, LSan report ... "@@END <index>"
   Programs print to stdout (the caller discards it); a program that runs longer than
   <steps> instructions is stopped through the NEVER_VERIF step hook (ends as VM_ERROR). */
#include <stdio.h>
#include <stdlib.h>
#include <string.h>
#include "nev.h"
#include "program.h"
#include "vm.h"
#include "object.h"

int __lsan_do_recoverable_leak_check(void);
void _exit(int);

/* ---- malloc/free shim: every block allocated by libnev code between rec_begin and rec_end */
void * __real_malloc(size_t); void __real_free(void *); void * __real_realloc(void *, size_t);
void * __real_calloc(size_t, size_t); char * __real_strdup(const char *); char * __real_strndup(const char *, size_t);
void __real_exit(int);
#define TAB (1u << 21)
typedef struct blk { void * p; size_t n; void * ra[3]; } blk;   /* p == NULL empty, p == (void*)1 tombstone */
static blk tab[TAB];
static long tab_used = 0, n_live = 0, n_mal = 0, n_fre = 0;
static int recording = 0;
static long cur_idx = -1;
static FILE * res = NULL;
static unsigned int hptr(void * p) { unsigned long long x = (unsigned long long)p; x ^= x >> 17; x *= 0x9E3779B97F4A7C15ull; return (unsigned int)(x >> 40) & (TAB - 1); }
static void tab_add(void * p, size_t n, void ** fp, void * ra0)
{
    unsigned int h;
    if (!recording || p == NULL) return;
    if (tab_used > (long)(TAB / 2)) return;     /* give up recording rather than loop (reported as leaked=-1) */
    h = hptr(p);
    while (tab[h].p != NULL && tab[h].p != (void *)1) h = (h + 1) & (TAB - 1);
    if (tab[h].p == NULL) tab_used++;
    tab[h].p = p; tab[h].n = n; tab[h].ra[0] = ra0; tab[h].ra[1] = NULL; tab[h].ra[2] = NULL;
    /* two more return addresses through the frame-pointer chain (all callers are compiled
       with -fno-omit-frame-pointer: libnev and this file) */
    if (fp && fp[0]) { void ** f1 = (void **)fp[0]; tab[h].ra[1] = f1[1]; if (f1[0]) { void ** f2 = (void **)f1[0]; tab[h].ra[2] = f2[1]; } }
    n_live++; n_mal++;
}
static int tab_del(void * p)
{
    unsigned int h;
    if (p == NULL) return 0;
    h = hptr(p);
    while (tab[h].p != NULL)
    {
        if (tab[h].p == p) { tab[h].p = (void *)1; n_live--; n_fre++; return 1; }
        h = (h + 1) & (TAB - 1);
    }
    return 0;   /* allocated outside the recording (libc-internal, harness) */
}
void * __wrap_malloc(size_t n) { void * p = __real_malloc(n); tab_add(p, n, __builtin_frame_address(0), __builtin_return_address(0)); return p; }
void * __wrap_calloc(size_t a, size_t b) { void * p = __real_calloc(a, b); tab_add(p, a * b, __builtin_frame_address(0), __builtin_return_address(0)); return p; }
char * __wrap_strdup(const char * s) { char * p = __real_strdup(s); tab_add(p, p ? strlen(p) + 1 : 0, __builtin_frame_address(0), __builtin_return_address(0)); return p; }
char * __wrap_strndup(const char * s, size_t n) { char * p = __real_strndup(s, n); tab_add(p, p ? strlen(p) + 1 : 0, __builtin_frame_address(0), __builtin_return_address(0)); return p; }
void __wrap_free(void * p) { tab_del(p); __real_free(p); }
void * __wrap_realloc(void * p, size_t n)
{
    void * q;
    if (p == NULL) { q = __real_realloc(p, n); tab_add(q, n, __builtin_frame_address(0), __builtin_return_address(0)); return q; }
    {
        unsigned int h = hptr(p); blk old; int found = 0;
        while (tab[h].p != NULL) { if (tab[h].p == p) { old = tab[h]; found = 1; break; } h = (h + 1) & (TAB - 1); }
        q = __real_realloc(p, n);
        if (found && q != NULL && q != p)
        {
            unsigned int h2;
            tab[h].p = (void *)1;
            h2 = hptr(q);
            while (tab[h2].p != NULL && tab[h2].p != (void *)1) h2 = (h2 + 1) & (TAB - 1);
            if (tab[h2].p == NULL) tab_used++;
            tab[h2] = old; tab[h2].p = q; tab[h2].n = n;
        }
        else if (found && q == p) tab[h].n = n;
        return q;
    }
}
static void rec_begin(long idx) { cur_idx = idx; recording = 1; n_mal = 0; n_fre = 0; }
/* report and forget every block recorded and still allocated */
static long rec_end(void)
{
    unsigned int h; long leaked = 0;
    recording = 0;
    if (tab_used > (long)(TAB / 2)) { memset(tab, 0, sizeof tab); tab_used = 0; n_live = 0; return -1; }
    if (n_live == 0) return 0;
    {
        /* roots = leaked blocks that no other leaked block points to (the others are reachable
           from a root: "indirect" leaks); a cycle without entry has no root -> all are printed as roots */
        static blk * lk[4096]; static char pointed[4096];
        long n = 0, i, j, roots = 0;
        for (h = 0; h < TAB; h++)
            if (tab[h].p != NULL && tab[h].p != (void *)1) { if (n < 4096) { lk[n] = &tab[h]; pointed[n] = 0; n++; } leaked++; }
        for (i = 0; i < n; i++)
        {
            void ** w = (void **)lk[i]->p; size_t k, nw = lk[i]->n / sizeof(void *);
            for (k = 0; k < nw; k++)
            {
                void * q = w[k];
                if (q == NULL) continue;
                for (j = 0; j < n; j++) if (j != i && lk[j]->p == q) pointed[j] = 1;
            }
        }
        for (i = 0; i < n; i++) if (!pointed[i]) roots++;
        for (i = 0; i < n && i < 400; i++)
            fprintf(res, "l %ld %lu %lx %lx %lx %d\n", cur_idx, (unsigned long)lk[i]->n, (unsigned long)lk[i]->ra[0],
                    (unsigned long)lk[i]->ra[1], (unsigned long)lk[i]->ra[2], (roots == 0 || !pointed[i]) ? 1 : 0);
        for (h = 0; h < TAB; h++) if (tab[h].p != NULL && tab[h].p != (void *)1) tab[h].p = (void *)1;
    }
    n_live = 0;
    if (tab_used > (long)(TAB / 8)) { memset(tab, 0, sizeof tab); tab_used = 0; }
    return leaked;
}
/* the library calls exit(1) on "out of memory" (gc_alloc_any) and on vm stack overflow: the
   process is gone, nothing to account for; tell the caller and leave without LSan's exit check */
void __wrap_exit(int code)
{
    if (cur_idx >= 0 && res)
    {
        recording = 0;
        fprintf(stderr, "@@EXIT %ld %d\n", cur_idx, code);
        fprintf(res, "x %ld exit=%d\n", cur_idx, code);
        fflush(res); fflush(stderr);
        _exit(0);
    }
    __real_exit(code);
}
/* overwrite dead stack so that LeakSanitizer does not find stale pointers there */
static void __attribute__((noinline)) scrub_stack(void) { volatile char b[1 << 15]; unsigned int i; for (i = 0; i < sizeof b; i++) b[i] = 0; }

static long steps, step_limit;
static void step_hook(vm * machine, bytecode * code)
{
    if (++steps > step_limit) machine->running = VM_ERROR;
}

static char * read_bytes(FILE * f, long n)
{
    char * s = __real_malloc(n + 1);
    if (fread(s, 1, n, f) != (size_t)n) { __real_free(s); return NULL; }
    s[n] = 0;
    fgetc(f); /* trailing newline */
    return s;
}

static void default_params(program * prog)
{
    unsigned int i;
    for (i = 0; i < prog->params_count; i++)
    {
        if (prog->params[i].type == OBJECT_INT) prog->params[i].int_value = 3;
        else if (prog->params[i].type == OBJECT_FLOAT) prog->params[i].float_value = 1.5f;
        else if (prog->params[i].type == OBJECT_STRING_REF) prog->params[i].string_value = "abc";
    }
}

static int params_runnable(program * prog)
{
    unsigned int i;
    for (i = 0; i < prog->params_count; i++)
        if (prog->params[i].type != OBJECT_INT && prog->params[i].type != OBJECT_FLOAT && prog->params[i].type != OBJECT_STRING_REF) return 0;
    return 1;
}

#define SLOTS 8
int main(int argc, char ** argv)
{
    FILE * in;
    char head[512];
    long first = argc > 3 ? atol(argv[3]) : 0;
    if (argc < 3) return 2;
    in = fopen(argv[1], "r"); res = fopen(argv[2], "a");
    if (!in || !res) return 2;
    never_verif_step_hook = step_hook;
    while (fgets(head, sizeof head, in))
    {
        long idx, n, run, lim, mem, stack;
        if (head[0] == 'S' && sscanf(head + 1, "%ld %ld %ld %ld %ld %ld", &idx, &n, &run, &lim, &mem, &stack) == 6)
        {
            char * src = read_bytes(in, n);
            int cret = -1, pret = -1, eret = -1, leak, msgs = 0;
            long leaked;
            if (!src) break;
            if (idx < first) { __real_free(src); continue; }
            fprintf(stderr, "@@BEGIN %ld\n", idx);
            rec_begin(idx);
            {
                program * prog = program_new();
                cret = nev_compile_str(src, prog);
                msgs = prog->msg_count;
                steps = 0; step_limit = lim;
                if (cret == 0 && run)
                {
                    pret = nev_prepare(prog, "main");
                    if (pret == 0 && params_runnable(prog))
                    {
                        object result = { 0 };
                        vm * machine = vm_new(mem, stack);
                        default_params(prog);
                        eret = nev_execute(prog, machine, &result);
                        vm_delete(machine);
                    }
                }
                program_delete(prog);
            }
            leaked = rec_end();
            __real_free(src);
            fflush(stdout);
            scrub_stack();
            leak = __lsan_do_recoverable_leak_check();
            fprintf(stderr, "@@END %ld\n", idx);
            fprintf(res, "r %ld compile=%d msgs=%d prepare=%d exec=%d steps=%ld leak=%d leaked=%ld\n", idx, cret, msgs, pret, eret, steps, leak, leaked);
            fflush(res);
            cur_idx = -1;
        }
        else if (head[0] == 'H' && sscanf(head + 1, "%ld %ld", &idx, &n) == 2)
        {
            program * P[SLOTS] = { 0 };
            vm * V[SLOTS] = { 0 };
            long k;
            int leak, skip = idx < first;
            long leaked;
            char trace[1024] = "";
            if (!skip) { fprintf(stderr, "@@BEGIN %ld\n", idx); rec_begin(idx); }
            for (k = 0; k < n; k++)
            {
                char op[32]; long a = 0, b = 0, c = 0; char name[64] = "main";
                int rc = 0;
                if (!fgets(head, sizeof head, in)) break;
                if (sscanf(head, "%31s", op) != 1) continue;
                if (!strcmp(op, "compile"))
                {
                    char * src;
                    sscanf(head, "%*s %ld %ld", &a, &b);
                    src = read_bytes(in, b);
                    if (!skip && src && P[a]) rc = nev_compile_str(src, P[a]);
                    __real_free(src);
                }
                else if (skip) continue;
                else if (!strcmp(op, "new")) { sscanf(head, "%*s %ld", &a); P[a] = program_new(); }
                else if (!strcmp(op, "prepare"))
                {
                    int v[4] = { 0, 0, 0, 0 }; unsigned int i;
                    sscanf(head, "%*s %ld %63s %d %d %d %d", &a, name, &v[0], &v[1], &v[2], &v[3]);
                    rc = nev_prepare(P[a], name);
                    if (rc == 0) for (i = 0; i < P[a]->params_count && i < 4; i++) if (P[a]->params[i].type == OBJECT_INT) P[a]->params[i].int_value = v[i];
                }
                else if (!strcmp(op, "prepareargv"))
                {
                    /* the command-line entry: main(argv[argc] : string) / main(a : int, ...) filled from strings */
                    static char * av[4] = { "1", "2", "3", "4" };
                    sscanf(head, "%*s %ld %63s %ld", &a, name, &b);
                    rc = nev_prepare_argc_argv(P[a], name, (unsigned int)(b < 0 ? 0 : (b > 4 ? 4 : b)), av);
                }
                else if (!strcmp(op, "vmnew")) { sscanf(head, "%*s %ld %ld %ld", &a, &b, &c); V[a] = vm_new(b, c); }
                else if (!strcmp(op, "exec"))
                {
                    object result = { 0 };
                    sscanf(head, "%*s %ld %ld", &a, &b);
                    steps = 0; step_limit = 200000;
                    rc = nev_execute(P[a], V[b], &result);
                }
                else if (!strcmp(op, "vmdel")) { sscanf(head, "%*s %ld", &a); if (V[a]) vm_delete(V[a]); V[a] = NULL; }
                else if (!strcmp(op, "del")) { sscanf(head, "%*s %ld", &a); if (P[a]) program_delete(P[a]); P[a] = NULL; }
                if (strlen(trace) < sizeof trace - 40) sprintf(trace + strlen(trace), " %s=%d", op, rc);
                if ((!strcmp(op, "exec") || !strcmp(op, "compile")) && strlen(trace) < sizeof trace - 80)
                {
                    /* whose message array grew: diagnostics belong to the program that was compiled / executed */
                    int q; char * t = trace + strlen(trace);
                    t += sprintf(t, " m%ld=", a);
                    for (q = 0; q < SLOTS && q < 4; q++) t += sprintf(t, "%s%d", q ? "," : "", P[q] ? (int)P[q]->msg_count : -1);
                }
            }
            if (skip) continue;
            for (k = 0; k < SLOTS; k++) { if (V[k]) vm_delete(V[k]); if (P[k]) program_delete(P[k]); }
            leaked = rec_end();
            fflush(stdout);
            scrub_stack();
            leak = __lsan_do_recoverable_leak_check();
            fprintf(stderr, "@@END %ld\n", idx);
            fprintf(res, "h %ld leak=%d leaked=%ld%s\n", idx, leak, leaked, trace);
            fflush(res);
            cur_idx = -1;
        }
        else break;
    }
    fclose(in); fclose(res); res = NULL;
    return 0;
}
