/* h_exc: drives back/exctab.c; protocol of `nmdrv exc` */
#include <stdio.h>
#include <stdlib.h>
#include <string.h>
#include "exctab.h"

int main(void)
{
    static char line[1 << 16];
    exctab * t = NULL;       /* built through exception_tab_insert */
    exctab_entry * raw = NULL; unsigned int raw_count = 0; int use_raw = 0;
    while (fgets(line, sizeof line, stdin))
    {
        char * tok[4096]; int nt = 0;
        char * p = strtok(line, " \n");
        while (p && nt < 4096) { tok[nt++] = p; p = strtok(NULL, " \n"); }
        if (nt == 0) { printf("bad-op\n"); fflush(stdout); continue; }
        if (!strcmp(tok[0], "tab"))
        {
            int i;
            if (t) exception_tab_delete(t);
            t = exception_tab_new(2);
            for (i = 1; i < nt; i++)
            {
                unsigned int b, h; sscanf(tok[i], "%u:%u", &b, &h);
                exception_tab_insert(t, b, h);
            }
            use_raw = 0;
            printf("ok %u\n", t->count);
        }
        else if (!strcmp(tok[0], "raw"))
        {
            int i;
            free(raw);
            raw_count = strtoul(tok[1], NULL, 10);
            raw = malloc(sizeof(exctab_entry) * (nt - 2 > 0 ? nt - 2 : 1));
            for (i = 2; i < nt; i++) sscanf(tok[i], "%u:%u", &raw[i - 2].block_addr, &raw[i - 2].handler_addr);
            use_raw = 1;
            printf("ok %u\n", raw_count);
        }
        else if (!strcmp(tok[0], "q"))
        {
            unsigned int ip = strtoul(tok[1], NULL, 10);
            exctab_entry * r = use_raw ? exctab_search(raw, (int)raw_count, ip) : exctab_search(t->tab, (int)t->count, ip);
            if (r) printf("h %u\n", r->handler_addr); else printf("null\n");
        }
        else if (!strcmp(tok[0], "wf")) printf("wf ?\n");
        else printf("bad-op\n");
        fflush(stdout);
    }
    if (t) exception_tab_delete(t);
    free(raw);
    return 0;
}
