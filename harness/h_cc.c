/* h_cc: in-process compile of (malformed) inputs, one forked child per input, so that a
   crash / sanitizer abort / hang is an OUTCOME and not the end of the run (C05).

   Linked with -Wl,--wrap=... for scan_string scan_file yyparse main_check_type module_decl_optimize
   module_decl_tailrec main_emit (the stages nev_compile runs: per-stage (errors, rc) is what the
   pipeline model consumes) and for fopen/fclose (which module files the scanner opens, and that each
   is closed).

   stdin, one request per line:
     c s <path>            compile the file's bytes as a string (nev_compile_str; bytes up to
                           the first NUL are what the compiler sees)
     c f <path>            compile the file by name (nev_compile_file)
     m <F> <line> <L> <k>  print_msg experiment: file name of F characters, line number `line`,
                           a message of L characters, after k earlier (warning) messages
     q                     quit
   stdout, one answer per request (canonical: no addresses, no timestamps):
     r status=exit|signal:<n>|timeout code=<exit code> done=0|1 ret=<r> msgs=<n> errs=<n> warns=<n>
       fmt=<n well-formed `file:line: error:` entries> usp=<use_stack_ptr> asz=<msg_array_size>
       len=<strlen of last msg> first=<words of the 1st error text> opens=<a.nev,..> fcloses=<n>
       stages=<name:rc:errs,...> stderr_errs=<n> san=<-|kind> frame=<-|innermost function inside the compiler> at=<-|stage on the stack>
   The child's stderr goes to a temp file which the parent scans for `error:` lines (per stage, by
   byte offset) and for a sanitizer report.  */
#define _GNU_SOURCE
#include <stdio.h>
#include <stdlib.h>
#include <string.h>
#include <unistd.h>
#include <signal.h>
#include <errno.h>
#include <fcntl.h>
#include <ctype.h>
#include <time.h>
#include <sys/types.h>
#include <sys/wait.h>
#include <sys/resource.h>
#include "nev.h"
#include "program.h"
#include "utils.h"

extern int use_stack_ptr;
extern int parse_result;

static double timeout_s = 5.0;
static char errpath[512];

/* ------------------------------------------------------------------ wrappers (child side) */
#define MAX_ST 16
static struct { const char * name; int rc; long a, b; } st[MAX_ST];
static int nst = 0;
static long err_off(void) { off_t o = lseek(2, 0, SEEK_CUR); return o < 0 ? 0 : (long)o; }
static int st_begin(const char * name) { int i = nst < MAX_ST ? nst++ : MAX_ST - 1; st[i].name = name; st[i].a = err_off(); st[i].b = -1; st[i].rc = -99; return i; }
static void st_end(int i, int rc) { st[i].rc = rc; st[i].b = err_off(); }

int __real_scan_string(const char *);
int __real_scan_file(const char *);
int __real_yyparse(void **);
int __real_main_check_type(void *, void *, void *, int *);
int __real_module_decl_optimize(void *);
int __real_module_decl_tailrec(void *);
int __real_main_emit(void *, void *, void *);
int __wrap_scan_string(const char * s) { int i = st_begin("scan"); int r = __real_scan_string(s); st_end(i, r); return r; }
int __wrap_scan_file(const char * s) { int i = st_begin("scan"); int r = __real_scan_file(s); st_end(i, r); return r; }
int __wrap_yyparse(void ** m) { int i = st_begin("parse"); int r = __real_yyparse(m); st_end(i, parse_result); return r; }
int __wrap_main_check_type(void * a, void * b, void * c, int * res) { int i = st_begin("typecheck"); int r = __real_main_check_type(a, b, c, res); st_end(i, *res); return r; }
int __wrap_module_decl_optimize(void * a) { int i = st_begin("optimize"); int r = __real_module_decl_optimize(a); st_end(i, r); return r; }
int __wrap_module_decl_tailrec(void * a) { int i = st_begin("tailrec"); int r = __real_module_decl_tailrec(a); st_end(i, r); return r; }
int __wrap_main_emit(void * a, void * b, void * c) { int i = st_begin("emit"); int r = __real_main_emit(a, b, c); st_end(i, r); return r; }

#define MAX_OPEN 64
static struct { FILE * f; char name[64]; int closed; } op[MAX_OPEN];
static int nop = 0, nclose = 0, dclose = 0;
FILE * __real_fopen(const char *, const char *);
int __real_fclose(FILE *);
FILE * __wrap_fopen(const char * path, const char * mode)
{
    FILE * f = __real_fopen(path, mode);
    size_t l = strlen(path);
    if (f && l > 4 && strcmp(path + l - 4, ".nev") == 0 && nop < MAX_OPEN)
    {
        const char * b = strrchr(path, '/');
        op[nop].f = f; op[nop].closed = 0;
        snprintf(op[nop].name, sizeof op[nop].name, "%s", b ? b + 1 : path);
        nop++;
    }
    return f;
}
int __wrap_fclose(FILE * f)
{
    int i;
    for (i = nop - 1; i >= 0; i--)
        if (op[i].f == f) { if (op[i].closed) dclose++; else { op[i].closed = 1; nclose++; } break; }
    return __real_fclose(f);
}

/* ------------------------------------------------------------------ child */
static char * slurp(const char * path, long * n)
{
    FILE * f = __real_fopen(path, "rb");
    char * b;
    if (!f) return NULL;
    fseek(f, 0, SEEK_END); *n = ftell(f); fseek(f, 0, SEEK_SET);
    b = malloc(*n + 1);
    if (fread(b, 1, *n, f) != (size_t)*n) { /* short read: keep what we have */ }
    b[*n] = 0;
    __real_fclose(f);
    return b;
}

/* the first error text, canonical: letters kept, everything else separates words, first 8 words
   (cc_corr.py keeps the words that occur in the compiler's own format strings) */
static void classify(const char * msg, char * out, size_t cap)
{
    const char * p = strstr(msg, ": error: ");
    size_t o = 0; int words = 0;
    if (!p) { snprintf(out, cap, "-"); return; }
    p += 9;
    while (*p && o + 2 < cap && words < 8)
    {
        if (isalpha((unsigned char)*p)) out[o++] = *p;
        else if (o && out[o - 1] != '_') { out[o++] = '_'; words++; }
        p++;
    }
    while (o && out[o - 1] == '_') o--;
    out[o] = 0;
    if (!o) snprintf(out, cap, "-");
}

static int well_formed(const char * m)
{
    /* <file>:<digits>: error: <text> */
    const char * p = strstr(m, ": error: ");
    const char * q;
    if (!p || p == m) return 0;
    q = p - 1;
    if (!isdigit((unsigned char)*q)) return 0;
    while (q > m && isdigit((unsigned char)*q)) q--;
    if (*q != ':' || q == m) return 0;
    return 1;
}

static void child_compile(char kind, const char * path, int wfd)
{
    program * prog;
    int ret, errs = 0, warns = 0, fmt = 0, i, o;
    unsigned int u;
    char first[128] = "-", line[2048], opens[800] = "", stages[600] = "";
    long n = 0;
    prog = program_new();
    if (kind == 's')
    {
        char * src = slurp(path, &n);
        if (!src) _exit(99);
        ret = nev_compile_str(src, prog);
        free(src);
    }
    else
    {
        ret = nev_compile_file(path, prog);
    }
    for (u = 0; u < prog->msg_count; u++)
    {
        const char * m = prog->msg_array[u];
        if (strstr(m, ": error: ")) { if (!errs) classify(m, first, sizeof first); errs++; fmt += well_formed(m); }
        else if (strstr(m, ": warning: ")) warns++;
    }
    for (i = 0, o = 0; i < nop && o < (int)sizeof opens - 70; i++) o += snprintf(opens + o, sizeof opens - o, "%s%s", i ? "," : "", op[i].name);
    for (i = 0, o = 0; i < nst && o < (int)sizeof stages - 80; i++) o += snprintf(stages + o, sizeof stages - o, "%s%s:%d:%ld:%ld", i ? "," : "", st[i].name, st[i].rc, st[i].a, st[i].b);
    snprintf(line, sizeof line, "done=1 ret=%d msgs=%u errs=%d warns=%d fmt=%d usp=%d asz=%u len=%zu first=%s opens=%s fcloses=%d dclose=%d stages=%s\n",
             ret, prog->msg_count, errs, warns, fmt, use_stack_ptr, prog->msg_array_size,
             prog->msg_count ? strlen(prog->msg_array[prog->msg_count - 1]) : (size_t)0, first,
             opens[0] ? opens : "-", nclose, dclose, stages[0] ? stages : "-");
    if (write(wfd, line, strlen(line)) < 0) _exit(98);
    program_delete(prog);
    _exit(0);
}

static void child_msg(long F, long lineno, long L, long k, int wfd)
{
    unsigned int count = 0, size = 0;
    char ** arr = NULL;
    char * fn = malloc(F + 1), * msg = malloc(L + 1), line[256];
    long i;
    memset(fn, 'f', F); fn[F] = 0;
    memset(msg, 'm', L); msg[L] = 0;
    set_utils_file_name(fn);
    set_msg_buffer(&count, &size, &arr);
    for (i = 0; i < k; i++) print_warning_msg(1, "w");
    print_error_msg((int)lineno, "%s", msg);
    snprintf(line, sizeof line, "done=1 ret=0 msgs=%u errs=1 warns=%ld fmt=1 usp=0 asz=%u len=%zu first=- opens=- fcloses=0 dclose=0 stages=-\n",
             count, k, size, strlen(arr[count - 1]));
    if (write(wfd, line, strlen(line)) < 0) _exit(98);
    _exit(0);
}

/* ------------------------------------------------------------------ parent */
static const char * stage_fns[][2] = { { "yyparse", "parse" }, { "main_check_type", "typecheck" }, { "module_decl_optimize", "optimize" },
    { "module_decl_tailrec", "tailrec" }, { "main_emit", "emit" }, { "scan_file", "scan" }, { "scan_string", "scan" }, { "scanner_destroy", "destroy" },
    { "program_delete", "delete" }, { NULL, NULL } };

static int in_compiler(const char * line)
{
    return strstr(line, "/src/front/") || strstr(line, "/src/back/") || strstr(line, " front/") || strstr(line, " back/");
}

/* san = kind of report; frame = innermost function inside the compiler's sources; stage = which stage of
   nev_compile is on the stack */
static void scan_stderr(char * san, size_t scap, char * frame, size_t fcap, char * stage, size_t stcap, int * nerr,
                        long * offs, int * cnt, int nranges)
{
    FILE * f = __real_fopen(errpath, "r");
    char * line = NULL; size_t cap = 0; ssize_t n;
    int frames = 0, in_report = 0, i, nframes = 0;
    long pos = 0;
    char fallback[128] = "-";
    snprintf(san, scap, "-"); snprintf(frame, fcap, "-"); snprintf(stage, stcap, "-"); *nerr = 0;
    if (!f) return;
    while ((n = getline(&line, &cap, f)) >= 0)
    {
        char * p;
        if (strstr(line, ": error: "))
        {
            (*nerr)++;
            for (i = 0; i < nranges; i++) if (pos >= offs[2 * i] && (offs[2 * i + 1] < 0 || pos < offs[2 * i + 1])) cnt[i]++;
        }
        pos += n;
        if ((p = strstr(line, "ERROR: AddressSanitizer: ")) && !in_report)
        {
            char * e;
            p += strlen("ERROR: AddressSanitizer: ");
            e = p; while (*e && *e != ' ' && *e != '\n') e++;
            snprintf(san, scap, "%.*s", (int)(e - p), p); in_report = 1;
        }
        else if ((p = strstr(line, "runtime error: ")) && !in_report)
        {
            /* kind of UB from the message text */
            const char * k = "ub";
            p += strlen("runtime error: ");
            if (strstr(p, "null pointer")) k = "null";
            else if (strstr(p, "division")) k = "division";
            else if (strstr(p, "overflow")) k = "overflow";
            else if (strstr(p, "out of bounds")) k = "bounds";
            else if (strstr(p, "misaligned")) k = "misaligned";
            else if (strstr(p, "shift")) k = "shift";
            else if (strstr(p, "not a valid value")) k = "invalid-value";
            snprintf(san, scap, "ubsan-%s", k); in_report = 1;
            { char * s = strstr(line, "src/"); char * c; if (s) { c = strchr(s, ':'); if (c) { *c = 0; snprintf(fallback, sizeof fallback, "%s", s + 4); } } }
        }
        else if (strstr(line, "Assertion") && strstr(line, "failed") && !in_report)
        {
            /* prog: path/x.c:12: func: Assertion `...' failed. */
            char * c = strstr(line, ": Assertion");
            snprintf(san, scap, "assert"); in_report = 1;
            if (c) { char * s; *c = 0; s = strrchr(line, ' '); snprintf(frame, fcap, "%s", s ? s + 1 : line); frames = 9; }
        }
        else if (in_report && nframes < 400 && (p = strstr(line, " in ")) && strstr(line, "    #") == line)
        {
            /* "    #1 0x... in func /path/file.c:123" */
            char fn[128]; char * e;
            p += 4; e = p; while (*e && *e != ' ' && *e != '\n') e++;
            snprintf(fn, sizeof fn, "%.*s", (int)(e - p), p);
            nframes++;
            if (frames == 0 && in_compiler(line) && strncmp(fn, "__interceptor", 13) != 0 && strncmp(fn, "__asan", 6) != 0)
            {
                snprintf(frame, fcap, "%s", fn);
                frames = 1;
            }
            if (stage[0] == '-')
                for (i = 0; stage_fns[i][0]; i++)
                    if (strcmp(fn, stage_fns[i][0]) == 0 || strcmp(fn + (strncmp(fn, "__wrap_", 7) == 0 ? 7 : 0), stage_fns[i][0]) == 0)
                    { snprintf(stage, stcap, "%s", stage_fns[i][1]); break; }
        }
    }
    if (in_report && frames == 0) snprintf(frame, fcap, "%s", fallback);
    free(line);
    __real_fclose(f);
}

static double now(void)
{
    struct timespec ts; clock_gettime(CLOCK_MONOTONIC, &ts);
    return ts.tv_sec + ts.tv_nsec * 1e-9;
}

#define NORES "done=0 ret=? msgs=? errs=? warns=? fmt=? usp=? asz=? len=0 first=- opens=- fcloses=0 dclose=0 stages=-"

int main(int argc, char ** argv)
{
    char * line = NULL; size_t cap = 0; ssize_t n;
    if (argc > 1) timeout_s = atof(argv[1]);
    snprintf(errpath, sizeof errpath, "%s/h_cc_err_%d.txt", argc > 2 ? argv[2] : "/tmp", (int)getpid());
    setvbuf(stdout, NULL, _IOLBF, 0);
    while ((n = getline(&line, &cap, stdin)) >= 0)
    {
        int pfd[2], status = 0, done = 0, nerr = 0, nr = 0, cnt[MAX_ST], i;
        long offs[2 * MAX_ST];
        pid_t pid;
        char res[2100] = "", san[64], frame[256], stage[32], out[2600], * sp;
        double t0;
        ssize_t got;
        while (n > 0 && (line[n - 1] == '\n' || line[n - 1] == '\r')) line[--n] = 0;
        if (line[0] == 'q') break;
        if (line[0] != 'c' && line[0] != 'm') { printf("r status=badreq\n"); continue; }
        if (pipe(pfd) < 0) { perror("pipe"); return 2; }
        fflush(stdout);
        pid = fork();
        if (pid < 0) { perror("fork"); return 2; }
        if (pid == 0)
        {
            int efd;
            close(pfd[0]);
            efd = open(errpath, O_WRONLY | O_CREAT | O_TRUNC, 0600);
            if (efd >= 0) { dup2(efd, 2); close(efd); }
            { int nfd = open("/dev/null", O_WRONLY); if (nfd >= 0) { dup2(nfd, 1); close(nfd); } }
            if (line[0] == 'c') child_compile(line[2], line + 4, pfd[1]);
            else { long F, ln, L, k; if (sscanf(line + 2, "%ld %ld %ld %ld", &F, &ln, &L, &k) == 4) child_msg(F, ln, L, k, pfd[1]); }
            _exit(97);
        }
        close(pfd[1]);
        t0 = now();
        while (!done)
        {
            pid_t w = waitpid(pid, &status, WNOHANG);
            if (w == pid) { done = 1; break; }
            if (now() - t0 > timeout_s) { kill(pid, SIGKILL); waitpid(pid, &status, 0); done = 2; break; }
            usleep(now() - t0 < 0.05 ? 200 : 2000);
        }
        got = read(pfd[0], res, sizeof res - 1);
        if (got < 0) got = 0;
        res[got] = 0;
        while (got > 0 && res[got - 1] == '\n') res[--got] = 0;
        close(pfd[0]);
        if (!res[0]) snprintf(res, sizeof res, "%s", NORES);
        /* stages=name:rc:a:b,... -> per-stage error counts from the stderr file */
        memset(cnt, 0, sizeof cnt);
        sp = strstr(res, " stages=");
        if (sp && sp[8] != '-')
        {
            char * q = sp + 8;
            while (*q && nr < MAX_ST)
            {
                char nm[32]; int rc; long a, b;
                if (sscanf(q, "%31[^:]:%d:%ld:%ld", nm, &rc, &a, &b) != 4) break;
                offs[2 * nr] = a; offs[2 * nr + 1] = b; nr++;
                q = strchr(q, ','); if (!q) break; q++;
            }
        }
        scan_stderr(san, sizeof san, frame, sizeof frame, stage, sizeof stage, &nerr, offs, cnt, nr);
        if (sp && nr)
        {
            /* rewrite stages as name:rc:errs */
            char * q = sp + 8, buf[600] = ""; int o = 0;
            for (i = 0; i < nr; i++)
            {
                char nm[32]; int rc; long a, b;
                if (sscanf(q, "%31[^:]:%d:%ld:%ld", nm, &rc, &a, &b) != 4) break;
                o += snprintf(buf + o, sizeof buf - o, "%s%s:%d:%d", i ? "," : "", nm, rc, cnt[i]);
                q = strchr(q, ','); if (!q) break; q++;
            }
            snprintf(sp + 8, sizeof res - (sp + 8 - res), "%s", buf);
        }
        if (done == 2) snprintf(out, sizeof out, "r status=timeout code=-1");
        else if (WIFSIGNALED(status)) snprintf(out, sizeof out, "r status=signal:%d code=-1", WTERMSIG(status));
        else snprintf(out, sizeof out, "r status=exit code=%d", WEXITSTATUS(status));
        printf("%s %s stderr_errs=%d san=%s frame=%s at=%s\n", out, res, nerr, san, frame, stage);
    }
    unlink(errpath);
    free(line);
    return 0;
}
