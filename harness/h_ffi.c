/* h_ffi: drives the static marshalling functions of back/vmffi.c (textually included from the
   tree under test, so the harness sees exactly the code that is in /repo today) and the real
   emitter; same line protocol as `nmdrv ffi` (lean/Driver/FfiDrv.lean).

   h_ffi walk          ops on stdin, one answer line per op
       type COUNT | D…              vm_execute_func_ffi_record_type + ffi_prep_cif
       pack COUNT | D… | V…         …_record_type, ffi_prep_cif, calloc(size), …_record_value
       unpack COUNT | D… | HEX      …_record_type, ffi_prep_cif, …_record_new over the given bytes
   h_ffi emit FILE.nev  compiles FILE with the real front end and prints, for every
                        BYTECODE_FUNC_FFI, `ffi COUNT D…` (descriptor up to the first other opcode)

   A failed assert()/abort() inside the code under test is reported as `<op> crash` (SIGABRT is
   caught); anything the sanitizers stop kills the process and the Python side restarts after
   the offending op.  String payloads are canonicalised: a string value `S<k>` is the pointer
   `k`; see str_canon. */
#define _GNU_SOURCE
#include <stdio.h>
#include <stdlib.h>
#include <string.h>
#include <setjmp.h>
#include <signal.h>
#include <sys/mman.h>
#include "vm.h"
#include "gc.h"
#include "object.h"
#include "bytecode.h"
#include "module.h"
#include "program.h"
#include "nev.h"
#include "vmffi.c"   /* gives access to the static functions; vmffi.o is then not pulled from libnev.a */

#define STR_BASE 0x10000000ULL
#define STR_SLOTS 256
#define PAD 64

static sigjmp_buf jb;
static volatile int armed = 0;
static void on_abort(int sig)
{
    if (armed) { armed = 0; siglongjmp(jb, 1); }
    signal(sig, SIG_DFL);
    raise(sig);
}

static char * toks[4096];
static int ntok;

static void split(char * line)
{
    char * p = strtok(line, " \r\n");
    ntok = 0;
    while (p != NULL && ntok < 4096) { toks[ntok++] = p; p = strtok(NULL, " \r\n"); }
}

static int desc_of(const char * w, bytecode * bc)
{
    memset(bc, 0, sizeof(*bc));
    if (w[1] == 0)
    {
        switch (w[0])
        {
        case 'b': bc->type = BYTECODE_FUNC_FFI_BOOL; return 1;
        case 'i': bc->type = BYTECODE_FUNC_FFI_INT; return 1;
        case 'l': bc->type = BYTECODE_FUNC_FFI_LONG; return 1;
        case 'f': bc->type = BYTECODE_FUNC_FFI_FLOAT; return 1;
        case 'd': bc->type = BYTECODE_FUNC_FFI_DOUBLE; return 1;
        case 'c': bc->type = BYTECODE_FUNC_FFI_CHAR; return 1;
        case 's': bc->type = BYTECODE_FUNC_FFI_STRING; return 1;
        case 'p': bc->type = BYTECODE_FUNC_FFI_C_PTR; return 1;
        case 'v': bc->type = BYTECODE_FUNC_FFI_VOID; return 1;
        case 'x': bc->type = BYTECODE_RET; return 1;
        }
    }
    if (w[0] == 'r')
    {
        unsigned int c = 0, t = 0;
        if (sscanf(w + 1, "%u/%u", &c, &t) == 2)
        {
            bc->type = BYTECODE_FUNC_FFI_RECORD;
            bc->ffi_record.count = c;
            bc->ffi_record.total_count = t;
            return 1;
        }
    }
    bc->type = BYTECODE_RET;
    return 0;
}

static const char * desc_tok(bytecode * bc, char * tmp)
{
    switch (bc->type)
    {
    case BYTECODE_FUNC_FFI_BOOL: return "b";
    case BYTECODE_FUNC_FFI_INT: return "i";
    case BYTECODE_FUNC_FFI_LONG: return "l";
    case BYTECODE_FUNC_FFI_FLOAT: return "f";
    case BYTECODE_FUNC_FFI_DOUBLE: return "d";
    case BYTECODE_FUNC_FFI_CHAR: return "c";
    case BYTECODE_FUNC_FFI_STRING: return "s";
    case BYTECODE_FUNC_FFI_C_PTR: return "p";
    case BYTECODE_FUNC_FFI_VOID: return "v";
    case BYTECODE_FUNC_FFI_RECORD:
        sprintf(tmp, "r%u/%u", bc->ffi_record.count, bc->ffi_record.total_count);
        return tmp;
    default: return "x";
    }
}

/* ---- machine scaffolding ---- */
static vm machine_s;
static program prog_s;
static module module_s;
static bytecode * code = NULL;
static unsigned int ncode = 0;

static void set_code(int from, int to)
{
    int i;
    free(code);
    ncode = to - from;
    code = (bytecode *)calloc(ncode + PAD, sizeof(bytecode));
    for (i = 0; i < (int)ncode; i++) desc_of(toks[from + i], &code[i]);
    for (i = ncode; i < (int)ncode + PAD; i++) code[i].type = BYTECODE_RET;
    memset(&machine_s, 0, sizeof(machine_s));
    memset(&prog_s, 0, sizeof(prog_s));
    memset(&module_s, 0, sizeof(module_s));
    module_s.code_arr = code;
    module_s.code_size = ncode + PAD;
    prog_s.module_value = &module_s;
    machine_s.prog = &prog_s;
    machine_s.ip = 0;
}

/* ---- string canonicalisation ---- */
static struct { char * real; unsigned long long canon; } strs[512];
static int nstrs = 0;

static unsigned long long str_canon_of_content(const char * s)
{
    /* content "s<k>" -> k */
    unsigned long long k = 0;
    if (s != NULL && s[0] == 's') sscanf(s + 1, "%llu", &k);
    return k;
}

/* ---- building collector values from tokens ---- */
static int vpos;

static mem_ptr build_val(gc * g);

static mem_ptr build_vec(gc * g, int * count_out)
{
    mem_ptr items[256];
    int n = 0, i;
    while (vpos < ntok && strcmp(toks[vpos], "}") != 0 && strcmp(toks[vpos], "|") != 0 && n < 256)
    {
        items[n++] = build_val(g);
    }
    mem_ptr vec = gc_alloc_vec(g, n);
    for (i = 0; i < n; i++) gc_set_vec(g, vec, i, items[i]);
    if (count_out) *count_out = n;
    return vec;
}

static mem_ptr build_val(gc * g)
{
    const char * w = toks[vpos++];
    unsigned long long n = 0;
    if (strcmp(w, "{") == 0)
    {
        mem_ptr vec = build_vec(g, NULL);
        if (vpos < ntok && strcmp(toks[vpos], "}") == 0) vpos++;
        return gc_alloc_vec_ref(g, vec);
    }
    if (strcmp(w, "N") == 0) return gc_alloc_vec_ref(g, nil_ptr);
    if (strcmp(w, "Snil") == 0) return gc_alloc_string_ref(g, nil_ptr);
    sscanf(w + 1, "%llu", &n);
    switch (w[0])
    {
    case 'B': case 'I': return gc_alloc_int(g, (int)(unsigned int)n);
    case 'L': return gc_alloc_long(g, (long long)n);
    case 'F': { unsigned int b = (unsigned int)n; float f; memcpy(&f, &b, 4); return gc_alloc_float(g, f); }
    case 'D': { double d; memcpy(&d, &n, 8); return gc_alloc_double(g, d); }
    case 'C': return gc_alloc_char(g, (char)(unsigned char)n);
    case 'P': return gc_alloc_c_ptr(g, (void *)(size_t)n);
    case 'S':
    {
        char tmp[40];
        sprintf(tmp, "s%llu", n);
        mem_ptr s = gc_alloc_string(g, tmp);
        if (nstrs < 512)
        {
            strs[nstrs].real = *gc_get_string_ptr(g, s);
            strs[nstrs].canon = n;
            nstrs++;
        }
        return gc_alloc_string_ref(g, s);
    }
    }
    return gc_alloc_int(g, 0);
}

/* ---- printing ---- */
static void print_ffi_type(ffi_type * t)
{
    unsigned int i;
    if (t == &ffi_type_schar) printf(" sc");
    else if (t == &ffi_type_sint) printf(" si");
    else if (t == &ffi_type_slong) printf(" sl");
    else if (t == &ffi_type_float) printf(" fl");
    else if (t == &ffi_type_double) printf(" db");
    else if (t == &ffi_type_pointer) printf(" pt");
    else if (t->type == FFI_TYPE_STRUCT)
    {
        printf(" {");
        for (i = 0; t->elements[i] != NULL; i++) print_ffi_type(t->elements[i]);
        printf(" }");
    }
    else printf(" ?");
}

static void print_sizes(ffi_type * t)
{
    unsigned int i;
    if (t->type != FFI_TYPE_STRUCT) return;
    printf(" %lu/%u", (unsigned long)t->size, (unsigned int)t->alignment);
    for (i = 0; t->elements[i] != NULL; i++) print_sizes(t->elements[i]);
}

static void print_obj(gc * g, mem_ptr addr)
{
    object * o = gc_get_object(g, addr);
    unsigned int i;
    if (o == NULL) { printf(" ?"); return; }
    switch (o->type)
    {
    case OBJECT_INT: printf(" I%u", (unsigned int)o->int_value); break;
    case OBJECT_LONG: printf(" L%llu", (unsigned long long)o->long_value); break;
    case OBJECT_FLOAT: { unsigned int b; memcpy(&b, &o->float_value, 4); printf(" F%u", b); } break;
    case OBJECT_DOUBLE: { unsigned long long b; memcpy(&b, &o->double_value, 8); printf(" D%llu", b); } break;
    case OBJECT_CHAR: printf(" C%u", (unsigned int)(unsigned char)o->char_value); break;
    case OBJECT_C_PTR: printf(" P%llu", (unsigned long long)(size_t)o->c_ptr_value); break;
    case OBJECT_STRING_REF:
        if (o->string_ref_value == nil_ptr) printf(" Snil");
        else
        {
            char * s = gc_get_string(g, o->string_ref_value);
            printf(" S%llu", STR_BASE + 16 * str_canon_of_content(s));
        }
        break;
    case OBJECT_VEC_REF:
        if (o->vec_ref_value == nil_ptr) printf(" N");
        else
        {
            unsigned int n = gc_get_vec_size(g, o->vec_ref_value);
            printf(" {");
            for (i = 0; i < n; i++) print_obj(g, gc_get_vec(g, o->vec_ref_value, i));
            printf(" }");
        }
        break;
    default: printf(" ?%d", (int)o->type);
    }
}

static ffi_type * build_type(unsigned int count, int * ok)
{
    ffi_cif cif;
    ffi_type * t = vm_execute_func_ffi_record_type(&machine_s, count);
    ffi_type ** params = (ffi_type **)malloc(sizeof(ffi_type *));   /* leaked on purpose: the cif refers to it */
    params[0] = t;
    *ok = (ffi_prep_cif(&cif, FFI_DEFAULT_ABI, 1, &ffi_type_void, params) == FFI_OK);
    return t;
}

static int find_bar(int from)
{
    int i;
    for (i = from; i < ntok; i++) if (strcmp(toks[i], "|") == 0) return i;
    return ntok;
}

static void op_type(void)
{
    unsigned int count = (unsigned int)atoi(toks[1]);
    int ok = 0;
    set_code(3, ntok);
    armed = 1;
    if (sigsetjmp(jb, 1) == 0)
    {
        ffi_type * t = build_type(count, &ok);
        unsigned int i;
        armed = 0;
        printf("type ok");
        for (i = 0; t->elements[i] != NULL; i++) print_ffi_type(t->elements[i]);
        printf(" rest %d sizes", (int)ncode - (int)machine_s.ip < 0 ? 0 : (int)ncode - (int)machine_s.ip);
        if (ok) print_sizes(t); else printf(" bad");
        printf("\n");
    }
    else printf("type crash\n");
}

static void op_pack(void)
{
    unsigned int count = (unsigned int)atoi(toks[1]);
    int bar = find_bar(3), ok = 0;
    gc * g = gc_new(2000);
    set_code(3, bar);
    machine_s.collector = g;
    nstrs = 0;
    armed = 1;
    if (sigsetjmp(jb, 1) == 0)
    {
        ffi_type * t = build_type(count, &ok);
        if (!ok) { armed = 0; printf("pack crash\n"); return; }
        unsigned int off = 0, i, j;
        size_t size = t->size;
        unsigned char * data = (unsigned char *)malloc(size);
        memset(data, 0, size);
        vpos = bar + 1;
        mem_ptr vec = build_vec(g, NULL);
        machine_s.ip = 0;
        int ret = vm_execute_func_ffi_record_value(&machine_s, vec, count, t, data, &off);
        armed = 0;
        /* canonicalise string pointers */
        for (i = 0; i + 8 <= size; i++)
        {
            unsigned long long w;
            memcpy(&w, data + i, 8);
            for (j = 0; j < (unsigned int)nstrs; j++)
                if (w == (unsigned long long)(size_t)strs[j].real) { w = strs[j].canon; memcpy(data + i, &w, 8); i += 7; break; }
        }
        printf("pack ret %d rest %d off %u bytes ", ret, (int)ncode - (int)machine_s.ip < 0 ? 0 : (int)ncode - (int)machine_s.ip, off);
        for (i = 0; i < size; i++) printf("%02x", data[i]);
        printf("\n");
        free(data);
    }
    else printf("pack crash\n");
}

static void op_unpack(void)
{
    unsigned int count = (unsigned int)atoi(toks[1]);
    int bar = find_bar(3), ok = 0;
    gc * g = gc_new(2000);
    set_code(3, bar);
    machine_s.collector = g;
    armed = 1;
    if (sigsetjmp(jb, 1) == 0)
    {
        ffi_type * t = build_type(count, &ok);
        const char * hex = bar + 1 < ntok ? toks[bar + 1] : "";
        size_t n = strlen(hex) / 2, i;
        if (!ok) { armed = 0; printf("unpack crash\n"); return; }
        unsigned char * data = (unsigned char *)malloc(n ? n : 1);
        for (i = 0; i < n; i++) { unsigned int b; sscanf(hex + 2 * i, "%2x", &b); data[i] = (unsigned char)b; }
        unsigned int off = 0;
        machine_s.ip = 0;
        mem_ptr rec = vm_execute_func_ffi_record_new(&machine_s, count, t, data, &off);
        armed = 0;
        printf("unpack");
        print_obj(g, rec);
        printf(" rest %d off %u\n", (int)ncode - (int)machine_s.ip < 0 ? 0 : (int)ncode - (int)machine_s.ip, off);
        free(data);
    }
    else printf("unpack crash\n");
}

static int do_emit(const char * path)
{
    program * prog = program_new();
    unsigned int i;
    char tmp[64];
    if (nev_compile_file(path, prog) != 0) { printf("compile-failed\n"); return 3; }
    module * m = prog->module_value;
    for (i = 0; i < m->code_size; i++)
    {
        if (m->code_arr[i].type == BYTECODE_FUNC_FFI)
        {
            unsigned int j = i + 1;
            printf("ffi %s %u", m->strtab_array[m->code_arr[i].ffi.fname_index], m->code_arr[i].ffi.count);
            for (; j < m->code_size; j++)
            {
                const char * t = desc_tok(&m->code_arr[j], tmp);
                printf(" %s", t);
                if (strcmp(t, "x") == 0) break;
            }
            printf("\n");
        }
    }
    return 0;
}

int main(int argc, char ** argv)
{
    static char line[1 << 16];
    if (argc >= 3 && strcmp(argv[1], "emit") == 0) return do_emit(argv[2]);
    /* a page of valid C strings at a fixed address: pointer STR_BASE + 16*j holds "s<j>" */
    {
        char * pg = (char *)mmap((void *)STR_BASE, 16 * STR_SLOTS, PROT_READ | PROT_WRITE,
                                 MAP_PRIVATE | MAP_ANONYMOUS | MAP_FIXED, -1, 0);
        int j;
        if (pg != (char *)STR_BASE) { fprintf(stderr, "mmap failed\n"); return 2; }
        for (j = 0; j < STR_SLOTS; j++) sprintf(pg + 16 * j, "s%d", j);
    }
    signal(SIGABRT, on_abort);
    setvbuf(stdout, NULL, _IOLBF, 0);
    while (fgets(line, sizeof(line), stdin) != NULL)
    {
        split(line);
        if (ntok < 3) { printf("bad-op\n"); continue; }
        if (strcmp(toks[0], "type") == 0) op_type();
        else if (strcmp(toks[0], "pack") == 0) op_pack();
        else if (strcmp(toks[0], "unpack") == 0) op_unpack();
        else printf("bad-op\n");
        fflush(stdout);
    }
    return 0;
}
