/* h_run: compile-and-run harness for the whole pipeline (C02/C08 differential against M-Src).
   stdin protocol (binary safe):
       gc <mode>\n      collection schedule for the programs that follow (NEVER_VERIF hook; 1 = every safe point)
       prog <id> <nbytes> <mem> <stack> <nargs> [i:<int> | f:<float bits> | s:<hex>]...\n
       <nbytes bytes of Never source>\n
   For every program a child is forked (so asserts, sanitizer aborts, exit(1) on limits and
   the known global-state defects of the pinned tree cannot leak from one program into the
   next).  stdout:
       @@BEGIN <id>\n
       ...whatever the program prints...
       \n@@RESULT <id> <status> <canonical value | ->  exc=<name|-> assert=<0|1>\n     (child)
       @@CLOS <id> <n> <count>...   GLOBAL_VEC sizes in execution order (closure creations)
       @@END <id> <exit:N | signal:N>\n                                                (parent)
   status: ok | compile_error | no_entry | vm_error
   canonical value: int:N long:N float:<bits> double:<bits> char:N str:<hex> nil func
                    arr[d1,d2]:(v,v,...)   rec:(v,v,...)
   Floats travel as bit patterns.  Nothing here prints an address. */
#include <stdio.h>
#include <stdlib.h>
#include <string.h>
#include <unistd.h>
#include <sys/wait.h>
#include "nev.h"
#include "gc.h"
#include "object.h"
#include "bytecode.h"
#include "utils.h"

#ifdef NEVER_VERIF
extern void (*never_verif_step_hook)(vm * machine, bytecode * code);
extern int never_verif_gc_mode;   /* 0: 80% rule, 1: collect at every safe point */
#endif

char * except_to_str(except_no no);
static int saw_unhandled = 0;
#define MAX_CLOS 65536
static unsigned int clos[MAX_CLOS];
static unsigned int nclos = 0;
static void hook(vm * machine, bytecode * code)
{
    if (code->type == BYTECODE_GLOBAL_VEC)
    {
        if (nclos < MAX_CLOS) clos[nclos] = code->global_vec.count;
        nclos++;
    }
    if (code->type == BYTECODE_UNHANDLED_EXCEPTION && !saw_unhandled)
    {
        saw_unhandled = 1;
        fflush(stdout);
        printf("\n@@UNHANDLED\n");
        fflush(stdout);
    }
}

static void print_val(gc * c, mem_ptr addr, int depth)
{
    object * o;
    unsigned int i;
    if (depth > 12) { printf("deep"); return; }
    if (addr == 0) { printf("nil"); return; }
    o = gc_get_object(c, addr);
    if (o == NULL) { printf("null"); return; }
    switch (o->type)
    {
    case OBJECT_INT: printf("int:%d", o->int_value); break;
    case OBJECT_LONG: printf("long:%lld", o->long_value); break;
    case OBJECT_FLOAT: { unsigned int b; memcpy(&b, &o->float_value, 4); printf("float:%u", b); } break;
    case OBJECT_DOUBLE: { unsigned long long b; memcpy(&b, &o->double_value, 8); printf("double:%llu", b); } break;
    case OBJECT_CHAR: printf("char:%d", (int)o->char_value); break;
    case OBJECT_STRING: { unsigned char * s = (unsigned char *)o->string_value; printf("str:"); for (; s && *s; s++) printf("%02x", *s); } break;
    case OBJECT_STRING_REF: if (o->string_ref_value == 0) printf("nil"); else print_val(c, o->string_ref_value, depth + 1); break;
    case OBJECT_VEC_REF: if (o->vec_ref_value == 0) printf("nil"); else print_val(c, o->vec_ref_value, depth + 1); break;
    case OBJECT_ARRAY_REF: if (o->arr_ref_value == 0) printf("nil"); else print_val(c, o->arr_ref_value, depth + 1); break;
    case OBJECT_VEC:
        printf("rec:(");
        for (i = 0; i < o->vec_value->size; i++) { if (i) printf(","); print_val(c, o->vec_value->value[i], depth + 1); }
        printf(")");
        break;
    case OBJECT_ARRAY:
        printf("arr[");
        for (i = 0; i < o->arr_value->dims; i++) printf(i ? ",%u" : "%u", o->arr_value->dv[i].elems);
        printf("]:(");
        for (i = 0; i < o->arr_value->elems; i++) { if (i) printf(","); print_val(c, o->arr_value->value[i], depth + 1); }
        printf(")");
        break;
    case OBJECT_FUNC: printf("func"); break;
    case OBJECT_C_PTR: printf("cptr"); break;
    default: printf("other%d", (int)o->type);
    }
}

static const char * cur_id = "?";
static void on_exit_called(void)
{
    /* the library called exit(): "out of memory" (gc.c) or "stack too large" (vmexec.c) */
    fflush(stdout);
    printf("\n@@LIMIT %s\n", cur_id);
    fflush(stdout);
}

static int hexval(int c) { return c <= '9' ? c - '0' : (c | 32) - 'a' + 10; }

static void run_one(const char * id, char * src, unsigned int mem, unsigned int stack, int nargs, char ** args)
{
    int ret, i;
    program * prog;
    cur_id = id;
    atexit(on_exit_called);
    prog = program_new();
    ret = nev_compile_str(src, prog);
    if (ret != 0) { fflush(stdout); printf("\n@@RESULT %s compile_error - exc=- assert=0\n", id); fflush(stdout); _exit(0); }
    ret = nev_prepare(prog, "main");
    if (ret != 0) { fflush(stdout); printf("\n@@RESULT %s no_entry - exc=- assert=0\n", id); fflush(stdout); _exit(0); }
    if ((int)prog->params_count != nargs) { fflush(stdout); printf("\n@@RESULT %s no_entry - exc=- assert=0\n", id); fflush(stdout); _exit(0); }
    for (i = 0; i < nargs; i++)
    {
        char * a = args[i];
        if (a[0] == 'i' && prog->params[i].type == OBJECT_INT) prog->params[i].int_value = atoi(a + 2);
        else if (a[0] == 'f' && prog->params[i].type == OBJECT_FLOAT) { unsigned int b = strtoul(a + 2, NULL, 10); memcpy(&prog->params[i].float_value, &b, 4); }
        else if (a[0] == 's' && prog->params[i].type == OBJECT_STRING_REF)
        {
            size_t n = strlen(a + 2) / 2, k; char * s = malloc(n + 1);
            for (k = 0; k < n; k++) s[k] = (char)(hexval(a[2 + 2 * k]) * 16 + hexval(a[3 + 2 * k]));
            s[n] = 0; prog->params[i].string_value = s;
        }
        else { fflush(stdout); printf("\n@@RESULT %s no_entry - exc=- assert=0\n", id); fflush(stdout); _exit(0); }
    }
    {
        object result = { 0 };
        vm * machine = vm_new(mem, stack);
        int is_assert = 0;
        unsigned int m;
#ifdef NEVER_VERIF
        never_verif_step_hook = hook;
#endif
        ret = nev_execute(prog, machine, &result);
        fflush(stdout);
        for (m = 0; m < prog->msg_count; m++)
            if (prog->msg_array[m] && strstr(prog->msg_array[m], "assert failed")) is_assert = 1;
        if (ret == 0)
        {
            printf("\n@@RESULT %s ok ", id);
            /* the result object copied out by nev_execute (entry functions return numbers) */
            switch (result.type)
            {
            case OBJECT_INT: printf("int:%d", result.int_value); break;
            case OBJECT_LONG: printf("long:%lld", result.long_value); break;
            case OBJECT_FLOAT: { unsigned int b; memcpy(&b, &result.float_value, 4); printf("float:%u", b); } break;
            case OBJECT_DOUBLE: { unsigned long long b; memcpy(&b, &result.double_value, 8); printf("double:%llu", b); } break;
            case OBJECT_CHAR: printf("char:%d", (int)result.char_value); break;
            default: printf("other%d", (int)result.type);
            }
            printf(" exc=- assert=0\n");
        }
        else
        {
            printf("\n@@RESULT %s vm_error - exc=%s assert=%d\n", id,
                   saw_unhandled ? except_to_str(machine->exception) : "-", is_assert);
        }
        {
            unsigned int q;
            printf("@@CLOS %s %u", id, nclos);
            for (q = 0; q < nclos && q < MAX_CLOS; q++) printf(" %u", clos[q]);
            printf("\n");
        }
        fflush(stdout);
        _exit(0);
    }
}

int main(void)
{
    static char line[1 << 16];
    setvbuf(stdout, NULL, _IOFBF, 1 << 16);
    while (fgets(line, sizeof line, stdin))
    {
        char * tok[64]; int nt = 0; char * p = strtok(line, " \n");
        size_t n; char * src; pid_t pid; int st;
        while (p && nt < 64) { tok[nt++] = p; p = strtok(NULL, " \n"); }
        if (nt == 2 && !strcmp(tok[0], "gc"))
        {
#ifdef NEVER_VERIF
            never_verif_gc_mode = atoi(tok[1]);
#endif
            continue;
        }
        if (nt < 6 || strcmp(tok[0], "prog")) { printf("@@BAD\n"); fflush(stdout); continue; }
        n = strtoul(tok[2], NULL, 10);
        src = malloc(n + 1);
        if (fread(src, 1, n, stdin) != n) { printf("@@BAD\n"); return 2; }
        src[n] = 0;
        fgetc(stdin);
        printf("@@BEGIN %s\n", tok[1]); fflush(stdout);
        pid = fork();
        if (pid == 0)
        {
            alarm(getenv("H_RUN_ALARM") ? atoi(getenv("H_RUN_ALARM")) : 5);
            run_one(tok[1], src, strtoul(tok[3], NULL, 10), strtoul(tok[4], NULL, 10), atoi(tok[5]), tok + 6);
            _exit(0);
        }
        waitpid(pid, &st, 0);
        if (WIFEXITED(st)) printf("\n@@END %s exit:%d\n", tok[1], WEXITSTATUS(st));
        else printf("\n@@END %s signal:%d\n", tok[1], WTERMSIG(st));
        fflush(stdout);
        free(src);
    }
    return 0;
}
