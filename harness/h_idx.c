/* h_idx: index arithmetic of the VM, protocol of `nmdrv idx`.
   Pure functions are called directly; the deref/slice handlers are run as single
   instructions on a real vm with real heap objects, each in a forked child so that a
   sanitizer abort is an answer ("crash"), not the end of the run. */
#include <stdio.h>
#include <stdlib.h>
#include <string.h>
#include <unistd.h>
#include <sys/wait.h>
#include "vm.h"
#include "gc.h"
#include "object.h"
#include "bytecode.h"
#include "vmexec.h"

void vm_get_slice_range(int, int, int, int, int *, int *, int *);

static char * toks[4096]; static int nt;

static int bar(int from) { int i; for (i = from; i < nt; i++) if (!strcmp(toks[i], "|")) return i; return nt; }

static mem_ptr mk_array(vm * m, int from, int to, unsigned int * elems_out)
{
    unsigned int dims = to - from, d, e;
    object_arr_dim * dv = object_arr_dim_new(dims);
    for (d = 0; d < dims; d++) { dv[d].elems = strtoul(toks[from + d], NULL, 10); dv[d].mult = 0; }
    mem_ptr arr = gc_alloc_arr(m->collector, dims, dv);
    unsigned int n = gc_get_arr_elems(m->collector, arr);
    for (e = 0; e < n; e++) gc_set_arr_elem(m->collector, arr, e, gc_alloc_int(m->collector, (int)e));
    *elems_out = n;
    return arr;
}

static void push(vm * m, mem_ptr a) { m->sp++; m->stack[m->sp].type = GC_MEM_ADDR; m->stack[m->sp].addr = a; }

static void report_top_int(vm * m)
{
    if (m->running == VM_EXCEPTION) printf("exc %d\n", (int)m->exception);
    else printf("ok %d\n", gc_get_int(m->collector, m->stack[m->sp].addr));
}

static void child(void)
{
    vm * m = vm_new(5000, 200);
    bytecode code; memset(&code, 0, sizeof code);
    m->running = VM_RUNNING; m->sp = 3;
    if (!strcmp(toks[0], "aderef"))
    {
        int b = bar(1), i; unsigned int n;
        mem_ptr arr = mk_array(m, 1, b, &n);
        push(m, arr);
        for (i = nt - 1; i > b; i--) push(m, gc_alloc_int(m->collector, atoi(toks[i])));
        code.type = BYTECODE_ARRAY_DEREF; code.array_deref.dims = b - 1;
        vm_execute_array_deref(m, &code);
        report_top_int(m);
    }
    else if (!strcmp(toks[0], "sderef"))
    {
        int b1 = bar(1), b2 = bar(b1 + 1), i; unsigned int n, dims = b1 - 1, d;
        mem_ptr arr = mk_array(m, 1, b1, &n);
        mem_ptr range = gc_alloc_vec(m->collector, 2 * dims);
        for (d = 0; d < dims; d++)
        {
            int f, t; sscanf(toks[b1 + 1 + d], "%d:%d", &f, &t);
            gc_set_vec(m->collector, range, 2 * d, gc_alloc_int(m->collector, f));
            gc_set_vec(m->collector, range, 2 * d + 1, gc_alloc_int(m->collector, t));
        }
        mem_ptr slice = gc_alloc_vec(m->collector, 2);
        gc_set_vec(m->collector, slice, 0, arr);    /* SLICE_ARRAY_INDEX */
        gc_set_vec(m->collector, slice, 1, range);  /* SLICE_RANGE_INDEX */
        push(m, gc_alloc_vec_ref(m->collector, slice));
        for (i = nt - 1; i > b2; i--) push(m, gc_alloc_int(m->collector, atoi(toks[i])));
        code.type = BYTECODE_SLICE_DEREF; code.array_deref.dims = dims;
        vm_execute_slice_deref(m, &code);
        report_top_int(m);
    }
    else if (!strcmp(toks[0], "rderef"))
    {
        mem_ptr range = gc_alloc_vec(m->collector, 2);
        gc_set_vec(m->collector, range, 0, gc_alloc_int(m->collector, atoi(toks[1])));
        gc_set_vec(m->collector, range, 1, gc_alloc_int(m->collector, atoi(toks[2])));
        push(m, gc_alloc_vec_ref(m->collector, range));
        push(m, gc_alloc_int(m->collector, atoi(toks[3])));
        code.type = BYTECODE_RANGE_DEREF; code.array_deref.dims = 1;
        vm_execute_range_deref(m, &code);
        if (m->running == VM_EXCEPTION) printf("exc %d\n", (int)m->exception);
        else
        {
            mem_ptr res = gc_get_arr_ref(m->collector, m->stack[m->sp].addr);
            printf("ok %d\n", gc_get_int(m->collector, gc_get_arr_elem(m->collector, res, 0)));
        }
    }
    else if (!strcmp(toks[0], "strderef") || !strcmp(toks[0], "strslice"))
    {
        size_t n = strlen(toks[1]) / 2, i; char * s = malloc(n + 1);
        for (i = 0; i < n; i++) { unsigned int b; sscanf(toks[1] + 2 * i, "%2x", &b); s[i] = (char)b; }
        s[n] = 0;
        mem_ptr str = gc_alloc_string(m->collector, s); free(s);
        push(m, gc_alloc_string_ref(m->collector, str));
        if (!strcmp(toks[0], "strderef"))
        {
            push(m, gc_alloc_int(m->collector, atoi(toks[2])));
            code.type = BYTECODE_STRING_DEREF;
            vm_execute_string_deref(m, &code);
            if (m->running == VM_EXCEPTION) printf("exc %d\n", (int)m->exception);
            else printf("ok %u\n", (unsigned int)(unsigned char)gc_get_char(m->collector, m->stack[m->sp].addr));
        }
        else
        {
            mem_ptr range = gc_alloc_vec(m->collector, 2);
            gc_set_vec(m->collector, range, 0, gc_alloc_int(m->collector, atoi(toks[2])));
            gc_set_vec(m->collector, range, 1, gc_alloc_int(m->collector, atoi(toks[3])));
            push(m, gc_alloc_vec_ref(m->collector, range));
            code.type = BYTECODE_SLICE_STRING;
            vm_execute_slice_string(m, &code);
            if (m->running == VM_EXCEPTION) printf("exc %d\n", (int)m->exception);
            else
            {
                unsigned char * r = (unsigned char *)gc_get_string(m->collector, gc_get_string_ref(m->collector, m->stack[m->sp].addr));
                printf("ok "); for (; *r; r++) printf("%02x", *r); printf("\n");
            }
        }
    }
    else printf("bad-op\n");
    fflush(stdout);
    _exit(0);
}

static object_arr * mk_shape(int from, int to)
{
    unsigned int dims = to - from, d;
    object_arr_dim * dv = object_arr_dim_new(dims);
    for (d = 0; d < dims; d++) { dv[d].elems = strtoul(toks[from + d], NULL, 10); dv[d].mult = 0; }
    object * o = object_new_arr(dims, dv);
    return o->arr_value;  /* leaks the wrapper; harness only */
}

int main(void)
{
    static char line[1 << 16];
    while (fgets(line, sizeof line, stdin))
    {
        char * p = strtok(line, " \n"); nt = 0;
        while (p && nt < 4096) { toks[nt++] = p; p = strtok(NULL, " \n"); }
        if (nt == 0) { printf("bad-op\n"); fflush(stdout); continue; }
        if (!strcmp(toks[0], "mult"))
        {
            unsigned int dims = nt - 1, d, elems;
            object_arr_dim * dv = object_arr_dim_new(dims ? dims : 1);
            for (d = 0; d < dims; d++) { dv[d].elems = strtoul(toks[1 + d], NULL, 10); dv[d].mult = 0; }
            object_arr_dim_mult(dims, dv, &elems);
            printf("dv ");
            for (d = 0; d < dims; d++) printf(d ? ",%u*%u" : "%u*%u", dv[d].elems, dv[d].mult);
            printf(" elems %u\n", elems);
            object_arr_dim_delete(dv);
        }
        else if (!strcmp(toks[0], "addr"))
        {
            int b = bar(1); unsigned int dims = b - 1, d, elems; int oob = 0;
            object_arr_dim * dv = object_arr_dim_new(dims ? dims : 1), * ad = object_arr_dim_new(dims ? dims : 1);
            for (d = 0; d < dims; d++) { dv[d].elems = strtoul(toks[1 + d], NULL, 10); dv[d].mult = 0; ad[d].mult = strtoul(toks[b + 1 + d], NULL, 10); ad[d].elems = 0; }
            object_arr_dim_mult(dims, dv, &elems);
            unsigned int a = object_arr_dim_addr(dims, dv, ad, &oob);
            if (oob >= 0) printf("oob %d\n", oob); else printf("ok %u\n", a);
            object_arr_dim_delete(dv); object_arr_dim_delete(ad);
        }
        else if (!strcmp(toks[0], "srange"))
        {
            int rf = 0, rt = 0, oob = 0;
            vm_get_slice_range(atoi(toks[1]), atoi(toks[2]), atoi(toks[3]), atoi(toks[4]), &rf, &rt, &oob);
            if (oob) printf("oob\n"); else printf("some %d %d\n", rf, rt);
        }
        else if (!strcmp(toks[0], "canadd") || !strcmp(toks[0], "canmult"))
        {
            int b = bar(1);
            object_arr * a1 = mk_shape(1, b), * a2 = mk_shape(b + 1, nt);
            printf("%d\n", !strcmp(toks[0], "canadd") ? (int)object_arr_can_add(a1, a2) : (int)object_arr_can_mult(a1, a2));
        }
        else
        {
            fflush(stdout);
            pid_t pid = fork();
            if (pid == 0) child();
            int st = 0; waitpid(pid, &st, 0);
            if (!(WIFEXITED(st) && WEXITSTATUS(st) == 0)) printf("crash\n");
        }
        fflush(stdout);
    }
    return 0;
}
