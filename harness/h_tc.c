/* h_tc: in-process `nev_compile_str` on a stream of programs; observable of C06:
 * return code and program.msg_array (every `error:`/`warning:` line with its line number).
 * stdin :  "prog <id> <nbytes>\n" followed by nbytes of source, repeated
 * stdout:  "begin <id>\n" before compiling, then "ret <rc> nmsg <k>\n", k message lines
 *          (newlines inside a message shown as "\n"), then "end <id>\n"; flushed per program, so that a crash is
 *          attributable to the program whose "begin" has no "end". */
#include <stdio.h>
#include <stdlib.h>
#include <string.h>
#include "nev.h"
#include "program.h"

int main(void)
{
    char head[256];
    while (fgets(head, sizeof head, stdin))
    {
        unsigned long id = 0, n = 0;
        if (sscanf(head, "prog %lu %lu", &id, &n) != 2)
        {
            printf("bad-header\n");
            fflush(stdout);
            return 2;
        }
        char * src = malloc(n + 1);
        size_t got = fread(src, 1, n, stdin);
        src[got] = 0;
        printf("begin %lu\n", id);
        fflush(stdout);

        program * prog = program_new();
        int rc = nev_compile_str(src, prog);
        unsigned int i;
        printf("ret %d nmsg %u\n", rc, prog->msg_count);
        for (i = 0; i < prog->msg_count; i++)
        {
            const char * m = prog->msg_array[i];
            for (; *m; m++)
            {
                if (*m == '\n') fputs("\\n", stdout);
                else if (*m == '\r') fputs("\\r", stdout);
                else fputc(*m, stdout);
            }
            fputc('\n', stdout);
        }
        printf("end %lu\n", id);
        fflush(stdout);
        program_delete(prog);
        free(src);
    }
    return 0;
}
