/* h_vm: compile a program with the real front end, dump the emitted module, run it on
   the real VM under a chosen (heap, stack, collection schedule) and write a
   per-instruction trace that `nmdrv vm` replays on the Lean VM model.

   usage: h_vm [-f file | -e src] [-m mem] [-s stack] [-g gcmode 0|1|2] [-n entry]
               [-D dumpfile] [-T tracefile] [-L maxtracelines] [-R resultfile] [-x execs] [args...]
   The program's own stdout is left alone (the caller captures it). */
#include <stdio.h>
#include <stdlib.h>
#include <string.h>
#include <fenv.h>
#include <unistd.h>
#include "nev.h"
#include "vm.h"
#include "gc.h"
#include "object.h"
#include "bytecode.h"
#include "module.h"
#include "program.h"
#include "functab.h"
#include "exctab.h"

static FILE * tf = NULL, * rf = NULL;
static unsigned long long steps = 0, maxlines = 0, peak_sp_seen = 0;
static long long peak_sp = -1;
static unsigned int opcount[BYTECODE_END];

void __real_exit(int);
static void finish(const char * how, int code);
void __wrap_exit(int code) { finish("exit", code); __real_exit(code); }

static void print_obj(FILE * f, gc * g, mem_ptr a, int depth)
{
    object * o;
    if (a == 0) { fprintf(f, "nil"); return; }
    if (a >= g->mem_size) { fprintf(f, "?oob%u", a); return; }
    o = g->mem[a].object_value;
    if (o == NULL) { fprintf(f, "free"); return; }
    switch (o->type)
    {
    case OBJECT_INT: fprintf(f, "I%d", o->int_value); break;
    case OBJECT_LONG: fprintf(f, "L%lld", o->long_value); break;
    case OBJECT_FLOAT: { unsigned int b; memcpy(&b, &o->float_value, 4); if (o->float_value != o->float_value) fprintf(f, "Fnan"); else fprintf(f, "F%u", b); } break;
    case OBJECT_DOUBLE: { unsigned long long b; memcpy(&b, &o->double_value, 8); if (o->double_value != o->double_value) fprintf(f, "Dnan"); else fprintf(f, "D%llu", b); } break;
    case OBJECT_CHAR: fprintf(f, "C%d", (int)o->char_value); break;
    case OBJECT_STRING: { unsigned char * s = (unsigned char *)o->string_value; fprintf(f, "S"); for (; s && *s; s++) fprintf(f, "%02x", *s); } break;
    case OBJECT_STRING_REF: fprintf(f, "R%u", o->string_ref_value); break;
    case OBJECT_STRING_ARR: fprintf(f, "T"); break;
    case OBJECT_C_PTR: fprintf(f, "P"); break;
    case OBJECT_VEC: fprintf(f, "V%u", o->vec_value->size);
        if (depth) { unsigned int i; fprintf(f, "["); for (i = 0; i < o->vec_value->size; i++) fprintf(f, i ? ",%u" : "%u", o->vec_value->value[i]); fprintf(f, "]"); }
        break;
    case OBJECT_VEC_REF: fprintf(f, "W%u", o->vec_ref_value); break;
    case OBJECT_ARRAY: fprintf(f, "A%u", o->arr_value->elems);
        if (depth) { unsigned int i; fprintf(f, "("); for (i = 0; i < o->arr_value->dims; i++) fprintf(f, i ? "x%u*%u" : "%u*%u", o->arr_value->dv[i].elems, o->arr_value->dv[i].mult);
                     fprintf(f, ")["); for (i = 0; i < o->arr_value->elems; i++) fprintf(f, i ? ",%u" : "%u", o->arr_value->value[i]); fprintf(f, "]"); }
        break;
    case OBJECT_ARRAY_REF: fprintf(f, "B%u", o->arr_ref_value); break;
    case OBJECT_FUNC: fprintf(f, "U%u@%u", o->func_value->vec, o->func_value->addr); break;
    default: fprintf(f, "?%d", (int)o->type);
    }
}

static void hook(vm * m, bytecode * bc)
{
    steps++;
    if (m->sp > peak_sp) peak_sp = m->sp;
    if (bc->type < BYTECODE_END) opcount[bc->type]++;
    if (tf && (maxlines == 0 || steps <= maxlines))
    {
        gc * g = m->collector;
        int fe = fetestexcept(FE_DIVBYZERO | FE_INVALID | FE_OVERFLOW | FE_UNDERFLOW);
        int feb = ((fe & FE_DIVBYZERO) ? 1 : 0) | ((fe & FE_INVALID) ? 2 : 0) | ((fe & FE_OVERFLOW) ? 4 : 0) | ((fe & FE_UNDERFLOW) ? 8 : 0);
        /* ip here is already incremented: the instruction about to run is ip-1 */
        fprintf(tf, "t %u %d %d %d %d %u %d %d %u %u %u %d ", m->ip - 1, (int)bc->type, m->sp, m->fp, m->pp, m->gp,
                (int)m->running, (int)m->exception, m->line_no, g->free, g->wb_top[g->w_index], feb);
        if (m->sp >= 0 && m->sp < m->stack_size)
        {
            gc_stack * s = &m->stack[m->sp];
            if (s->type == GC_MEM_ADDR) { fprintf(tf, "a%u=", s->addr); print_obj(tf, g, s->addr, 0); }
            else if (s->type == GC_MEM_IP) fprintf(tf, "i%u", s->ip);
            else if (s->type == GC_MEM_STACK) fprintf(tf, "s%d", s->sp);
            else fprintf(tf, "u");
        }
        else fprintf(tf, "-");
        /* the most recently allocated cell (results of external calls are read from here) */
        if (g->wb_top[g->w_index] > 0) { mem_ptr la = g->wb_list[g->w_index][g->wb_top[g->w_index] - 1]; fprintf(tf, " %u=", la); print_obj(tf, g, la, 0); }
        else fprintf(tf, " -");
        fprintf(tf, "\n");
    }
}

static vm * machine = NULL;
static int finished = 0;
#include <signal.h>
void __sanitizer_set_death_callback(void (*cb)(void)) __attribute__((weak));
static void on_death(void) { if (rf) { fprintf(rf, "end crash 0 steps=%llu peak_sp=%lld\n", steps, peak_sp); fflush(rf); } if (tf) fflush(tf); fflush(stdout); }
static void on_signal(int sig) { on_death(); signal(sig, SIG_DFL); raise(sig); }

static void dump_state(FILE * f, vm * m)
{
    /* final stack (up to sp) and every allocated cell: compared with the model at the end */
    int i; unsigned int a; gc * g = m->collector;
    fprintf(f, "final sp=%d fp=%d pp=%d gp=%u ip=%u running=%d exc=%d free=%u w=%u wbtop=%u\n", m->sp, m->fp, m->pp, m->gp, m->ip,
            (int)m->running, (int)m->exception, g->free, g->w_index, g->wb_top[g->w_index]);
    fprintf(f, "stack");
    for (i = 0; i <= m->sp && i < m->stack_size; i++)
    {
        gc_stack * s = &m->stack[i];
        if (s->type == GC_MEM_ADDR) fprintf(f, " a%u", s->addr);
        else if (s->type == GC_MEM_IP) fprintf(f, " i%u", s->ip);
        else if (s->type == GC_MEM_STACK) fprintf(f, " s%d", s->sp);
        else fprintf(f, " u");
    }
    fprintf(f, "\nheap");
    for (a = 0; a < g->mem_size; a++)
        if (g->mem[a].object_value != NULL) { fprintf(f, " %u:", a); print_obj(f, g, a, 1); }
    fprintf(f, "\n");
}

static void finish(const char * how, int code)
{
    int i;
    if (finished) return;
    finished = 1;
    fflush(stdout);
    if (rf)
    {
        fprintf(rf, "end %s %d steps=%llu peak_sp=%lld\n", how, code, steps, peak_sp);
        if (machine) dump_state(rf, machine);
        fprintf(rf, "opcount");
        for (i = 0; i < BYTECODE_END; i++) if (opcount[i]) fprintf(rf, " %d:%u", i, opcount[i]);
        fprintf(rf, "\n");
        fflush(rf);
    }
    if (tf) fflush(tf);
}

#include "emit.h"
static unsigned int fn_addr[8192], fn_params[8192], fn_count = 0;
static void func_hook(unsigned int addr, unsigned int params_count)
{
    if (fn_count < 8192) { fn_addr[fn_count] = addr; fn_params[fn_count] = params_count; fn_count++; }
}

static void dump_module(FILE * f, program * prog)
{
    module * m = prog->module_value;
    unsigned int i;
    fprintf(f, "code %u\n", m->code_size);
    for (i = 0; i < m->code_size; i++)
    {
        unsigned int w[4] = { 0, 0, 0, 0 };
        bytecode * bc = &m->code_arr[i];
        size_t n = sizeof(bytecode) - ((char *)&bc->int_t - (char *)bc);
        if (n > 16) n = 16;
        memcpy(w, &bc->int_t, n);
        if (bc->type == BYTECODE_ID_FUNC_FUNC) { w[0] = 0; w[1] = 0; } /* a host pointer: never compared */
        fprintf(f, "i %u %d %u %u %u\n", bc->addr, (int)bc->type, w[0], w[1], w[2]);
    }
    fprintf(f, "strtab %u\n", m->strtab_size);
    for (i = 0; i < m->strtab_size; i++)
    {
        unsigned char * s = (unsigned char *)m->strtab_array[i];
        fprintf(f, "s %u ", i);
        for (; s && *s; s++) fprintf(f, "%02x", *s);
        fprintf(f, "\n");
    }
    fprintf(f, "exctab %u\n", m->exctab_value->count);
    for (i = 0; i <= m->exctab_value->count; i++)
        fprintf(f, "x %u %u\n", m->exctab_value->tab[i].block_addr, m->exctab_value->tab[i].handler_addr);
    fprintf(f, "entry %u\n", m->code_entry);
    for (i = 0; i < fn_count; i++) fprintf(f, "fn %u %u\n", fn_addr[i], fn_params[i]);
    if (m->functab_value)
        for (i = 0; i < m->functab_value->size; i++)
        {
            functab_entry * e = &m->functab_value->entries[i];
            if (e->id != NULL)
            {
                unsigned int p;
                fprintf(f, "func %s %u %d %u", e->id, e->func_addr, e->entry_type, e->params_count);
                for (p = 0; p < e->params_count; p++) fprintf(f, " %d", (int)e->params[p].type);
                fprintf(f, "\n");
            }
        }
}

/* -B <dump>: build the program from a module dump (the format dump_module writes) instead of compiling a source: lets the
   correspondence run hand-made instruction sequences on the real VM (single-handler differential, checks/op_corr.py) */
static int load_module(const char * path, program * prog)
{
    FILE * f = fopen(path, "r");
    module * m = prog->module_value;
    char line[4096];
    unsigned int n = 0, ns = 0, nx = 0;
    if (f == NULL) return 1;
    while (fgets(line, sizeof line, f))
    {
        unsigned int a, w0, w1, w2, b, h; int t;
        if (sscanf(line, "code %u", &a) == 1) { m->code_arr = calloc(a + 1, sizeof(bytecode)); m->code_size = a; n = 0; }
        else if (sscanf(line, "i %u %d %u %u %u", &a, &t, &w0, &w1, &w2) == 5 && m->code_arr && n < m->code_size)
        {
            bytecode * bc = &m->code_arr[n++];
            unsigned int w[4] = { w0, w1, w2, 0 };
            size_t sz = sizeof(bytecode) - ((char *)&bc->int_t - (char *)bc);
            if (sz > 16) sz = 16;
            bc->addr = a; bc->type = (bytecode_type)t;
            memcpy(&bc->int_t, w, sz);
        }
        else if (sscanf(line, "strtab %u", &a) == 1) { m->strtab_array = calloc(a + 1, sizeof(char *)); m->strtab_size = a; ns = 0; }
        else if (line[0] == 's' && line[1] == ' ' && m->strtab_array && ns < m->strtab_size)
        {
            char * p = strchr(line + 2, ' '); size_t len, k; char * out;
            p = p ? p + 1 : line + strlen(line);
            len = strcspn(p, "\r\n") / 2; out = calloc(len + 1, 1);
            for (k = 0; k < len; k++) { unsigned int v = 0; sscanf(p + 2 * k, "%2x", &v); out[k] = (char)v; }
            m->strtab_array[ns++] = out;
        }
        else if (sscanf(line, "exctab %u", &a) == 1) { m->exctab_value = exception_tab_new(a + 2); m->exctab_value->count = a; nx = 0; }
        else if (sscanf(line, "x %u %u", &b, &h) == 2 && m->exctab_value && nx <= m->exctab_value->count)
        { m->exctab_value->tab[nx].block_addr = b; m->exctab_value->tab[nx].handler_addr = h; nx++; }
        else if (sscanf(line, "entry %u", &a) == 1) m->code_entry = a;
    }
    fclose(f);
    return (m->code_arr == NULL || m->exctab_value == NULL) ? 1 : 0;
}

int main(int argc, char ** argv)
{
    const char * file = NULL, * src = NULL, * entry = "main", * dumpf = NULL, * tracef = NULL, * resf = NULL, * bdump = NULL;
    unsigned int mem = DEFAULT_VM_MEM_SIZE, stack = DEFAULT_VM_STACK_SIZE; int gcmode = 0, execs = 1, c, ret, k;
    const char * pre[16]; int npre = 0; program * preprog[16]; char * calls = NULL; char cwd0[4096]; const char * post = NULL; program * postprog = NULL;
    while ((c = getopt(argc, argv, "f:e:m:s:g:n:D:T:L:R:x:P:c:B:Q:")) != -1)
    {
        switch (c)
        {
        case 'f': file = optarg; break; case 'e': src = optarg; break;
        case 'm': mem = strtoul(optarg, NULL, 10); break; case 's': stack = strtoul(optarg, NULL, 10); break;
        case 'g': gcmode = atoi(optarg); break; case 'n': entry = optarg; break;
        case 'D': dumpf = optarg; break; case 'T': tracef = optarg; break; case 'L': maxlines = strtoull(optarg, NULL, 10); break;
        case 'R': resf = optarg; break; case 'x': execs = atoi(optarg); break;
        case 'P': if (npre < 16) pre[npre++] = optarg; break; case 'c': calls = strdup(optarg); break;
        case 'Q': post = optarg; break;
        case 'B': bdump = optarg; break;
        default: return 2;
        }
    }
    rf = resf ? fopen(resf, "w") : NULL;
    if (rf) setvbuf(rf, NULL, _IOLBF, 0);
    if (__sanitizer_set_death_callback) { __sanitizer_set_death_callback(on_death); signal(SIGABRT, on_signal); /* assert(): ASan does not intercept abort() */ }
    else { signal(SIGSEGV, on_signal); signal(SIGABRT, on_signal); signal(SIGFPE, on_signal); signal(SIGBUS, on_signal); }
    cwd0[0] = 0;
    if (getcwd(cwd0, sizeof cwd0) == NULL) cwd0[0] = 0;
    for (k = 0; k < npre; k++)
    {
        int r0;
        /* "@del:" = delete this program right after compiling it (later diagnostics must not reach into it);
           "@file:<path>" = nev_compile_file instead of nev_compile_str */
        const char * ps = pre[k]; int del = 0;
        if (strncmp(ps, "@del:", 5) == 0) { del = 1; ps += 5; }
        preprog[k] = program_new();
        r0 = strncmp(ps, "@file:", 6) == 0 ? nev_compile_file(ps + 6, preprog[k]) : nev_compile_str(ps, preprog[k]);
        if (rf) fprintf(rf, "precompile %d %d msgs=%u\n", k, r0, preprog[k]->msg_count);
        if (del) { program_delete(preprog[k]); preprog[k] = NULL; }
    }
    {
        /* the working directory is process state too: no compilation may leave the process elsewhere */
        char cwd1[4096]; cwd1[0] = 0;
        if (getcwd(cwd1, sizeof cwd1) == NULL) cwd1[0] = 0;
        if (rf) fprintf(rf, "cwd_after_pre %d\n", strcmp(cwd0, cwd1) != 0);
    }
    program * prog = program_new();
    fn_count = 0;
    never_verif_func_hook = func_hook;
    ret = bdump ? load_module(bdump, prog) : file ? nev_compile_file(file, prog) : nev_compile_str(src ? src : "", prog);
    never_verif_func_hook = NULL;
    if (rf)
    {
        unsigned int q;
        char cwd2[4096]; cwd2[0] = 0;
        if (getcwd(cwd2, sizeof cwd2) == NULL) cwd2[0] = 0;
        fprintf(rf, "cwd_after_compile %d\n", strcmp(cwd0, cwd2) != 0);
        fprintf(rf, "compile %d msgs=%u\n", ret, prog->msg_count);
        for (q = 0; q < prog->msg_count; q++) { unsigned char * t = (unsigned char *)prog->msg_array[q]; fprintf(rf, "msg "); for (; t && *t; t++) fprintf(rf, "%02x", *t); fprintf(rf, "\n"); }
    }
    if (ret != 0)
    {
        for (k = 0; k < npre; k++) if (preprog[k] != NULL && rf) fprintf(rf, "premsgs %d %u\n", k, preprog[k]->msg_count);
        finish("compile-fail", ret); program_delete(prog); return 3;
    }
    if (dumpf) { FILE * df = fopen(dumpf, "w"); dump_module(df, prog); fclose(df); }
    if (post != NULL)
    {
        /* another program compiled AFTER the one that is going to run (and kept alive): run-time diagnostics must still be labelled
           with, and stored in, the running program */
        int r1;
        postprog = program_new();
        r1 = strncmp(post, "@file:", 6) == 0 ? nev_compile_file(post + 6, postprog) : nev_compile_str(post, postprog);
        if (rf) fprintf(rf, "postcompile %d msgs=%u\n", r1, postprog->msg_count);
    }
    {
    /* call list: either -c "entry:a,b;entry:c" or `execs` times (entry, argv) */
    char * callv[64]; int ncalls = 0;
    if (calls) { char * p = strtok(calls, ";"); while (p && ncalls < 64) { callv[ncalls++] = p; p = strtok(NULL, ";"); } }
    else { for (k = 0; k < execs && k < 64; k++) callv[ncalls++] = NULL; }
    for (k = 0; k < ncalls; k++)
    {
        const char * en = entry; char * av[32]; int ac = 0; int a;
        if (callv[k] != NULL)
        {
            char * colon = strchr(callv[k], ':');
            en = callv[k];
            if (colon) { *colon = 0; char * q = colon + 1; while (q && *q && ac < 32) { av[ac++] = q; q = strchr(q, ','); if (q) { *q = 0; q++; } } }
        }
        else { for (a = optind; a < argc && ac < 32; a++) av[ac++] = argv[a]; }
        ret = bdump ? 0 : nev_prepare_argc_argv(prog, en, ac, av);
        if (rf)
        {
            unsigned int p;
            fprintf(rf, "prepare %d entry_addr=%u params=%u", ret, prog->entry_addr, prog->params_count);
            for (p = 0; ret == 0 && p < prog->params_count; p++)
            {
                object * o = &prog->params[p];
                if (o->type == OBJECT_INT) fprintf(rf, " I%d", o->int_value);
                else if (o->type == OBJECT_FLOAT) { unsigned int b; memcpy(&b, &o->float_value, 4); fprintf(rf, " F%u", b); }
                else if (o->type == OBJECT_STRING_REF) { unsigned char * t = (unsigned char *)o->string_value; fprintf(rf, " S"); for (; t && *t; t++) fprintf(rf, "%02x", *t); }
                else if (o->type == OBJECT_STRING_ARR)
                {
                    unsigned int q; fprintf(rf, " T%u", o->string_arr_value ? o->string_arr_value->argc : 0);
                    for (q = 0; o->string_arr_value && q < o->string_arr_value->argc; q++) { unsigned char * t = (unsigned char *)o->string_arr_value->argv[q]; fprintf(rf, ","); for (; t && *t; t++) fprintf(rf, "%02x", *t); }
                }
                else fprintf(rf, " ?%d", (int)o->type);
            }
            fprintf(rf, " name=%s\n", en);
        }
        if (ret != 0) { if (k == 0) { finish("prepare-fail", ret); program_delete(prog); return 4; } continue; }
        if (machine == NULL)
        {
            machine = vm_new(mem, stack);
            tf = tracef ? fopen(tracef, "w") : NULL;
            never_verif_step_hook = hook;
            never_verif_gc_mode = gcmode;
        }
        {
        object result = { 0 };
        int sp0 = machine->sp;
        ret = nev_execute(prog, machine, &result);
        fflush(stdout);
        if (rf)
        {
            fprintf(rf, "exec %d ret=%d sp_before=%d sp_after=%d running=%d exc=%d result=", k, ret, sp0, machine->sp, (int)machine->running, (int)machine->exception);
            if (ret == 0)
            {
                if (result.type == OBJECT_INT) fprintf(rf, "I%d", result.int_value);
                else if (result.type == OBJECT_LONG) fprintf(rf, "L%lld", result.long_value);
                else if (result.type == OBJECT_FLOAT) { unsigned int b; memcpy(&b, &result.float_value, 4); if (result.float_value != result.float_value) fprintf(rf, "Fnan"); else fprintf(rf, "F%u", b); }
                else if (result.type == OBJECT_DOUBLE) { unsigned long long b; memcpy(&b, &result.double_value, 8); if (result.double_value != result.double_value) fprintf(rf, "Dnan"); else fprintf(rf, "D%llu", b); }
                else if (result.type == OBJECT_CHAR) fprintf(rf, "C%d", (int)result.char_value);
                else fprintf(rf, "O%d", (int)result.type);
            }
            else fprintf(rf, "-");
            fprintf(rf, "\n");
        }
        if (ret != 0 && !calls) break;
        }
    }
    }
    if (rf)
    {
        unsigned int q;
        for (q = 0; q < prog->msg_count; q++) { unsigned char * t = (unsigned char *)prog->msg_array[q]; fprintf(rf, "emsg "); for (; t && *t; t++) fprintf(rf, "%02x", *t); fprintf(rf, "\n"); }
        if (postprog != NULL) fprintf(rf, "postmsgs %u\n", postprog->msg_count);
    }
    finish("return", ret);
    never_verif_step_hook = NULL;
    if (machine) vm_delete(machine);
    if (!bdump) program_delete(prog);
    if (postprog != NULL) program_delete(postprog);
    for (k = 0; k < npre; k++) { if (preprog[k] != NULL) { if (rf) fprintf(rf, "premsgs %d %u\n", k, preprog[k]->msg_count); program_delete(preprog[k]); } }
    if (tf) fclose(tf);
    if (rf) fclose(rf);
    return ret ? 1 : 0;
}
