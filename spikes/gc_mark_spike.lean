/-
DESIGN-PHASE FEASIBILITY SPIKE — not framework code, not imported by anything.

Written while drafting DESIGN.md to find out what the hardest planned proof (C04/C09
`mark_spec`) costs. It models the three mutually recursive marking functions of
back/gc.c (`gc_mark`, `gc_mark_vec`/`gc_mark_arr`, the field loop) with fuel = C
recursion depth, and proves, for every heap and every fuel:
  * `mark_mono_all`  — marks only grow, objects and size never change;
  * `mark_post_all`  — every cell marked by a call has all its references finished
                       (nil, object-less, or marked) when the call returns, and the
                       call's own target is finished (the DFS closure postcondition
                       from which "marked = reachable" follows at top level).
Checked with Lean 4.33 core only: `lean gc_mark_spike.lean`; axioms: propext, Quot.sound.
About 25 minutes of work, 336 lines. The real model will live in lean/NeverModel/.
-/
/-! spike: recursive mark phase of gc.c, fuel = C recursion depth -/
namespace Spike

inductive Obj where
  | scalar
  | strRef (p : Nat)
  | vec (fs : List Nat)
  | vecRef (p : Nat)
  | arr (es : List Nat)
  | arrRef (p : Nat)
  | func (env : Nat)
  deriving Repr, DecidableEq

structure Cell where
  mark : Bool
  obj : Option Obj
  deriving Repr, DecidableEq

abbrev Mem := Array Cell

def setMark (m : Mem) (a : Nat) : Mem :=
  if h : a < m.size then m.set a { m[a] with mark := true } else m

@[simp] theorem size_setMark (m : Mem) (a : Nat) : (setMark m a).size = m.size := by
  unfold setMark; split <;> simp

def marked (m : Mem) (a : Nat) : Bool := match m[a]? with | some c => c.mark | none => false
def objAt (m : Mem) (a : Nat) : Option Obj := match m[a]? with | some c => c.obj | none => none

theorem objAt_setMark (m : Mem) (a b : Nat) : objAt (setMark m a) b = objAt m b := by
  unfold objAt setMark
  by_cases h : a < m.size
  · by_cases hab : a = b
    · subst hab; simp [h]
    · simp [h, Array.getElem?_set, hab]
  · simp [h]

theorem marked_setMark (m : Mem) (a b : Nat) :
    marked (setMark m a) b = (marked m b || (decide (a = b) && decide (a < m.size))) := by
  unfold marked setMark
  by_cases h : a < m.size
  · by_cases hab : a = b
    · subst hab; simp [h]
    · simp [h, Array.getElem?_set, hab]
  · by_cases hab : a = b
    · subst hab; simp [h]
    · simp [h, hab]

mutual
def mark (f : Nat) (m : Mem) (a : Nat) : Option Mem :=
  match f with
  | 0 => none
  | f+1 =>
    if a = 0 then some m else
    match m[a]? with
    | none => none
    | some c =>
      match c.obj with
      | none => some m
      | some .scalar => some (setMark m a)
      | some (.strRef p) => mark f (setMark m a) p
      | some (.vec _) => markC f m a
      | some (.vecRef p) => markC f (setMark m a) p
      | some (.arr _) => markC f m a
      | some (.arrRef p) => markC f (setMark m a) p
      | some (.func env) => markC f (setMark m a) env
termination_by (f, 0)
/-- gc_mark_vec / gc_mark_arr -/
def markC (f : Nat) (m : Mem) (a : Nat) : Option Mem :=
  match f with
  | 0 => none
  | f+1 =>
    if a = 0 then some m else
    match m[a]? with
    | none => none
    | some c =>
      if c.mark then some m else
      match c.obj with
      | some (.vec fs) => markL f (setMark m a) fs
      | some (.arr es) => markL f (setMark m a) es
      | _ => none
termination_by (f, 0)
def markL (f : Nat) (m : Mem) (xs : List Nat) : Option Mem :=
  match xs with
  | [] => some m
  | x :: xs =>
    match mark f m x with
    | none => none
    | some m' => markL f m' xs
termination_by (f, xs.length + 1)
end

-- a cyclic example: 1 = vecRef 2, 2 = vec [3,1], 3 = scalar, 4 = scalar (garbage)
def ex : Mem := #[⟨false, none⟩, ⟨false, some (.vecRef 2)⟩, ⟨false, some (.vec [3, 1])⟩,
                  ⟨false, some .scalar⟩, ⟨false, some .scalar⟩]
#eval (mark 10 ex 1).map (fun m => m.toList.map (·.mark))

/-- marks only grow, objects never change, size never changes -/
def Mono (m m' : Mem) : Prop :=
  m'.size = m.size ∧ (∀ b, objAt m' b = objAt m b) ∧ (∀ b, marked m b = true → marked m' b = true)

theorem Mono.refl (m : Mem) : Mono m m := ⟨rfl, fun _ => rfl, fun _ h => h⟩
theorem Mono.trans {a b c : Mem} (h1 : Mono a b) (h2 : Mono b c) : Mono a c :=
  ⟨h2.1.trans h1.1, fun x => (h2.2.1 x).trans (h1.2.1 x), fun x h => h2.2.2 x (h1.2.2 x h)⟩
theorem Mono.setMark (m : Mem) (a : Nat) : Mono m (setMark m a) :=
  ⟨size_setMark m a, objAt_setMark m a, fun b h => by simp [marked_setMark, h]⟩

end Spike

namespace Spike

theorem markL_mono_of (f : Nat)
    (hm : ∀ m a m', mark f m a = some m' → Mono m m') :
    ∀ xs m m', markL f m xs = some m' → Mono m m' := by
  intro xs
  induction xs with
  | nil => intro m m' h; rw [markL] at h; cases h; exact Mono.refl _
  | cons x xs ih =>
    intro m m' h
    rw [markL] at h
    split at h
    · cases h
    · rename_i m1 h1
      exact (hm _ _ _ h1).trans (ih _ _ h)

theorem mark_mono_all (f : Nat) :
    (∀ m a m', mark f m a = some m' → Mono m m') ∧
    (∀ m a m', markC f m a = some m' → Mono m m') := by
  induction f with
  | zero =>
    constructor
    · intro m a m' h; rw [mark] at h; cases h
    · intro m a m' h; rw [markC] at h; cases h
  | succ f ih =>
    obtain ⟨ihm, ihc⟩ := ih
    have ihl := markL_mono_of f ihm
    constructor
    · intro m a m' h
      rw [mark] at h
      split at h
      · cases h; exact Mono.refl _
      · split at h
        · cases h
        · split at h
          · cases h; exact Mono.refl _
          · cases h; exact Mono.setMark _ _
          · exact (Mono.setMark _ _).trans (ihm _ _ _ h)
          · exact ihc _ _ _ h
          · exact (Mono.setMark _ _).trans (ihc _ _ _ h)
          · exact ihc _ _ _ h
          · exact (Mono.setMark _ _).trans (ihc _ _ _ h)
          · exact (Mono.setMark _ _).trans (ihc _ _ _ h)
    · intro m a m' h
      rw [markC] at h
      split at h
      · cases h; exact Mono.refl _
      · split at h
        · cases h
        · split at h
          · cases h; exact Mono.refl _
          · split at h
            · exact (Mono.setMark _ _).trans (ihl _ _ _ h)
            · exact (Mono.setMark _ _).trans (ihl _ _ _ h)
            · cases h

end Spike

namespace Spike

def refs : Obj → List Nat
  | .scalar => []
  | .strRef p => [p]
  | .vec fs => fs
  | .vecRef p => [p]
  | .arr es => es
  | .arrRef p => [p]
  | .func env => [env]

/-- `r` is "done" in `m`: nil, dangling (no object) or marked -/
def Done (m : Mem) (r : Nat) : Prop := r = 0 ∨ objAt m r = none ∨ marked m r = true

/-- all references of cell `b` are done -/
def ClosedAt (m : Mem) (b : Nat) : Prop :=
  ∀ o, objAt m b = some o → ∀ r ∈ refs o, Done m r

/-- every cell marked between `m` and `m'` is closed in `m'` -/
def NewClosed (m m' : Mem) : Prop :=
  ∀ b, marked m' b = true → marked m b = false → ClosedAt m' b

theorem Done.mono {m m' : Mem} (h : Mono m m') {r : Nat} (d : Done m r) : Done m' r := by
  rcases d with d | d | d
  · exact Or.inl d
  · exact Or.inr (Or.inl (by rw [h.2.1]; exact d))
  · exact Or.inr (Or.inr (h.2.2 _ d))

theorem ClosedAt.mono {m m' : Mem} (h : Mono m m') {b : Nat} (c : ClosedAt m b) : ClosedAt m' b := by
  intro o ho r hr
  rw [h.2.1] at ho
  exact (c o ho r hr).mono h

theorem NewClosed.trans {a b c : Mem} (hab : Mono a b) (hbc : Mono b c)
    (h1 : NewClosed a b) (h2 : NewClosed b c) : NewClosed a c := by
  intro x hx hx0
  by_cases hb : marked b x = true
  · exact (h1 x hb hx0).mono hbc
  · exact h2 x hx (by simpa using hb)

structure Post (m m' : Mem) : Prop where
  mono : Mono m m'
  closed : NewClosed m m'

theorem Post.refl (m : Mem) : Post m m :=
  ⟨Mono.refl m, fun b h1 h0 => by simp [h0] at h1⟩

theorem Post.trans {a b c : Mem} (h1 : Post a b) (h2 : Post b c) : Post a c :=
  ⟨h1.mono.trans h2.mono, NewClosed.trans h1.mono h2.mono h1.closed h2.closed⟩

end Spike

namespace Spike

theorem getElem?_objAt {m : Mem} {a : Nat} {c : Cell} (h : m[a]? = some c) : objAt m a = c.obj := by
  simp [objAt, h]
theorem getElem?_marked {m : Mem} {a : Nat} {c : Cell} (h : m[a]? = some c) : marked m a = c.mark := by
  simp [marked, h]
theorem getElem?_lt {m : Mem} {a : Nat} {c : Cell} (h : m[a]? = some c) : a < m.size := by
  have := Array.getElem?_eq_some_iff.mp h; exact this.1

theorem marked_setMark_self {m : Mem} {a : Nat} (h : a < m.size) : marked (setMark m a) a = true := by
  simp [marked_setMark, h]

/-- one marking step followed by a call that finishes the references of `a` -/
theorem step_post {m m' : Mem} {a : Nat} {o : Obj}
    (ho : objAt m a = some o)
    (hp : Post (setMark m a) m')
    (hd : ∀ r ∈ refs o, Done m' r) : Post m m' := by
  refine ⟨(Mono.setMark m a).trans hp.mono, ?_⟩
  intro b hb hb0
  by_cases hab : a = b
  · subst hab
    intro o' ho' r hr
    have : objAt m' a = objAt m a := by
      rw [hp.mono.2.1, objAt_setMark]
    rw [this, ho] at ho'
    cases ho'
    exact hd r hr
  · apply hp.closed b hb
    simp [marked_setMark, hb0, hab]

theorem markL_post_of (f : Nat)
    (hm : ∀ m a m', mark f m a = some m' → Post m m' ∧ Done m' a) :
    ∀ xs m m', markL f m xs = some m' → Post m m' ∧ ∀ x ∈ xs, Done m' x := by
  intro xs
  induction xs with
  | nil => intro m m' h; rw [markL] at h; cases h; exact ⟨Post.refl _, by simp⟩
  | cons x xs ih =>
    intro m m' h
    rw [markL] at h
    split at h
    · cases h
    · rename_i m1 h1
      obtain ⟨p1, d1⟩ := hm _ _ _ h1
      obtain ⟨p2, d2⟩ := ih _ _ h
      refine ⟨p1.trans p2, ?_⟩
      intro y hy
      rcases List.mem_cons.mp hy with rfl | hy
      · exact d1.mono p2.mono
      · exact d2 y hy

theorem mark_post_all (f : Nat) :
    (∀ m a m', mark f m a = some m' → Post m m' ∧ Done m' a) ∧
    (∀ m a m', markC f m a = some m' → Post m m' ∧ Done m' a) := by
  induction f with
  | zero =>
    constructor
    · intro m a m' h; rw [mark] at h; cases h
    · intro m a m' h; rw [markC] at h; cases h
  | succ f ih =>
    obtain ⟨ihm, ihc⟩ := ih
    have ihl := markL_post_of f ihm
    constructor
    · intro m a m' h
      rw [mark] at h
      split at h
      · rename_i ha; cases h; exact ⟨Post.refl _, Or.inl ha⟩
      · split at h
        · cases h
        · rename_i c hc
          have hlt := getElem?_lt hc
          have hobj := getElem?_objAt hc
          -- in every marking case `a` ends up marked
          have fin : ∀ {m1 : Mem}, Mono (setMark m a) m1 → Done m1 a := fun hmono =>
            Or.inr (Or.inr (hmono.2.2 _ (marked_setMark_self hlt)))
          split at h
          · rename_i hn; cases h
            exact ⟨Post.refl _, Or.inr (Or.inl (by rw [hobj, hn]))⟩
          · rename_i hs; cases h
            refine ⟨step_post (o := .scalar) (by rw [hobj, hs]) (Post.refl _) (by simp [refs]), fin (Mono.refl _)⟩
          · rename_i p hs
            obtain ⟨pp, dd⟩ := ihm _ _ _ h
            exact ⟨step_post (o := .strRef p) (by rw [hobj, hs]) pp (by simpa [refs] using dd), fin pp.mono⟩
          · exact ihc _ _ _ h
          · rename_i p hs
            obtain ⟨pp, dd⟩ := ihc _ _ _ h
            exact ⟨step_post (o := .vecRef p) (by rw [hobj, hs]) pp (by simpa [refs] using dd), fin pp.mono⟩
          · exact ihc _ _ _ h
          · rename_i p hs
            obtain ⟨pp, dd⟩ := ihc _ _ _ h
            exact ⟨step_post (o := .arrRef p) (by rw [hobj, hs]) pp (by simpa [refs] using dd), fin pp.mono⟩
          · rename_i p hs
            obtain ⟨pp, dd⟩ := ihc _ _ _ h
            exact ⟨step_post (o := .func p) (by rw [hobj, hs]) pp (by simpa [refs] using dd), fin pp.mono⟩
    · intro m a m' h
      rw [markC] at h
      split at h
      · rename_i ha; cases h; exact ⟨Post.refl _, Or.inl ha⟩
      · split at h
        · cases h
        · rename_i c hc
          have hlt := getElem?_lt hc
          have hobj := getElem?_objAt hc
          split at h
          · rename_i hmk; cases h
            exact ⟨Post.refl _, Or.inr (Or.inr (by rw [getElem?_marked hc]; exact hmk))⟩
          · split at h
            · rename_i fs hs
              obtain ⟨pp, dd⟩ := ihl _ _ _ h
              exact ⟨step_post (o := .vec fs) (by rw [hobj, hs]) pp (by simpa [refs] using dd),
                     Or.inr (Or.inr (pp.mono.2.2 _ (marked_setMark_self hlt)))⟩
            · rename_i es hs
              obtain ⟨pp, dd⟩ := ihl _ _ _ h
              exact ⟨step_post (o := .arr es) (by rw [hobj, hs]) pp (by simpa [refs] using dd),
                     Or.inr (Or.inr (pp.mono.2.2 _ (marked_setMark_self hlt)))⟩
            · cases h

end Spike
