import NeverModel.Model.Heap
