import NeverModel.Model.Heap
import NeverModel.Model.Num
import NeverModel.Model.Index
import NeverModel.Model.ExcTab
import NeverModel.Model.Vm
import NeverModel.Props.C03
import NeverModel.Props.C09
import NeverModel.Props.C12
